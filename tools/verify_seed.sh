#!/bin/bash
# verify_seed.sh <worktree> <seed-dir> <module-dir-rel> <demo-dest-rel> <demo-run-regex> <existing-test-pkgs>
# Confirms: demo passes without the change, fails with it; existing tests pass with the change.
set -u
wt=$1; seed=$2; mod=$3; dest=$4; run=$5; pkgs=$6
export GOFLAGS=-mod=mod GOPROXY=off GOSUMDB=off GOTOOLCHAIN=local
cd $wt && git checkout -q -- . && git status --short | grep -v SEED
pkgdir=$(dirname $dest)
cp $seed/demo_test.go $wt/$dest
echo "== demo WITHOUT change"; (cd $wt/$mod && go test -count=1 -run "$run" ./${pkgdir#$mod/}/ 2>&1 | tail -3)
git -C $wt apply $seed/patch.diff || { echo "PATCH DOES NOT APPLY"; exit 1; }
echo "== demo WITH change"; (cd $wt/$mod && go test -count=1 -run "$run" ./${pkgdir#$mod/}/ 2>&1 | tail -5)
rm $wt/$dest
echo "== existing tests WITH change"; (cd $wt/$mod && go test -count=1 $pkgs 2>&1 | grep -v "no test files" | tail -15)
git -C $wt checkout -q -- .
