#!/bin/bash
# verify_seed.sh <worktree> <seed-dir> <existing-test-cmds...>
# Confirms: demo passes without the change, fails with it; the given existing-test commands (run from the worktree root,
# e.g. "cd service && go test -count=1 ./...") pass with the change.
# The demo's "// PLACE:" and "// RUN:" header lines say where it goes and how to run it.
set -u
wt=$1; seed=$2; shift 2
export GOFLAGS=-mod=mod GOPROXY=off GOSUMDB=off GOTOOLCHAIN=local
cd $wt && git checkout -q -- . && git status --short | grep -v SEED
dest=$(sed -n 's#^// PLACE: *##p' $seed/demo_test.go | head -1)
run=$(sed -n 's#^// RUN: *##p' $seed/demo_test.go | head -1)
echo "PLACE=$dest"; echo "RUN=$run"
cp $seed/demo_test.go $wt/$dest
echo "== demo WITHOUT change"; (cd $wt && eval "$run" 2>&1 | tail -3)
git -C $wt apply $seed/patch.diff || { echo "PATCH DOES NOT APPLY"; rm -f $wt/$dest; exit 1; }
echo "== demo WITH change"; (cd $wt && eval "$run" 2>&1 | grep -E "^(--- FAIL|FAIL|ok|panic)" | head -8)
rm $wt/$dest
for c in "$@"; do
  echo "== existing tests WITH change: $c"; (cd $wt && eval "$c" 2>&1 | grep -v "no test files" | grep -vE "^ok " | tail -8; echo "exit=${PIPESTATUS[0]}")
done
git -C $wt checkout -q -- .
