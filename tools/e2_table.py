#!/usr/bin/env python3
"""Rewrites DESIGN.md Appendix E.2 from harness/*/harness.json (units) and evidence/*.json (measured numbers)."""
import json, re, glob, os
root = os.path.dirname(os.path.dirname(os.path.abspath(__file__)))
desc = {
 'C01': "scripts <= 5, later incarnations <= 2, crash chains <= 2, capacities 2/3/100, every storage boundary; chain unit: the persistent configurations of C03's driver (real retry sender, shutdown) judged by C01's clause, plus death at EVERY storage boundary of concurrent executions (2 consumers, concurrent shutdown, holding backend; storage calls are scheduling points; recovery memoised per storage image)",
 'C02': 'drivers D1-D8 x memory/persistent (+ D3/D3b/D3c wait-for-result, D6 bare cond), bound 2 (bound 1 for the 6-7-thread ones), generated family G (kind x capacity x block x wait-for-result x patterns x shutdown mode) at bound 1; seq unit: ALL operation sequences <= 6 over offer(0..3)/read/done on both queues against the bounded-FIFO model',
 'C03': '33 queue/batch/retry/wait-for-result/persistent configurations incl. disabled queue, per-attempt timeout (virtual context deadline) with slow backends, idle period before Shutdown (flush timer due), failing storage Close, already-expired shutdown context, bound 1 (+ free backend answers for the split-request drivers), recovery epilogue on the same storage',
 'C04': 'shape universe x sequences <= 2 x items/bytes limits, items without content (ltm, profiles); the real defaultBatcher under the scheduler: request sequences <= 2 (+ oversized-last-item and empty-request sequences) x 10 (min,max,workers) x idle x {tagged errors at bound 1, no failure, every single poisoned item - with schedules where two flushes overlap} with a completion-callback ledger; layer 3: the real request types of all four signals inside the real batcher',
 'C05': 'back-off configs x backend outcome sequences <= 5 (12 outcomes incl. joined-permanent, attempt-expired, slow-transient) x wake-ups x extreme random draws, second request after shutdown',
 'C06': 'consumer vectors <= 4 x RO/mutable input x 4 signals on the fan-out consumers and, same enumeration, through the connector routers; the real pipeline graph: 32 presence x 512 capability assignments of a 9-component topology x 4 signals with a path-trail oracle',
 'C07': 'programs depth 4/3 on 31 slice types, Value/Map programs depth 4 (incl. mutating RemoveIf predicates), programs depth 4 on the 7 primitive slice types (capacity in the alphabet), read-only sweep with a mutable twin (mutators panic, copy OUT works and is independent under in-place writes), struct-level CopyTo sweep over every slice of a fully populated payload',
 'C08': '1-deviation universe (value-carrying element followed by a default one), spellings (int64 as number, enum names incl. the zero member), legacy wire form, bytes <= 3, JSON tokens <= 4; plain codecs + the four *otlp request/response wrappers; json-concurrent: two overlapping decodes after rejected inputs, 8 entry points, bound 2',
 'C09': 'all configurations of three pipelines over the option list (0-3 processors, two of them named p1 and P1: identifiers are case-sensitive, a second order and 4 in C09; connector positions; router-aware connectors; 6 connector direction sets), each accepted one also with in-place mutating processors; two-connector sweep under both map iteration orders; routers under concurrent use (race pass)',
 'C10': 'accepted topologies x every single failure (graph); the real service.Service: extension DAGs <= 3, 4 topologies with cross-signal shared components x every single failure x every tie-breaking of one topological sort',
 'C11': 'report sequences <= 5 / <= 4 per instance incl. error statuses with a new cause each time, concurrent drivers bound 2, late-attach enumeration <= 6 reports incl. repeats, the real Service with every extension a status watcher (service-watchers)',
 'C12': 'strings <= 4 tokens x2 (with/without default scheme), containers, typed provider values (incl. null, surrounding whitespace, maps containing references, structured values with 3-4 references into string fields), provider-held instances referenced and resolved twice, histories of <= 3 provider-table versions on one resolver, merge lists <= 3',
 'C13': '242 setting paths written one at a time and in pairs (secrets must show redacted; structured reader lists), unknown-key nodes, reference/shape faults (incl. ids defined under another kind) and positive controls, re-load of the pristine seed',
 'C14': 'renderings (fmt verbs x flags, String/GoString, text/binary/JSON/YAML, confmap Marshal, holders incl. any-typed slots and custom marshalers) x secrets incl. provider-supplied and YAML-special ones; unmarshal target shapes',
 'C15': 'transport/encoding x compression (incl. levels) x 4 signals x consumer outcomes x payloads (small, structured, 1.2 MiB, empty, shaped no-items) x auth; raw malformed requests incl. every strict prefix of compressed streams; wire status/Retry-After; concurrent HTTP handlers under the scheduler',
 'C16': 'algorithm x level x content class x size x limit x every subset of the 7 decoder names, other spellings of the encoding name, known/unknown length, large bodies, replay through GetBody, server-side and client-side overlap by nesting',
 'C17': 'split cases (3 180) + concurrent configurations (arrivals spread over virtual time, trickle, timeout 0, metadata keys with injective value lists, cardinality limit, downstream refusals) bound 1 + every metadata arrival sequence <= 4 x limit 0/1/2 against an admission reference',
 'C18': 'measurement sequences <= 3 x 17 configs (both limit families set, limits up to >= 4 GiB), life-cycle drivers bound 2 (holding / no-hold / refusing), processor and extension grids',
 'C19': 'receiver/processor/scraper grids x tracing mode (recording / no-op tracer / unsampled parent) + exporter histories: 9 configurations (queue, retry, batch incl. size-weighted, persistent, cancelled caller) x sizes x backend scripts x 3 signals',
 'C20': '(generation plan, event history <= 2) pairs, bound 2, notifications handed over by default, slow-start plan, provider-log histories; two locations with one scheme, a provider reached by reference, an idle provider',
}
rows = []
for hp in sorted(glob.glob(os.path.join(root, 'harness', 'C*', 'harness.json'))):
    h = json.load(open(hp)); pid = h['property']
    units = [u['name'] for u in h['units'] if not u.get('race')]
    race = [u['name'] for u in h['units'] if u.get('race')]
    ev = json.load(open(os.path.join(root, 'evidence', pid + '.json')))
    cov = ev['coverage']
    n = cov['evaluations']
    num = ('%.1f M' % (n / 1e6)) if n >= 1e6 else ('%d k' % round(n / 1e3)) if n >= 1e4 else str(n)
    m = '%s evaluations, %d s' % (num, round(ev['wall_s']))
    if race:
        rp = cov.get('race_pass') or []
        m += '; race pass: %s executions, 0 reports in the code under test' % sum(int(r.get('executions_under_the_race_detector', 0)) for r in rp)
    rows.append('| %s | %s | %s | %s |' % (pid, ', '.join(units) + ((' (+ ' + ', '.join(race) + ')') if race else ''), desc[pid], m))
table = '| id | units | what the quick run enumerates | measured (quick, 16 cores) |\n|----|-------|-------------------------------|------------------|\n' + '\n'.join(rows) + '\n'
p = os.path.join(root, 'DESIGN.md')
s = open(p).read()
i = s.index('| id | units | what the quick run enumerates')
j = s.index('### E.3 False alarms')
s = s[:i] + table + '\n' + s[j:]
open(p, 'w').write(s)
print('E.2 rewritten,', len(rows), 'rows')
