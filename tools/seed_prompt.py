#!/usr/bin/env python3
"""seed_prompt.py <Cxx> <worktree> <test-hint> — prints the sub-agent prompt for seeding a property-breaking change."""
import json, sys
pid, wt, hint = sys.argv[1], sys.argv[2], sys.argv[3]
p = [json.loads(l) for l in open('/verif/properties.jsonl') if json.loads(l)['id'] == pid][0]
print(f"""You are helping to evaluate a verification tool. Your job: craft ONE realistic, subtle code change ("seeded defect") to the Go project open-telemetry/opentelemetry-collector that BREAKS a given semantic property while the code still compiles and the project's existing unit tests still pass, plus a small demonstration (Go test) that fails with your change and passes without it.

Work ONLY inside your own scratch git worktree: {wt} (a checkout of the repository; do not touch /repo or /verif, do not read anything under /verif). The sandbox is offline. For every go command use:
  export GOFLAGS=-mod=mod GOPROXY=off GOSUMDB=off GOTOOLCHAIN=local
The repo is multi-module (many go.mod files); run go commands from inside the module directory that contains the package.

THE PROPERTY
TITLE: {p['title']}
STATEMENT: {p['statement']}
QUANTIFIED OVER: {p['quantifier']['text']}
RELEVANT FILES: {', '.join(p['anchors']['files'])}

REQUIREMENTS for the change:
1. It must violate the property on the real code, but only under something SPECIFIC: a particular interleaving, a crash or fault at a particular point, a multi-step sequence of operations, an unusual input/configuration, or two cooperating sites that each look fine alone. It must NOT be something ordinary use or the simplest test would expose at once. Think like a plausible refactoring or "optimisation" mistake by a maintainer (reordering two statements, moving something outside a lock, an off-by-one or wrong comparison in a boundary case, forgetting one case of several, dropping a copy, re-using a buffer, handling one signal/type differently, ...).
2. The code must compile, and the EXISTING tests must still pass unedited. {hint} Confirm they pass WITH your change (run twice if anything concurrent is involved). If an existing test fails, pick a different change.
3. Write a demonstration: a new Go test file placed in the most suitable package (name it zz_seed_demo_test.go, test names starting with TestSeedDemo) that FAILS with your change and PASSES on the unmodified code. If the failure needs a specific interleaving you may force it deterministically in the demo (ordered goroutines/channels, calling internal methods in a specific order) or use a stress loop that fails reliably within a few seconds. Verify both directions (toggle the change with `git stash` / `git checkout`).
4. Keep the change small (a few lines, one or two hunks) and make it look innocent (plausible comment).

DELIVERABLES (write them into the directory {wt}/SEED/):
- patch.diff : output of `git diff` for the source change ONLY (not the demo test), applicable with `git apply` from the repo root.
- demo_test.go : the demonstration test file; its FIRST line must be a comment of the form `// PLACE: <repo-relative path where this file must be copied>` and the second `// RUN: cd <module dir> && go test -count=1 -run TestSeedDemo ./<pkg>/`.
- notes.md : what the change is, why it breaks the property, exactly what is needed for it to manifest, and the exact commands you ran with their results (existing tests pass with change; demo fails with change, passes without).
Leave the worktree with the source change reverted (clean `git status` except the SEED directory) when you finish. In your final answer, summarise the change in 5 lines.""")
