#!/usr/bin/env python3
"""results_from_logs.py <log>... — (re)builds mutants/RESULTS.md from the `| name | property | result | signature |` rows that
`bin/verif mutants` printed into the given logs (later files, and later rows, win). Used when the detection runs were done
in several sittings instead of one `bin/verif mutants` call."""
import sys, re, os, glob
rows = {}
for f in sys.argv[1:]:
    for l in open(f, errors='replace'):
        if l.startswith('| ') and l.count('|') >= 5 and not l.startswith('| change'):
            name = l.split('|')[1].strip()
            if name and (name.startswith('C') or name.startswith('seeded/')):
                rows[name] = l.rstrip('\n')
root = os.path.dirname(os.path.dirname(os.path.abspath(__file__)))
expected = sorted([d for d in os.listdir(os.path.join(root, 'mutants')) if d[0] == 'C' and os.path.isdir(os.path.join(root, 'mutants', d))] +
                  ['seeded/' + d for d in os.listdir(os.path.join(root, 'seeded')) if os.path.exists(os.path.join(root, 'seeded', d, 'meta.json'))])
out = ['# Detection results (`verif mutants`, tier quick; rows collected from several runs of the same command)', '',
       '| change | property | result | first signature |', '|---|---|---|---|']
missing = []
for n in expected:
    if n in rows:
        out.append(rows[n])
    else:
        missing.append(n)
caught = sum(1 for n in expected if n in rows and '| caught' in rows[n])
out += ['', '%d changes, %d with a recorded run, %d caught, %d not caught, %d without a recorded run%s' % (
    len(expected), len(expected) - len(missing), caught, len(expected) - len(missing) - caught, len(missing),
    (': ' + ', '.join(missing)) if missing else '')]
open(os.path.join(root, 'mutants', 'RESULTS.md'), 'w').write('\n'.join(out) + '\n')
print(out[-1][:300])
