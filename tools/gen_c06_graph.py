#!/usr/bin/env python3
"""Generates harness/C06/c06_graph_test.go (per-signal component code from one template)."""
sigs = [
 # name, Signal const, payload type, consumer iface, Consume method, pkg.New, ResourceX accessor, marshal expr, recv/proc/exp iface names
 dict(n='logs', S='pipeline.SignalLogs', P='plog.Logs', C='consumer.Logs', M='ConsumeLogs', new='plog.NewLogs()', res='ResourceLogs',
      js='(&plog.JSONMarshaler{}).MarshalLogs(p)', R='receiver.Logs', PR='processor.Logs', E='exporter.Logs', CN='connector.Logs',
      wr='xreceiver.WithLogs', wp='xprocessor.WithLogs', we='xexporter.WithLogs', wc='xconnector.WithLogsToLogs', F='ConsumeLogsFunc', fp='consumer'),
 dict(n='traces', S='pipeline.SignalTraces', P='ptrace.Traces', C='consumer.Traces', M='ConsumeTraces', new='ptrace.NewTraces()', res='ResourceSpans',
      js='(&ptrace.JSONMarshaler{}).MarshalTraces(p)', R='receiver.Traces', PR='processor.Traces', E='exporter.Traces', CN='connector.Traces',
      wr='xreceiver.WithTraces', wp='xprocessor.WithTraces', we='xexporter.WithTraces', wc='xconnector.WithTracesToTraces', F='ConsumeTracesFunc', fp='consumer'),
 dict(n='metrics', S='pipeline.SignalMetrics', P='pmetric.Metrics', C='consumer.Metrics', M='ConsumeMetrics', new='pmetric.NewMetrics()', res='ResourceMetrics',
      js='(&pmetric.JSONMarshaler{}).MarshalMetrics(p)', R='receiver.Metrics', PR='processor.Metrics', E='exporter.Metrics', CN='connector.Metrics',
      wr='xreceiver.WithMetrics', wp='xprocessor.WithMetrics', we='xexporter.WithMetrics', wc='xconnector.WithMetricsToMetrics', F='ConsumeMetricsFunc', fp='consumer'),
 dict(n='profiles', S='xpipeline.SignalProfiles', P='pprofile.Profiles', C='xconsumer.Profiles', M='ConsumeProfiles', new='pprofile.NewProfiles()', res='ResourceProfiles',
      js='(&pprofile.JSONMarshaler{}).MarshalProfiles(p)', R='xreceiver.Profiles', PR='xprocessor.Profiles', E='xexporter.Profiles', CN='xconnector.Profiles',
      wr='xreceiver.WithProfiles', wp='xprocessor.WithProfiles', we='xexporter.WithProfiles', wc='xconnector.WithProfilesToProfiles', F='ConsumeProfilesFunc', fp='xconsumer'),
]
head = open('/verif/harness/C06/c06_graph_head.go.txt').read()
per = open('/verif/harness/C06/c06_graph_signal.go.txt').read()
out = head
for s in sigs:
    t = per
    for k, v in s.items():
        t = t.replace('«' + k + '»', v)
    out += t
regs = ''.join('\t"%s": {c6New_%s, c6Inject_%s},\n' % (s['n'], s['n'], s['n']) for s in sigs)
opts_r = ', '.join('%s(c6CreateRecv_%s, st)' % (s['wr'], s['n']) for s in sigs)
opts_p = ', '.join('%s(c6CreateProc_%s, st)' % (s['wp'], s['n']) for s in sigs)
opts_e = ', '.join('%s(c6CreateExp_%s, st)' % (s['we'], s['n']) for s in sigs)
opts_c = ', '.join('%s(c6CreateConn_%s, st)' % (s['wc'], s['n']) for s in sigs)
out += '''
var c6Signals = map[string]c6Sig{
%s}

func c6Factories() (receiver.Factory, processor.Factory, exporter.Factory, connector.Factory) {
	st := component.StabilityLevelStable
	cfg := func() component.Config { return &struct{}{} }
	return xreceiver.NewFactory(c6T, cfg, %s),
		xprocessor.NewFactory(c6T, cfg, %s),
		xexporter.NewFactory(c6T, cfg, %s),
		xconnector.NewFactory(c6T, cfg, %s)
}
''' % (regs, opts_r, opts_p, opts_e, opts_c)
open('/verif/harness/C06/c06_graph_test.go', 'w').write(out)
print('generated', len(out.split('\n')), 'lines')
