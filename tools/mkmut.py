#!/usr/bin/env python3
"""mkmut.py <name> <repo-rel-file> <old> <new> [<old2> <new2> ...] — creates mutants/<name>/files/<file> from /repo's current file."""
import sys, os
name, rel = sys.argv[1], sys.argv[2]
pairs = sys.argv[3:]
dst = os.path.join('/verif/mutants', name, 'files', rel)
src = dst if os.path.exists(dst) and os.environ.get('APPEND') else os.path.join('/repo', rel)
s = open(src).read()
for i in range(0, len(pairs), 2):
    old, new = pairs[i], pairs[i+1]
    if s.count(old) != 1:
        sys.exit('pattern occurs %d times: %r' % (s.count(old), old))
    s = s.replace(old, new)
os.makedirs(os.path.dirname(dst), exist_ok=True)
open(dst, 'w').write(s)
print('wrote', dst)
