#!/usr/bin/env python3
"""seed_round.py <round> — creates /tmp/seed<round>-cNN worktrees of /repo and writes /tmp/prompt<round>-cNN.txt.
The prompt = tools/seed_prompt.py text + one-line summaries of the changes earlier sub-agents made for this property
(so that the new one goes elsewhere). Nothing about /verif's checks is passed on."""
import json, subprocess, sys, os, glob
rnd = sys.argv[1]
only = sys.argv[2:]  # optional list of ids
HINT = {
 'C01': 'exporter', 'C02': 'exporter', 'C03': 'exporter', 'C04': 'exporter exporter/exporterhelper/xexporterhelper', 'C05': 'exporter config/configretry consumer/consumererror',
 'C06': 'internal/fanoutconsumer service connector', 'C07': 'pdata pdata/pprofile', 'C08': 'pdata pdata/pprofile',
 'C09': 'service connector', 'C10': 'service internal/sharedcomponent otelcol', 'C11': 'service component/componentstatus internal/sharedcomponent',
 'C12': 'confmap confmap/provider/envprovider confmap/provider/yamlprovider confmap/internal/e2e', 'C13': 'confmap confmap/xconfmap otelcol service exporter receiver/otlpreceiver config/confighttp config/configgrpc config/configtls',
 'C14': 'config/configopaque confmap config/confighttp config/configgrpc', 'C15': 'receiver/otlpreceiver exporter/otlphttpexporter config/confighttp config/configgrpc internal/e2e',
 'C16': 'config/confighttp config/configcompression', 'C17': 'processor/batchprocessor client', 'C18': 'internal/memorylimiter processor/memorylimiterprocessor extension/memorylimiterextension processor/processorhelper',
 'C19': 'receiver/receiverhelper processor/processorhelper exporter scraper/scraperhelper service', 'C20': 'otelcol service confmap',
}
props = {json.loads(l)['id']: json.loads(l) for l in open('/verif/properties.jsonl')}
for pid in sorted(props):
    if only and pid not in only: continue
    n = pid[1:]
    wt = f'/tmp/seed{rnd}-c{n}'
    if not os.path.isdir(wt):
        subprocess.check_call(['git', '-C', '/repo', 'worktree', 'add', '--detach', '-q', wt, 'HEAD'])
    mods = HINT[pid].split()
    hint = 'The modules whose existing tests matter most here: ' + ', '.join(mods) + ' (run `go test -count=1 ./...` inside each module directory you touched and inside those that import the touched package). exporter/otlpexporter cannot be built offline; skip it.'
    txt = subprocess.check_output(['python3', '/verif/tools/seed_prompt.py', pid, wt, hint], text=True)
    prev = []
    for m in sorted(glob.glob(f'/verif/seeded/c{n}-agent*/meta.json')):
        s = json.load(open(m)).get('summary', '')
        if s: prev.append('- ' + s)
    if prev:
        txt += ("\n\nEARLIER ATTEMPTS by other people for this same property (one line each). Do something DIFFERENT: a different clause of the statement, a different code path or file, a different dimension of the quantifier (another configuration option, signal type, component kind, operation order, fault point), or two cooperating sites. Do not repeat any of these:\n" + '\n'.join(prev) + '\n')
    open(f'/tmp/prompt{rnd}-c{n}.txt', 'w').write(txt)
    print(pid, wt, len(prev), 'earlier')
