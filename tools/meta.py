#!/usr/bin/env python3
"""meta.py <seed-dir-name> <summary> <needs> [also_checked_by,...] — writes seeded/<name>/meta.json"""
import json, sys
name, summary, needs = sys.argv[1:4]
p = f'/verif/seeded/{name}/meta.json'
import os, re
if os.path.exists(p):
    m = json.load(open(p))
else:
    os.makedirs(os.path.dirname(p), exist_ok=True)
    mm = re.match(r'c(\d+)-agent(\d+)', name)
    m = {'property': 'C' + mm.group(1), 'source': 'independent sub-agent, round ' + mm.group(2)}
m.update(summary=summary, needs=needs, verified='demo passes without / fails with the change; the listed existing tests pass with the change')
if len(sys.argv) > 4: m['also_checked_by'] = sys.argv[4].split(',')
json.dump(m, open(p, 'w'), indent=1)
