#!/usr/bin/env python3
"""Regenerates /verif/MANIFEST.json from harness/*/harness.json (claimed checks) and tools/not_applicable.json."""
import json, os, glob
root = os.path.dirname(os.path.dirname(os.path.abspath(__file__)))
props = [json.loads(l) for l in open(os.path.join(root, 'properties.jsonl'))]
na_reasons = json.load(open(os.path.join(root, 'tools', 'not_applicable.json')))
checks, engines_used = [], {}
claimed = set()
for hp in sorted(glob.glob(os.path.join(root, 'harness', 'C*', 'harness.json'))):
    h = json.load(open(hp))
    m = h.get('manifest')
    if not m:
        continue
    pid = h['property']
    claimed.add(pid)
    checks.append({
        'property_id': pid,
        'quick_cmd': './check.sh %s quick' % pid,
        'thorough_cmd': './check.sh %s thorough' % pid,
        'evidence_file': '/verif/evidence/%s.json' % pid,
        'replay_cmd_template': 'bin/verif replay %s {path}' % pid,
        'engine': m.get('engine', ''),
        'level_claimed': {'category': h['level'], 'text': m['text'], 'design_ref': m.get('design_ref', 'DESIGN.md §4 ' + pid)},
        'level_note': m['note'],
        'technique': m['technique'],
    })
    for e in m.get('engine', '').split('+'):
        engines_used.setdefault(e.strip(), []).append(pid)
    if any(u.get('rewrite') or u.get('rewrite_thorough') for u in h['units']):
        engines_used.setdefault('rewrite', []).append(pid)
    if any(u.get('race') for u in h['units']):
        engines_used.setdefault('race-pass', []).append(pid)
    if any('GOMODCACHE' in k for u in h['units'] for k in (u.get('extra') or {})):
        engines_used.setdefault('module-overlay', []).append(pid)
na = []
for p in props:
    if p['id'] not in claimed:
        na.append({'property_id': p['id'], 'reason': na_reasons.get(p['id'], 'check not built yet in this round (planned in DESIGN.md §4); not claimed')})
engines = [
    {'name': 'E1', 'path': 'engine/vs', 'kind_free_text': 'controlled scheduler + deviation-bounded stateless DFS over real code instrumented by engine/rewrite (sync/time/signal/runtime shims incl. RWMutex writer preference, faithful channel model, virtual time incl. context deadlines, atomic timer firing, owned map iteration order, weak/strong quiescence waits)'},
    {'name': 'E2', 'path': 'engine/vr + harness/*', 'kind_free_text': 'sequential bounded-exhaustive / explicit-state exploration of operation sequences, environment answers and input shapes against Go reference models'},
    {'name': 'E3', 'path': 'harness/C01', 'kind_free_text': 'crash enumeration over a logged in-memory storage client (every storage-call boundary, crash chains)'},
    {'name': 'E4', 'path': 'harness/C07, harness/C08', 'kind_free_text': 'reflective payload universe over the generated data-model / protobuf structs (every field, every one-of alternative, boundary values; 1-2 deviations from the zero payload) and operation programs against plain-Go reference models'},
    {'name': 'module-overlay', 'path': 'harness/shared/*.go.txt', 'kind_free_text': 'build-time overlays of single files of third-party modules that own nondeterminism the scheduler cannot see: gonum graph/topo/tarjan.go (tie-breaking of topological sorts = Go map iteration order in the real code; canonical order for deterministic replay, exhaustive enumeration of traversals in C10/service) and cenkalti/backoff exponential.go (the random draw of the randomised retry interval; extremes enumerated in C05)'},
    {'name': 'race-pass', 'path': 'engine/vs/race.go', 'kind_free_text': 'supporting pass (not the deciding step, except for C09 router-concurrent-race, whose code has no synchronisation operation to interleave): the same harness bodies under the same scheduler in a -race binary; the scheduler hand-off is hidden from the detector (//go:norace shim package, plain-variable hand-off under GOMAXPROCS=1), every shim primitive adds an over-approximated happens-before edge for the operation it stands for, so a reported race between two sites of the code under test is a race of the real program under that schedule; deterministic prefix of the same DFS order (race_execs executions per exploration call); validates the atomicity assumption of E1 (scheduling points at synchronisation operations only); reported as coverage.race_pass in the evidence'},
    {'name': 'rewrite', 'path': 'engine/rewrite', 'kind_free_text': 'syntactic instrumenter (go/ast) applied at check time through go build -overlay; /repo is never edited'},
]
for e in engines:
    e['serves_properties'] = sorted(set(engines_used.get(e['name'], [])))
man = {
    'version': 1,
    'setup_cmd': 'cd /verif && GOFLAGS=-mod=mod GOPROXY=off GOSUMDB=off GOTOOLCHAIN=local go build -o bin/verif ./cmd/verif && bin/verif setup',
    'hooks': {
        'guard': 'verif',
        'enable': 'no hook lives in /repo: instrumentation is generated at check time from the current working tree (engine/rewrite) and injected with `go test -c -tags verif -overlay <generated>.json -modfile <copy>`; harness files carry //go:build verif',
        'baseline_off_cmd': json.load(open('/root/.vp/BASELINE.json'))['cmd'] if os.path.exists('/root/.vp/BASELINE.json') else 'see /root/.vp/BASELINE.json',
        'source_commits': [],
        'add_only': True,
    },
    'engines': engines,
    'checks': checks,
    'not_applicable': na,
    'notes': 'Checks exit 0 (held / only KNOWN-FINDING lines), 1 (VIOLATION property=<id> replay=<path>) or 2 (infrastructure/build error, never a verdict). fix: commits and known findings are listed in known_findings.json. Detection runs: bin/verif mutants (mutants/ and seeded/).',
}
json.dump(man, open(os.path.join(root, 'MANIFEST.json'), 'w'), indent=1)
print('checks:', len(checks), 'not_applicable:', len(na))
