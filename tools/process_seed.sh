#!/bin/bash
# process_seed.sh <round> <NN> <modules-to-test (space separated, quoted)>   — copies /tmp/seed<round>-c<NN>/SEED to
# seeded/c<NN>-agent<round>, confirms the demo both ways and the modules' existing tests with the change, then runs the
# property's quick check against it (overlay, /repo untouched). Log: .work/logs/seed<round>-c<NN>.log
r=$1; n=$2; mods=$3
wt=/tmp/seed$r-c$n; sd=/verif/seeded/c$n-agent$r
mkdir -p $sd && cp $wt/SEED/patch.diff $wt/SEED/demo_test.go $wt/SEED/notes.md $sd/ 2>/dev/null
[ -f $sd/meta.json ] || echo "{\"property\": \"C$n\", \"source\": \"independent sub-agent, round $r\", \"summary\": \"\", \"needs\": \"\", \"verified\": \"\"}" > $sd/meta.json
cmds=()
for m in $mods; do cmds+=("cd $m && go test -count=1 ./... 2>&1"); done
{
  /verif/tools/verify_seed.sh $wt $sd "${cmds[@]}"
  echo "== check"
  cd /verif && bin/verif mutants seeded/c$n-agent$r
} > /verif/.work/logs/seed$r-c$n.log 2>&1
tail -4 /verif/.work/logs/seed$r-c$n.log
