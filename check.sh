#!/bin/bash
# usage: ./check.sh Cxx quick|thorough     (registered in MANIFEST.json)
# Builds the driver if needed (std-only Go, offline) and runs one property check against /repo's current tree.
cd "$(dirname "$0")" || exit 2
export GOFLAGS=-mod=mod GOPROXY=off GOSUMDB=off GOTOOLCHAIN=local
export VERIF_DIR="$(pwd)"
if [ ! -x bin/verif ] || [ -n "$(find cmd engine go.mod -newer bin/verif -print -quit 2>/dev/null)" ]; then
  go build -o bin/verif ./cmd/verif || { echo "INFRA: cannot build driver"; exit 2; }
fi
exec bin/verif check "$1" --tier "${2:-${VERIF_TIER:-quick}}"
