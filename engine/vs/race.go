package vs

import (
	"bytes"
	"fmt"
	"os"
	"runtime"
	"sort"
	"strings"
	rsync "sync"
)

// Race mode (engine E1, supporting pass). The exploration's scheduling points sit at synchronisation operations; that is
// sufficient only if the code between them is free of unsynchronised conflicting accesses. The pass that checks this runs
// the SAME harness bodies under the SAME scheduler in a binary built with -race, with two differences:
//
//   - the scheduler's own hand-off between threads is invisible to the detector (a plain variable polled in functions
//     compiled with go:norace, as is all of this package), so the only happens-before edges the detector sees are those
//     of the program: goroutine creation, real atomics, real channel operations, and the edges the shim primitives add
//     below on behalf of the operations they stand for;
//   - every edge the shims add is an OVER-approximation of the real primitive's guarantee (a lock/unlock pair on a real
//     mutex orders all operations on one shim object in execution order), so a reported race is a race of the real
//     program under the same schedule, while some races can be missed.
//
// Reports are read back from the detector's log after every execution and turned into a verdict of that execution.
var RaceMode = os.Getenv("VERIF_RACE") == "1"

//go:norace
func init() {
	if RaceMode {
		runtime.GOMAXPROCS(1) // the hand-off variable is plain memory
	}
}

//go:norace
func (t *Thread) wakeUp() {
	if !RaceMode {
		t.wake <- struct{}{}
		return
	}
	t.token = 1
}

//go:norace
func (t *Thread) wakeKill() {
	if !RaceMode {
		select {
		case t.wake <- struct{}{}:
		default:
		}
		return
	}
	t.token = 1
}

//go:norace
func (t *Thread) waitWake() {
	if !RaceMode {
		<-t.wake
		return
	}
	for t.token == 0 {
		runtime.Gosched()
	}
	t.token = 0
}

// hb adds "everything before an earlier hb(m) happens before everything after this one".
//go:norace
func hb(m *rsync.Mutex) {
	if RaceMode {
		m.Lock()
		m.Unlock()
	}
}

var timeHB rsync.Mutex

// ---- reading the detector's reports

var (
	raceLogOff int64
	// RaceReports counts the reports seen (including those attributed to the harness itself and ignored).
	RaceReports, RaceIgnored int
)

//go:norace
func raceLogPath() string {
	return fmt.Sprintf("%s.%d", os.Getenv("VERIF_RACE_LOG"), os.Getpid())
}

// collectRaces turns the detector's new reports into the execution's verdict (reported like a panic, which every harness
// already treats as a violation and replays).
//go:norace
func (s *Sched) collectRaces() {
	if !RaceMode {
		return
	}
	b, err := os.ReadFile(raceLogPath())
	if err != nil || int64(len(b)) <= raceLogOff {
		return
	}
	fresh := b[raceLogOff:]
	raceLogOff = int64(len(b))
	for _, rep := range bytes.Split(fresh, []byte("WARNING: DATA RACE")) {
		sig, ok := raceSig(string(rep))
		if sig == "" {
			continue
		}
		RaceReports++
		if !ok {
			RaceIgnored++
			continue
		}
		if s.Panic == nil {
			s.Panic = "DATA RACE " + sig
			s.PanicStack = "WARNING: DATA RACE" + string(rep)
		}
	}
}

// raceSig: the two access sites (innermost function outside the engine), sorted; ok=false when one of the two accesses
// is made by harness code itself (harness threads share their bookkeeping without synchronisation, relying on the
// scheduler - that is not the program's business).
//go:norace
func raceSig(rep string) (string, bool) {
	var sites []string
	ok := true
	lines := strings.Split(rep, "\n")
	for i := 0; i < len(lines); i++ {
		l := lines[i]
		isAccess := false
		for _, p := range []string{"Read at ", "Write at ", "Previous read at ", "Previous write at ", "Atomic read at", "Atomic write at", "Previous atomic read at", "Previous atomic write at"} {
			if strings.HasPrefix(l, p) {
				isAccess = true
			}
		}
		if !isAccess {
			continue
		}
		kind := "read"
		if strings.Contains(strings.ToLower(l), "write") {
			kind = "write"
		}
		// frames: "  func()\n      file:line +0x..", innermost first
		site := ""
		for j := i + 1; j+1 < len(lines) && strings.HasPrefix(lines[j], "  ") && !strings.HasPrefix(lines[j], "   "); j += 2 {
			fn, file := strings.TrimSpace(lines[j]), strings.TrimSpace(lines[j+1])
			if raceStdlib(fn) {
				continue // the access site is the innermost frame outside the standard library
			}
			if strings.Contains(file, "/zzverif/") {
				ok = false // the engine's own bookkeeping seen through a runtime helper (map, slice growth)
			}
			if strings.Contains(file, "zz_verif_") {
				ok = false
			}
			if k := strings.LastIndexByte(fn, '/'); k >= 0 {
				fn = fn[k+1:]
			}
			site = kind + "@" + strings.TrimSuffix(fn, "()")
			break
		}
		if site == "" {
			ok = false
			site = kind + "@?"
		}
		sites = append(sites, site)
	}
	if len(sites) < 2 {
		return "", false
	}
	sites = sites[:2]
	sort.Strings(sites)
	return strings.Join(sites, " / "), ok
}

// raceStdlib: the function belongs to the standard library (its import path's first element has no dot).
//
//go:norace
func raceStdlib(fn string) bool {
	first := fn
	if k := strings.IndexByte(first, '/'); k >= 0 {
		first = first[:k]
	} else if k := strings.IndexByte(first, '.'); k >= 0 {
		first = first[:k]
	}
	return !strings.Contains(first, ".")
}
