package vs

import (
	"runtime"
	"time"
)

// time shim: a virtual clock. Instrumented files import this package under the name "time".
type (
	Duration = time.Duration
	Time     = time.Time
	Month    = time.Month
	Location = time.Location
)

const (
	Nanosecond  = time.Nanosecond
	Microsecond = time.Microsecond
	Millisecond = time.Millisecond
	Second      = time.Second
	Minute      = time.Minute
	Hour        = time.Hour
	RFC3339     = time.RFC3339
	RFC3339Nano = time.RFC3339Nano
)

var (
	UTC           = time.UTC
	Unix          = time.Unix
	ParseDuration = time.ParseDuration
	Date          = time.Date
)

type vtimer struct {
	when   time.Time
	ch     chan time.Time
	armed  bool
	period time.Duration
	f      func()
	inline bool // f is a short non-blocking environment action (a context deadline's cancel): run by the firing thread itself
}

// Timer mirrors time.Timer with Go 1.23 semantics: Stop/Reset discard an undelivered value and then report true.
type Timer struct {
	C  <-chan Time
	vt *vtimer
}

type Ticker struct {
	C  <-chan Time
	vt *vtimer
}

//go:norace
func newVT(d Duration, period Duration) *vtimer {
	hb(&timeHB) // race mode: arming a timer happens before its firing
	t := &vtimer{when: S.clock.Add(d), ch: make(chan time.Time, 1), armed: true, period: period}
	S.timers = append(S.timers, t)
	return t
}

//go:norace
func Now() Time {
	if !S.Active {
		if S.clock.IsZero() {
			return epoch
		}
		return S.clock
	}
	return S.clock
}
//go:norace
func Since(t Time) Duration { return Now().Sub(t) }
//go:norace
func Until(t Time) Duration { return t.Sub(Now()) }

//go:norace
func NewTimer(d Duration) *Timer {
	Point()
	t := newVT(d, 0)
	return &Timer{C: t.ch, vt: t}
}

//go:norace
func AfterFunc(d Duration, f func()) *Timer {
	Point()
	t := newVT(d, 0)
	t.f = f
	return &Timer{C: nil, vt: t}
}

//go:norace
func NewTicker(d Duration) *Ticker {
	if d <= 0 {
		panic("non-positive interval for NewTicker")
	}
	Point()
	t := newVT(d, d)
	return &Ticker{C: t.ch, vt: t}
}

//go:norace
func After(d Duration) <-chan Time {
	Point()
	return newVT(d, 0).ch
}

//go:norace
func Sleep(d Duration) {
	if d <= 0 {
		Point()
		return
	}
	Recv(After(d))
}

//go:norace
func drain(ch chan time.Time) bool {
	select {
	case <-ch:
		return true
	default:
		return false
	}
}

//go:norace
func (t *Timer) Stop() bool {
	if S.killed {
		return false
	}
	Point()
	hb(&timeHB)
	pending := t.vt.armed
	t.vt.armed = false
	if drain(t.vt.ch) {
		pending = true
	}
	return pending
}

//go:norace
func (t *Timer) Reset(d Duration) bool {
	if S.killed {
		return false
	}
	Point()
	hb(&timeHB)
	pending := t.vt.armed
	if drain(t.vt.ch) {
		pending = true
	}
	t.vt.armed = true
	t.vt.when = S.clock.Add(d)
	return pending
}

//go:norace
func (t *Ticker) Stop() {
	if S.killed {
		return
	}
	Point()
	hb(&timeHB)
	t.vt.armed = false
	drain(t.vt.ch)
}

//go:norace
func (t *Ticker) Reset(d Duration) {
	if S.killed {
		return
	}
	Point()
	hb(&timeHB)
	drain(t.vt.ch)
	t.vt.armed = true
	t.vt.period = d
	t.vt.when = S.clock.Add(d)
}

// PendingTimer reports whether an armed timer exists.
//go:norace
func PendingTimer() bool {
	for _, t := range S.timers {
		if t.armed {
			return true
		}
	}
	return false
}

// NextDeadline returns the earliest armed deadline.
//go:norace
func NextDeadline() (Time, bool) {
	var best *vtimer
	for _, t := range S.timers {
		if t.armed && (best == nil || t.when.Before(best.when)) {
			best = t
		}
	}
	if best == nil {
		return Time{}, false
	}
	return best.when, true
}

// ArmedDeadlines lists the deadlines of all armed timers (oracles on "timer is armed with deadline <= x").
//go:norace
func ArmedDeadlines() []Time {
	var l []Time
	for _, t := range S.timers {
		if t.armed {
			l = append(l, t.when)
		}
	}
	return l
}

// FireNext advances the clock to the earliest armed timer and delivers it (non-blocking, like the runtime).
//go:norace
func FireNext() {
	var best *vtimer
	for _, t := range S.timers {
		if t.armed && (best == nil || t.when.Before(best.when)) {
			best = t
		}
	}
	if best == nil {
		return
	}
	if best.when.After(S.clock) {
		S.clock = best.when
	}
	if best.period > 0 {
		best.when = best.when.Add(best.period)
		if !best.when.After(S.clock) {
			best.when = S.clock.Add(best.period)
		}
	} else {
		best.armed = false
	}
	hb(&timeHB)
	if best.f != nil {
		f := best.f
		if best.inline {
			f()
			return
		}
		Go(f)
		return
	}
	// delivering the tick is part of the firing: ONE environment action. (The send used to be a scheduling point of its
	// own; a clock thread that had been scheduled as a deviation - "the timer fires while thread X is preempted" - then
	// needed a second deviation to get past it, because an environment thread never continues by default.)
	S.atomic++
	Select(true, CaseSend(best.ch, S.clock))
	S.atomic--
}

// Advance moves the virtual clock without firing anything (sequential harnesses).
//go:norace
func Advance(d Duration) {
	if S.clock.IsZero() {
		S.clock = epoch
	}
	S.clock = S.clock.Add(d)
}

// SetClockInactive prepares the virtual clock for sequential (non-scheduled) use.
//go:norace
func ResetInactive() {
	*S = Sched{clock: epoch, MaxSteps: S.MaxSteps}
}

// StartClock spawns the clock daemon: "advance to the earliest deadline and fire it", enabled whenever a timer is armed.
// It stops when stop() returns true.
//go:norace
func StartClock(stop func() bool) {
	GoDaemon("clock", func() {
		for {
			block(func() bool { return PendingTimer() || stop() })
			if stop() {
				return
			}
			FireNext()
		}
	})
}

// runtime shim
type MemStats = runtime.MemStats

var CPUs = 1

//go:norace
func NumCPU() int { return CPUs }

var (
	ReadMemStats = runtime.ReadMemStats
	GC           = runtime.GC
)
