package vs

import (
	"context"
	"time"
)

// Virtual-time context deadlines. The rewriter's `ctx` flag turns context.WithTimeout / context.WithDeadline of an
// instrumented file into CtxWithTimeout / CtxWithDeadline: the deadline then lives on the scheduler's virtual clock and
// its expiry is an ordinary timer of the execution (the clock daemon fires it; "fires early" is a deviation like for every
// other timer) instead of an event of the machine's real clock that no schedule owns.
//
// The returned context wraps a standard cancel context derived from the parent, so cancellation of the parent reaches
// it synchronously and without helper goroutines, Done() is the wrapped context's channel (a "foreign" channel of the
// channel model, polled like every ctx.Done()), Deadline() reports the virtual deadline and Err() reports
// context.DeadlineExceeded once the virtual timer has cancelled it. One documented imprecision: a context derived from
// it by the standard library is cancelled at the same instant but reports context.Canceled.
type deadlineCtx struct {
	context.Context
	parent   context.Context
	deadline time.Time
	expired  bool
}

//go:norace
func (c *deadlineCtx) Deadline() (time.Time, bool) {
	if d, ok := c.parent.Deadline(); ok && d.Before(c.deadline) {
		return d, true
	}
	return c.deadline, true
}

//go:norace
func (c *deadlineCtx) Err() error {
	err := c.Context.Err()
	if err != nil && c.expired {
		return context.DeadlineExceeded
	}
	return err
}

//go:norace
func (c *deadlineCtx) String() string { return "vs.deadlineCtx(" + c.deadline.Sub(epoch).String() + ")" }

//go:norace
func CtxWithDeadline(parent context.Context, d time.Time) (context.Context, context.CancelFunc) {
	if S.clock.IsZero() {
		S.clock = epoch
	}
	inner, cancel := context.WithCancel(parent)
	c := &deadlineCtx{Context: inner, parent: parent, deadline: d}
	if !d.After(S.clock) {
		c.expired = inner.Err() == nil
		cancel()
		return c, func() { cancel() }
	}
	hb(&timeHB)
	t := &vtimer{when: d, armed: true, inline: true}
	t.f = func() {
		if inner.Err() == nil {
			c.expired = true
		}
		cancel()
	}
	S.timers = append(S.timers, t)
	return c, func() {
		t.armed = false
		cancel()
	}
}

//go:norace
func CtxWithTimeout(parent context.Context, d time.Duration) (context.Context, context.CancelFunc) {
	if S.clock.IsZero() {
		S.clock = epoch
	}
	return CtxWithDeadline(parent, S.clock.Add(d))
}
