package vs

import (
	"fmt"
	"runtime"
	rsync "sync"
)

type Locker = rsync.Locker

// WouldBlock is the panic value of a shim operation that would block outside the scheduler (sequential harnesses
// use it to learn "this call would wait", e.g. Read on an empty queue).
type WouldBlock struct{ Op string }

//go:norace
func (w WouldBlock) Error() string { return "vs: " + w.Op + " would block outside the scheduler" }

// TryBlocking runs f; it reports blocked=true if f hit an operation that would block.
//go:norace
func TryBlocking(f func()) (blocked bool) {
	defer func() {
		if r := recover(); r != nil {
			if _, ok := r.(WouldBlock); ok {
				blocked = true
				return
			}
			panic(r)
		}
	}()
	f()
	return false
}

// Mutex: state kept in the shim. Outside the scheduler (Active=false) it degrades to a flag (sequential harnesses).
type Mutex struct {
	locked bool
	hb     rsync.Mutex // race mode: carries the happens-before edges of Lock/Unlock (see race.go)
}

//go:norace
func (m *Mutex) Lock() {
	if !S.Active {
		if m.locked {
			panic(WouldBlock{"Mutex.Lock"})
		}
		m.locked = true
		return
	}
	if S.killed {
		runtime.Goexit()
	}
	blockOp("Mutex.Lock", func() bool { return !m.locked })
	m.locked = true
	hb(&m.hb)
}

//go:norace
func (m *Mutex) TryLock() bool {
	Point()
	if m.locked {
		return false
	}
	m.locked = true
	hb(&m.hb)
	return true
}

//go:norace
func (m *Mutex) Unlock() {
	if !S.Active {
		m.locked = false
		return
	}
	if S.killed {
		return
	}
	Point()
	if !m.locked {
		panic("sync: unlock of unlocked mutex")
	}
	hb(&m.hb)
	m.locked = false
}

type RWMutex struct {
	w bool
	r int
	// pw: writers that have called Lock and are waiting. Like sync.RWMutex, a waiting writer blocks NEW readers ("if any
	// goroutine calls Lock while the lock is already held by one or more readers, concurrent calls to RLock will block
	// until the writer has acquired (and released) the lock") - which is what makes a recursive read lock a deadlock.
	pw int
	// race mode: hw carries writer-unlock -> next lock of either kind, hr carries reader-unlock -> next writer lock
	hw, hr rsync.Mutex
}

//go:norace
func (m *RWMutex) Lock() {
	if !S.Active {
		m.w = true
		return
	}
	if S.killed {
		runtime.Goexit()
	}
	m.pw++
	blockOp("RWMutex.Lock", func() bool { return !m.w && m.r == 0 })
	m.pw--
	m.w = true
	hb(&m.hw)
	hb(&m.hr)
}
//go:norace
func (m *RWMutex) Unlock() {
	if !S.Active {
		m.w = false
		return
	}
	if S.killed {
		return
	}
	Point()
	hb(&m.hw)
	m.w = false
}
//go:norace
func (m *RWMutex) RLock() {
	if !S.Active {
		m.r++
		return
	}
	if S.killed {
		runtime.Goexit()
	}
	blockOp("RWMutex.RLock", func() bool { return !m.w && m.pw == 0 })
	m.r++
	hb(&m.hw)
}
//go:norace
func (m *RWMutex) RUnlock() {
	if !S.Active {
		m.r--
		return
	}
	if S.killed {
		return
	}
	Point()
	hb(&m.hr)
	m.r--
}

type Cond struct {
	L       Locker
	waiters []*bool
}

//go:norace
func NewCond(l Locker) *Cond { return &Cond{L: l} }

//go:norace
func (c *Cond) Wait() {
	if !S.Active {
		panic(WouldBlock{"Cond.Wait"})
	}
	if S.killed {
		runtime.Goexit()
	}
	Point()
	sig := new(bool)
	c.waiters = append(c.waiters, sig)
	switch l := c.L.(type) { // release without a scheduling point: Wait's unlock+park is atomic
	case *Mutex:
		hb(&l.hb)
		l.locked = false
	case *RWMutex:
		hb(&l.hw)
		l.w = false
	default:
		panic("vs: Cond with foreign Locker")
	}
	blockOp("Cond.Wait", func() bool { return *sig })
	c.L.Lock()
}

//go:norace
func (c *Cond) Signal() {
	if !S.Active || S.killed {
		return
	}
	Point()
	if len(c.waiters) > 0 {
		*c.waiters[0] = true
		c.waiters = c.waiters[1:]
	}
}

//go:norace
func (c *Cond) Broadcast() {
	if !S.Active || S.killed {
		return
	}
	Point()
	for _, w := range c.waiters {
		*w = true
	}
	c.waiters = nil
}

type WaitGroup struct {
	n  int
	hb rsync.Mutex
}

//go:norace
func (w *WaitGroup) Add(d int) {
	if !S.Active {
		w.n += d
		return
	}
	if S.killed {
		return
	}
	Point()
	hb(&w.hb)
	w.n += d
	if w.n < 0 {
		panic("sync: negative WaitGroup counter")
	}
}
//go:norace
func (w *WaitGroup) Done() { w.Add(-1) }
//go:norace
func (w *WaitGroup) Wait() {
	if !S.Active {
		if w.n != 0 {
			panic(WouldBlock{"WaitGroup.Wait"})
		}
		return
	}
	if S.killed {
		runtime.Goexit()
	}
	blockOp("WaitGroup.Wait", func() bool { return w.n == 0 })
	hb(&w.hb)
}

// Once: the function runs under the once's internal lock, like the real one (a second caller waits for completion).
type Once struct {
	done    bool
	running bool
	hb      rsync.Mutex
}

//go:norace
func (o *Once) Do(f func()) {
	if !S.Active {
		if !o.done {
			o.done = true
			f()
		}
		return
	}
	if S.killed {
		runtime.Goexit()
	}
	blockOp("Once.Do", func() bool { return !o.running })
	if o.done {
		hb(&o.hb)
		return
	}
	o.running = true
	defer func() { hb(&o.hb); o.done = true; o.running = false }()
	f()
}

// Pool: deterministic LIFO (always re-uses, which maximises exposure of use-after-release bugs).
type Pool struct {
	New   func() any
	items []any
	epoch int64
	hb    rsync.Mutex
}

// scope drops what an earlier execution left in the pool (package-level pools outlive an execution; a thread killed at
// the end of an execution may have left an object in any state)
//go:norace
func (p *Pool) scope() {
	if p.epoch != execEpoch {
		p.items, p.epoch = nil, execEpoch
	}
}

// PoolPoints (opt-in per harness): make Pool.Get and the moment after Pool.Put scheduling points, so that "an object is
// handed back to the pool while its memory is still in use" becomes visible as an interleaving (the other thread gets the
// object - the shim pool is LIFO - before the first one has finished with it).
var PoolPoints bool

//go:norace
func (p *Pool) Get() any {
	if PoolPoints && S.Active {
		Point()
	}
	p.scope()
	hb(&p.hb)
	if n := len(p.items); n > 0 {
		x := p.items[n-1]
		p.items = p.items[:n-1]
		return x
	}
	if p.New != nil {
		return p.New()
	}
	return nil
}
//go:norace
func (p *Pool) Put(x any) {
	p.scope()
	hb(&p.hb)
	p.items = append(p.items, x)
	if PoolPoints && S.Active {
		Point()
	}
}

// Map wraps the real sync.Map; every operation is a scheduling point.
type Map struct{ m rsync.Map }

//go:norace
func (m *Map) Load(k any) (any, bool)           { Point(); return m.m.Load(k) }
//go:norace
func (m *Map) Store(k, v any)                   { Point(); m.m.Store(k, v) }
//go:norace
func (m *Map) LoadOrStore(k, v any) (any, bool) { Point(); return m.m.LoadOrStore(k, v) }
//go:norace
func (m *Map) LoadAndDelete(k any) (any, bool)  { Point(); return m.m.LoadAndDelete(k) }
//go:norace
func (m *Map) Delete(k any)                     { Point(); m.m.Delete(k) }
//go:norace
func (m *Map) Range(f func(k, v any) bool)      { Point(); m.m.Range(f) }

// MapKeys returns the keys of m in a canonical order (sorted by their %v rendering) permuted by MapOrder: the iteration
// order of a map the rewriter was told about (flag maprange=...) is an environment answer the harness owns. MapOrder gets
// the number of keys and returns a permutation of 0..n-1 (nil = canonical order).
var MapOrder func(n int) []int

//go:norace
func MapKeys[K comparable, V any](m map[K]V) []K {
	keys := make([]K, 0, len(m))
	for k := range m {
		keys = append(keys, k)
	}
	names := make([]string, len(keys))
	for i, k := range keys {
		names[i] = fmt.Sprintf("%v", k)
	}
	// insertion sort on (name, key): maps here are small
	for i := 1; i < len(keys); i++ {
		for j := i; j > 0 && names[j] < names[j-1]; j-- {
			names[j], names[j-1] = names[j-1], names[j]
			keys[j], keys[j-1] = keys[j-1], keys[j]
		}
	}
	if MapOrder != nil {
		if perm := MapOrder(len(keys)); perm != nil {
			out := make([]K, len(keys))
			for i, p := range perm {
				out[i] = keys[p]
			}
			return out
		}
	}
	return keys
}

// MapOrderReversed is the MapOrder answer "descending".
//go:norace
func MapOrderReversed(n int) []int {
	p := make([]int, n)
	for i := range p {
		p[i] = n - 1 - i
	}
	return p
}
