package vs

import "fmt"

// Loop tick guard (engine E2): a deterministic non-termination oracle. The rewriter puts Tick() at the head of every
// for body of the listed files; more than TickLimit iterations inside one top-level call is reported as
// "does not terminate" — no wall clock involved.
var (
	Ticks     int
	TickLimit = 10000
)

type NonTermination struct{ Ticks int }

//go:norace
func (n NonTermination) Error() string {
	return fmt.Sprintf("NON-TERMINATION after %d loop iterations", n.Ticks)
}

//go:norace
func ResetTicks() { Ticks = 0 }

//go:norace
func Tick() {
	Ticks++
	if Ticks > TickLimit {
		panic(NonTermination{Ticks})
	}
}

// Guard runs f and converts a tick overrun or any other panic into a value.
//go:norace
func Guard(f func()) (nonterm bool, panicked any) {
	ResetTicks()
	defer func() {
		if r := recover(); r != nil {
			if _, ok := r.(NonTermination); ok {
				nonterm = true
				return
			}
			panicked = r
		}
	}()
	f()
	return
}
