package vs

import (
	"reflect"
	"runtime"
	rsync "sync"
)

// Faithful-ish model of Go channel semantics: parked receivers/senders are committed by the counterpart.
type waiter struct {
	t    *Thread
	arm  int
	push func() // for parked senders: moves its value into the real buffer
	val  any    // for parked senders on handoff
	gone *bool  // shared by all arms of one select; set when committed
}

type chanState struct {
	recvq, sendq []*waiter
	closed       bool
	foreign      []*waiter // parked receivers on a channel closed by uninstrumented code (ctx.Done)
	poll         func() bool
	keep         any // the channel itself (see st)
	id           uintptr
	hb           rsync.Mutex // race mode: orders the operations on this channel (see race.go)
}

//go:norace
func chanID(ch any) uintptr { return reflect.ValueOf(ch).Pointer() }

// st returns the shim state of a channel. The state is keyed by the channel's address, so it keeps the channel alive for
// the rest of the execution: a collected channel's address could otherwise be given to a new channel, which would inherit
// the old one's state ("closed").
//go:norace
func (s *Sched) st(ch any) *chanState {
	id := chanID(ch)
	for _, c := range s.chans {
		if c.id == id {
			return c
		}
	}
	c := &chanState{keep: ch, id: id}
	s.chans = append(s.chans, c)
	return c
}

//go:norace
func firstLive(q *[]*waiter) *waiter {
	for len(*q) > 0 {
		w := (*q)[0]
		*q = (*q)[1:]
		if !*w.gone {
			return w
		}
	}
	return nil
}

//go:norace
func commit(w *waiter, v any, ok bool) {
	*w.gone = true
	w.t.committed = true
	w.t.selArm = w.arm
	w.t.selVal = v
	w.t.selOk = ok
}

// pollForeign: commit parked receivers whose foreign (uninstrumented) channel got closed.
//go:norace
func (s *Sched) pollForeign() {
	for _, c := range s.chans {
		if c.poll == nil || len(c.recvq) == 0 {
			continue
		}
		live := c.recvq[:0]
		for _, w := range c.recvq {
			if !*w.gone {
				live = append(live, w)
			}
		}
		c.recvq = live
		if len(live) == 0 {
			continue
		}
		if c.closed || c.poll() {
			c.closed = true
			for {
				w := firstLive(&c.recvq)
				if w == nil {
					break
				}
				commit(w, nil, false)
			}
		}
	}
}

type Case interface {
	tryFire(s *Sched) bool    // complete now if possible
	park(s *Sched, w *waiter) // enqueue
	take(t *Thread)           // copy committed result
	raceEdge(s *Sched, done bool)
}

type RecvCase[T any] struct {
	ch  <-chan T
	v   T
	ok  bool
}

//go:norace
func CaseRecv[T any](ch <-chan T) *RecvCase[T] { return &RecvCase[T]{ch: ch} }
//go:norace
func (c *RecvCase[T]) Val() T                   { return c.v }
//go:norace
func (c *RecvCase[T]) Val2() (T, bool)          { return c.v, c.ok }

// raceEdge (race mode): on arrival and on completion every operation on a channel is ordered after the earlier ones on the
// same channel; a completed receive from a closed channel additionally performs the real receive in the receiver's own
// goroutine (the close may have been done by uninstrumented code, e.g. a context's cancel).
//go:norace
func (c *RecvCase[T]) raceEdge(s *Sched, done bool) {
	if !RaceMode || c.ch == nil {
		return
	}
	hb(&s.st(c.ch).hb)
	if done && !c.ok {
		select {
		case <-c.ch:
		default:
		}
	}
}

//go:norace
func (c *SendCase[T]) raceEdge(s *Sched, done bool) {
	if !RaceMode || c.ch == nil {
		return
	}
	hb(&s.st(c.ch).hb)
}

//go:norace
func (c *RecvCase[T]) pollClosed() bool {
	if len(c.ch) > 0 { // never consume a buffered value while polling for a foreign close
		return false
	}
	select {
	case _, ok := <-c.ch:
		return !ok
	default:
		return false
	}
}

//go:norace
func (c *RecvCase[T]) canFire(s *Sched) bool {
	if c.ch == nil {
		return false
	}
	st := s.st(c.ch)
	if len(c.ch) > 0 || st.closed {
		return true
	}
	for _, w := range st.sendq {
		if !*w.gone {
			return true
		}
	}
	if len(c.ch) == 0 && c.pollClosed() {
		st.closed = true
		return true
	}
	return false
}

//go:norace
func (c *RecvCase[T]) tryFire(s *Sched) bool {
	if !c.canFire(s) {
		return false
	}
	st := s.st(c.ch)
	if len(c.ch) > 0 {
		c.v, c.ok = <-c.ch, true
		if w := firstLive(&st.sendq); w != nil { // a parked sender refills the buffer
			w.push()
			commit(w, nil, true)
		}
		return true
	}
	if w := firstLive(&st.sendq); w != nil { // unbuffered rendezvous
		c.v, c.ok = w.val.(T), true
		commit(w, nil, true)
		return true
	}
	var z T
	c.v, c.ok = z, false // closed
	return true
}

//go:norace
func (c *RecvCase[T]) park(s *Sched, w *waiter) {
	if c.ch == nil {
		return
	}
	st := s.st(c.ch)
	if st.poll == nil {
		st.poll = c.pollClosed
	}
	st.recvq = append(st.recvq, w)
}

//go:norace
func (c *RecvCase[T]) take(t *Thread) {
	if t.selVal != nil {
		c.v = t.selVal.(T)
	}
	c.ok = t.selOk
}

type SendCase[T any] struct {
	ch chan<- T
	v  T
}

//go:norace
func CaseSend[T any](ch chan<- T, v T) *SendCase[T] { return &SendCase[T]{ch: ch, v: v} }

//go:norace
func (c *SendCase[T]) tryFire(s *Sched) bool {
	if c.ch == nil {
		return false
	}
	st := s.st(c.ch)
	if st.closed {
		panic("send on closed channel")
	}
	if w := firstLive(&st.recvq); w != nil { // direct hand-off commits the parked receiver's arm
		commit(w, c.v, true)
		return true
	}
	if len(c.ch) < cap(c.ch) {
		c.ch <- c.v
		return true
	}
	return false
}

//go:norace
func (c *SendCase[T]) park(s *Sched, w *waiter) {
	st := s.st(c.ch)
	w.val = c.v
	w.push = func() { c.ch <- c.v }
	st.sendq = append(st.sendq, w)
}
//go:norace
func (c *SendCase[T]) take(*Thread) {}

// Select returns the index of the fired case, or -1 for default.
//go:norace
func Select(hasDefault bool, cases ...Case) int {
	if !S.Active {
		return selectInactive(hasDefault, cases)
	}
	if S.killed {
		runtime.Goexit()
	}
	s := S
	Point() // arrival: the thread may be preempted before evaluating the select
	t := s.cur
	if RaceMode {
		for _, c := range cases {
			c.raceEdge(s, false)
		}
	}
	var ready []int
	for i, c := range cases {
		switch cc := c.(type) {
		case interface{ canFire(*Sched) bool }:
			if cc.canFire(s) {
				ready = append(ready, i)
			}
		default:
			// send case: probe without side effects
			if sc, ok := c.(interface{ canSend(*Sched) bool }); ok && sc.canSend(s) {
				ready = append(ready, i)
			}
		}
	}
	if len(ready) > 0 {
		i := ready[0]
		if len(ready) > 1 {
			i = ready[s.choose(len(ready), 1)]
		}
		if !cases[i].tryFire(s) {
			panic("select arm not fireable")
		}
		cases[i].raceEdge(s, true)
		return i
	}
	if hasDefault {
		return -1
	}
	gone := new(bool)
	t.committed = false
	for i, c := range cases {
		c.park(s, &waiter{t: t, arm: i, gone: gone})
	}
	blockOp(selOpName(cases), func() bool { return t.committed })
	cases[t.selArm].take(t)
	cases[t.selArm].raceEdge(s, true)
	return t.selArm
}

//go:norace
func (c *SendCase[T]) canSend(s *Sched) bool {
	if c.ch == nil {
		return false
	}
	st := s.st(c.ch)
	if st.closed {
		return true
	}
	for _, w := range st.recvq {
		if !*w.gone {
			return true
		}
	}
	return len(c.ch) < cap(c.ch)
}

//go:norace
func Send[T any](ch chan<- T, v T) {
	if !S.Active {
		ch <- v
		return
	}
	if S.killed {
		return
	}
	Select(false, CaseSend(ch, v))
}

//go:norace
func Recv[T any](ch <-chan T) T {
	if !S.Active {
		return <-ch
	}
	c := CaseRecv(ch)
	Select(false, c)
	return c.v
}

//go:norace
func Recv2[T any](ch <-chan T) (T, bool) {
	if !S.Active {
		v, ok := <-ch
		return v, ok
	}
	c := CaseRecv(ch)
	Select(false, c)
	return c.v, c.ok
}

//go:norace
func Close[T any](ch chan<- T) {
	if !S.Active {
		close(ch)
		return
	}
	if S.killed {
		return
	}
	Point()
	st := S.st(ch)
	hb(&st.hb)
	if st.closed {
		panic("close of closed channel")
	}
	st.closed = true
	close(ch)
	for {
		w := firstLive(&st.recvq)
		if w == nil {
			break
		}
		commit(w, nil, false)
	}
}

// selectInactive: outside the scheduler (sequential harnesses using rewritten files) the real runtime semantics apply.
//go:norace
func selectInactive(hasDefault bool, cases []Case) int {
	rc := make([]reflect.SelectCase, 0, len(cases)+1)
	for _, c := range cases {
		rc = append(rc, c.(interface{ rcase() reflect.SelectCase }).rcase())
	}
	if hasDefault {
		rc = append(rc, reflect.SelectCase{Dir: reflect.SelectDefault})
	}
	i, v, ok := reflect.Select(rc)
	if hasDefault && i == len(cases) {
		return -1
	}
	cases[i].(interface{ setRes(reflect.Value, bool) }).setRes(v, ok)
	return i
}

//go:norace
func (c *RecvCase[T]) rcase() reflect.SelectCase {
	return reflect.SelectCase{Dir: reflect.SelectRecv, Chan: reflect.ValueOf(c.ch)}
}
//go:norace
func (c *RecvCase[T]) setRes(v reflect.Value, ok bool) {
	if ok {
		c.v = v.Interface().(T)
	}
	c.ok = ok
}
//go:norace
func (c *SendCase[T]) rcase() reflect.SelectCase {
	return reflect.SelectCase{Dir: reflect.SelectSend, Chan: reflect.ValueOf(c.ch), Send: reflect.ValueOf(&c.v).Elem()}
}
//go:norace
func (c *SendCase[T]) setRes(reflect.Value, bool) {}

//go:norace
func selOpName(cases []Case) string {
	if len(cases) == 1 {
		if _, ok := cases[0].(interface{ canSend(*Sched) bool }); ok {
			return "chan-send"
		}
		return "chan-recv"
	}
	return "select"
}
