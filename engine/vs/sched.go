// Package vs is the controlled scheduler (engine E1) of the /verif framework together with the drop-in
// shims for sync, time, os/signal and runtime that instrumented copies of repository files import.
// It is overlaid into the module under test as <host>/zzverif/vs and uses the standard library only.
//
// Threads are real goroutines; exactly one runs at a time. Before every visible operation a thread publishes
// an enabledness predicate and yields to the scheduler, which picks the next thread: the CHESS abstraction.
// Explore is a stateless depth-first search over the resulting choice tree with a deviation bound.
package vs

import (
	"fmt"
	"os"
	"runtime"
	"runtime/debug"
	"sort"
	"strconv"
	"strings"
	"sync"
	rtime "time"
)

type Thread struct {
	id     int
	name   string
	wake   chan struct{}
	token  int // race mode: the hand-off (see race.go)
	done   bool
	daemon bool
	ready  func() bool // nil => always ready
	pcs    [12]uintptr // call stack recorded when the thread last had to wait (resolved only at a deadlock)
	npcs   int
	op     string      // shim operation it waits in
	// channel commit results
	committed bool
	selArm    int
	selVal    any
	selOk     bool
}

//go:norace
func (t *Thread) ID() int { return t.id }

type ChoicePt struct {
	N      int // number of alternatives
	Free   int // alternatives [0,Free) cost nothing; the rest cost one deviation each
	Chosen int
}

type Sched struct {
	atomic int // > 0: scheduling points are suppressed (see FireNext)
	threads      []*Thread
	cur          *Thread
	prefix       []int
	Points       []ChoicePt
	killed       bool
	endCh        chan struct{}
	wg           sync.WaitGroup
	Deadlock     bool
	Blocked      []string // names of unfinished non-daemon threads at a deadlock
	BlockedAt    []string // where each of them waits (operation@function<caller)
	Panic        any
	PanicStack   string
	Steps        int
	MaxSteps     int
	Horizon      bool
	Diverged     string // replay divergence (infrastructure error)
	chans        []*chanState // looked up by address; a slice, because the runtime's map operations are visible to the race detector
	Log          []string
	Active       bool
	frozen       bool
	DaemonPanics []string
	MaxThreads   int
	LogOn        bool
	daemonOnly   int
	// virtual time
	clock  rtime.Time
	timers []*vtimer
	// signals
	sigChans []any
}

var S = &Sched{}

var epoch = rtime.Unix(1_000_000_000, 0)

// execEpoch counts executions; shim state that lives in package-level variables of the code under test (sync.Pool
// contents) is scoped to one execution through it, so that no execution inherits objects from an earlier one.
var execEpoch int64

//go:norace
func (s *Sched) reset(prefix []int) {
	execEpoch++
	logOn := s.LogOn
	max := s.MaxSteps
	*s = Sched{prefix: prefix, endCh: make(chan struct{}, 4), MaxSteps: max, Active: true,
		clock: epoch, LogOn: logOn}
	if s.MaxSteps == 0 {
		s.MaxSteps = 20000
	}
}

type divergence string

// Freeze ends the explored part of an execution: every later choice takes the default answer and is not a branching
// point. Harnesses use it for a deterministic epilogue (e.g. restarting a component on the storage the explored part left
// behind) whose interleavings are not the subject of the check.
//go:norace
func Freeze() { S.frozen = true }

//go:norace
func (s *Sched) choose(n, free int) int {
	if s.frozen {
		return 0
	}
	c := 0
	i := len(s.Points)
	if i < len(s.prefix) {
		c = s.prefix[i]
		if c >= n {
			s.Diverged = fmt.Sprintf("replay divergence at point %d: choice %d of %d", i, c, n)
			panic(divergence(s.Diverged))
		}
	}
	s.Points = append(s.Points, ChoicePt{N: n, Free: free, Chosen: c})
	return c
}

// Choose is an environment choice point: alternative 0 is the default answer, every other one costs a deviation.
//go:norace
func Choose(n int) int {
	if !S.Active {
		return 0
	}
	if S.killed {
		runtime.Goexit()
	}
	if n <= 1 {
		return 0
	}
	return S.choose(n, 1)
}

// ChooseFree is an environment choice point whose alternatives are all free (part of the enumerated alphabet).
//go:norace
func ChooseFree(n int) int {
	if !S.Active {
		return 0
	}
	if S.killed {
		runtime.Goexit()
	}
	if n <= 1 {
		return 0
	}
	return S.choose(n, n)
}

//go:norace
func (s *Sched) readyList(cur *Thread) ([]*Thread, bool) {
	var l []*Thread
	curReady := false
	// a running environment (daemon) thread never continues by default: control returns to the program first, otherwise
	// a clock with a periodic timer would spin forever on the default schedule
	if cur != nil && !cur.daemon && !cur.done && (cur.ready == nil || cur.ready()) {
		l = append(l, cur)
		curReady = true
	}
	for pass := 0; pass < 2; pass++ { // daemons (environment threads) are offered last
		for _, t := range s.threads {
			if (t == cur && curReady) || t.done || t.daemon != (pass == 1) {
				continue
			}
			if t.ready == nil || t.ready() {
				l = append(l, t)
			}
		}
	}
	return l, curReady
}

// yield: thread t has published t.ready for its next op; pick who runs next.
//go:norace
func (s *Sched) yield(t *Thread) {
	if s.killed {
		runtime.Goexit()
	}
	s.Steps++
	if s.Steps > s.MaxSteps {
		s.Horizon = true
		s.finish(t)
		return
	}
	s.pollForeign()
	l, curReady := s.readyList(t)
	// environment threads (clock with a periodic timer) can stay enabled forever: if ONLY daemons have been runnable for a
	// long stretch while some non-daemon thread is unfinished, nothing can release it any more => deadlock, not horizon
	onlyDaemons := len(l) > 0
	for _, x := range l {
		if !x.daemon {
			onlyDaemons = false
		}
	}
	if onlyDaemons {
		s.daemonOnly++
	} else {
		s.daemonOnly = 0
	}
	if s.daemonOnly > 3000 {
		l = nil
	}
	if len(l) == 0 {
		for _, x := range s.threads {
			if !x.done && !x.daemon {
				s.Deadlock = true
				s.Blocked = append(s.Blocked, x.name)
				s.BlockedAt = append(s.BlockedAt, x.where())
			}
		}
		s.finish(t)
		return
	}
	next := l[0]
	if len(l) > 1 {
		// free alternatives: only choice 0 when the running thread could continue (anything else is a preemption);
		// otherwise all ready non-daemon threads; environment (daemon) threads are free only when nothing else is ready
		free := 1
		if !curReady {
			free = 0
			for _, x := range l {
				if !x.daemon {
					free++
				}
			}
			if free == 0 {
				free = len(l)
			}
		}
		next = l[s.choose(len(l), free)]
	}
	if next == t {
		t.ready = nil
		return
	}
	s.cur = next
	next.wakeUp()
	if t.done {
		return
	}
	t.waitWake()
	if s.killed {
		runtime.Goexit()
	}
	t.ready = nil
}

// finish ends the execution from thread t's context.
//go:norace
func (s *Sched) finish(t *Thread) {
	s.killed = true
	s.endCh <- struct{}{}
	if !t.done {
		runtime.Goexit()
	}
}

//go:norace
func (s *Sched) spawn(name string, daemon bool, f func()) *Thread {
	t := &Thread{id: len(s.threads), name: name, wake: make(chan struct{}, 1), daemon: daemon}
	if t.name == "" {
		t.name = fmt.Sprintf("t%d", t.id)
	}
	s.threads = append(s.threads, t)
	live := 0
	for _, x := range s.threads {
		if !x.done {
			live++
		}
	}
	if live > s.MaxThreads {
		s.MaxThreads = live
	}
	s.wg.Add(1)
	go func() {
		defer s.wg.Done()
		t.waitWake()
		if s.killed {
			return
		}
		defer func() {
			if r := recover(); r != nil {
				if _, ok := r.(divergence); ok {
					t.done = true
					s.killed = true
					s.endCh <- struct{}{}
					return
				}
				if t.daemon {
					s.DaemonPanics = append(s.DaemonPanics, fmt.Sprint(r))
					t.done = true
					s.yield(t)
					return
				}
				s.Panic = r
				s.PanicStack = string(debug.Stack())
				t.done = true
				s.killed = true
				s.endCh <- struct{}{}
			}
		}()
		f()
		t.done = true
		s.yield(t)
	}()
	return t
}

// Go spawns a scheduled thread (the rewriter maps `go f()` to it).
//go:norace
func Go(f func()) {
	if !S.Active {
		go f()
		return
	}
	if S.killed {
		runtime.Goexit()
	}
	S.spawn("", false, f)
}

// GoNamed spawns a named harness thread.
//go:norace
func GoNamed(name string, f func()) {
	if S.killed {
		runtime.Goexit()
	}
	S.spawn(name, false, f)
}

// GoDaemon spawns an environment thread: offered last, free only when nothing else is ready, ignored by deadlock detection.
//go:norace
func GoDaemon(name string, f func()) {
	if S.killed {
		runtime.Goexit()
	}
	S.spawn(name, true, f)
}

// Point is an explicit scheduling point.
//go:norace
func Point() {
	if !S.Active {
		return
	}
	if S.killed {
		runtime.Goexit()
	}
	if S.atomic > 0 {
		return // inside an atomic environment action (a timer firing): no scheduling point
	}
	S.yield(S.cur)
}

// block: current thread waits until pred holds (pred evaluated at scheduling points).
//go:norace
func block(pred func() bool) { blockOp("", pred) }

//go:norace
func blockOp(op string, pred func() bool) {
	t := S.cur
	t.op = op
	t.npcs = 0
	if !pred() {
		t.npcs = runtime.Callers(3, t.pcs[:])
	}
	t.ready = pred
	S.yield(t)
}

// where describes where a blocked thread sits: shim operation plus the innermost non-shim functions.
//go:norace
func (t *Thread) where() string {
	fr := runtime.CallersFrames(t.pcs[:t.npcs])
	var fs []string
	for {
		f, more := fr.Next()
		n := f.Function
		if n != "" && strings.Contains(f.File, "zz_verif_") {
			// a frame of the harness itself: its closure names differ between the exploration and the replay entry points and say
			// nothing about the code under test
			if len(fs) == 0 {
				fs = append(fs, "harness")
			}
			break
		}
		if n != "" && !strings.Contains(n, "/zzverif/") && !strings.HasPrefix(n, "runtime.") {
			if i := strings.LastIndexByte(n, '/'); i >= 0 {
				n = n[i+1:]
			}
			if i := strings.IndexByte(n, '.'); i >= 0 {
				n = n[i+1:]
			}
			n = strings.ReplaceAll(n, "[...]", "")
			fs = append(fs, n)
			if len(fs) == 2 {
				break
			}
		}
		if !more {
			break
		}
	}
	return t.op + "@" + strings.Join(fs, "<")
}

// Block exposes predicate blocking to harnesses.
//go:norace
func Block(pred func() bool) {
	if !S.Active {
		if !pred() {
			panic(WouldBlock{"Block"})
		}
		return
	}
	if S.killed {
		runtime.Goexit()
	}
	block(pred)
}

//go:norace
func Logf(f string, a ...any) {
	if !S.LogOn || S.killed {
		return
	}
	n := "?"
	if S.cur != nil {
		n = S.cur.name
	}
	S.Log = append(S.Log, n+": "+fmt.Sprintf(f, a...))
}

// Killed reports whether the execution is being torn down (harness callbacks must not record then).
//go:norace
func Killed() bool { return S.killed }

// CurName returns the running thread's name.
//go:norace
func CurName() string {
	if S.cur == nil {
		return ""
	}
	return S.cur.name
}

// LiveThreads returns names of unfinished, non-daemon threads other than the caller.
//go:norace
func LiveThreads() []string {
	var l []string
	for _, t := range S.threads {
		if !t.done && !t.daemon && t != S.cur {
			l = append(l, t.name)
		}
	}
	return l
}

// Run executes body as thread 0 under the given choice prefix.
//go:norace
func Run(prefix []int, body func()) *Sched {
	S.reset(prefix)
	s := S
	t := s.spawn("main", false, body)
	s.cur = t
	t.wakeUp()
	select {
	case <-s.endCh:
	case <-rtime.After(60 * rtime.Second):
		buf := make([]byte, 1<<20)
		n := runtime.Stack(buf, true)
		fmt.Fprintf(os.Stderr, "vs: WATCHDOG: running thread reached no scheduling point for 60s (uninstrumented blocking call?)\n%s\n", buf[:n])
		os.Exit(3)
	}
	s.killed = true
	for _, x := range s.threads {
		x.wakeKill()
	}
	done := make(chan struct{})
	go func() { s.wg.Wait(); close(done) }()
	select {
	case <-done:
	case <-rtime.After(60 * rtime.Second):
		buf := make([]byte, 1<<20)
		n := runtime.Stack(buf, true)
		fmt.Fprintf(os.Stderr, "vs: WATCHDOG: threads could not be torn down\n%s\n", buf[:n])
		os.Exit(3)
	}
	s.Active = false
	s.collectRaces()
	return s
}

// Choices returns the choice sequence taken by the execution.
//go:norace
func (s *Sched) Choices() []int {
	c := make([]int, len(s.Points))
	for i, p := range s.Points {
		c[i] = p.Chosen
	}
	return c
}

// Deviations returns how many non-free alternatives the execution took.
//go:norace
func (s *Sched) Deviations() int {
	n := 0
	for _, p := range s.Points {
		if p.Chosen >= p.Free {
			n++
		}
	}
	return n
}

type Opts struct {
	Bound      int
	Shard      int
	Shards     int
	ShardDepth int // recursion depth at which subtrees are dealt to shards (0 => 2 for Bound<=1, else 3)
	Expired    func() bool
	MaxExecs   int64
}

type Stats struct {
	Execs      int64 // executions run by this shard (including shared upper levels)
	Counted    int64 // executions owned by this shard (each choice-tree leaf is owned by exactly one shard)
	Nodes      int64 // distinct choice-tree nodes discovered by owned executions
	Steps      int64 // visible operations executed in owned executions
	MaxThreads int
	MaxPoints  int
	Capped     bool
	Infra      []string
}

// Explore runs the deviation-bounded DFS. check is called for every execution; owned tells whether this shard
// owns (counts, judges) it; it returns whether the node's alternatives should be expanded.
//go:norace
func Explore(o Opts, body func(), check func(s *Sched, owned bool) bool) Stats {
	var st Stats
	if o.Shards <= 0 {
		o.Shards = 1
	}
	if o.ShardDepth == 0 {
		o.ShardDepth = 3 // deeper dealing balances the shards better; the upper levels are re-run by every shard
		if o.Bound <= 1 {
			o.ShardDepth = 2
		}
	}
	if RaceMode {
		// the race pass runs a deterministic prefix of the same depth-first order (see race.go)
		if n, _ := strconv.ParseInt(os.Getenv("VERIF_RACE_EXECS"), 10, 64); n > 0 && (o.MaxExecs == 0 || o.MaxExecs > n) {
			o.MaxExecs = n
		}
	}
	var counter int64
	stop := false
	var rec func(prefix []int, depth int)
	rec = func(prefix []int, depth int) {
		if stop {
			return
		}
		owned := true
		if o.Shards > 1 {
			if depth < o.ShardDepth {
				owned = o.Shard == 0
			} else if depth == o.ShardDepth {
				counter++
				if int(counter%int64(o.Shards)) != o.Shard {
					return
				}
			}
		}
		if (o.Expired != nil && o.Expired()) || (o.MaxExecs > 0 && st.Execs >= o.MaxExecs) {
			st.Capped = true
			stop = true
			return
		}
		s := Run(prefix, body)
		st.Execs++
		if s.Diverged != "" {
			st.Infra = append(st.Infra, fmt.Sprintf("NONDETERMINISM: %s prefix=%v", s.Diverged, prefix))
			stop = true
			return
		}
		if s.Horizon {
			st.Infra = append(st.Infra, fmt.Sprintf("HORIZON: execution exceeded %d steps, prefix=%v", s.MaxSteps, prefix))
			stop = true
			return
		}
		pts := append([]ChoicePt(nil), s.Points...)
		choices := s.Choices()
		if owned {
			st.Counted++
			st.Steps += int64(s.Steps)
			st.Nodes += int64(len(pts) - len(prefix))
			if depth == 0 {
				st.Nodes++
			}
			if s.MaxThreads > st.MaxThreads {
				st.MaxThreads = s.MaxThreads
			}
			if len(pts) > st.MaxPoints {
				st.MaxPoints = len(pts)
			}
		}
		if !check(s, owned) {
			return
		}
		cost := 0
		for i := 0; i < len(pts); i++ {
			p := pts[i]
			if i >= len(prefix) {
				for alt := 1; alt < p.N; alt++ {
					c := cost
					if alt >= p.Free {
						c++
					}
					if c <= o.Bound {
						np := append(append(make([]int, 0, i+1), choices[:i]...), alt)
						rec(np, depth+1)
						if stop {
							return
						}
					}
				}
			}
			if p.Chosen >= p.Free {
				cost++
			}
		}
	}
	rec(nil, 0)
	return st
}

// Verdict classifies the engine-level outcome of an execution ("" = ran to completion).
//go:norace
func (s *Sched) Verdict() string {
	switch {
	case s.Panic != nil:
		return fmt.Sprintf("panic: %v", s.Panic)
	case s.Deadlock:
		return "deadlock:" + s.DeadlockSig()
	}
	return ""
}

// DeadlockSig is a schedule-independent signature of a deadlock: the sorted places where the blocked threads wait.
//go:norace
func (s *Sched) DeadlockSig() string {
	l := append([]string(nil), s.BlockedAt...)
	sort.Strings(l)
	return strings.Join(l, " | ")
}

// AwaitQuiescence blocks the calling (environment) thread until or() holds or every OTHER non-daemon thread is finished or
// blocked. The caller is not enabled while anything else can run, so it adds no alternatives to the exploration.
//go:norace
func AwaitQuiescence(or func() bool) { awaitQuiescence("await-quiescence", or) }

// AwaitQuiescenceWeak is the same wait for a thread that is PART of the program's work (a slow component start, a held
// backend): other quiescence waiters count as blocked for it, while for an ordinary (strong) waiter - an oracle asking
// "is nothing left to do?" - a weak waiter counts as runnable. A weak waiter therefore goes first.
//go:norace
func AwaitQuiescenceWeak(or func() bool) { awaitQuiescence("await-quiescence-weak", or) }

//go:norace
func awaitQuiescence(opName string, or func() bool) {
	if !S.Active {
		return
	}
	if S.killed {
		runtime.Goexit()
	}
	me := S.cur
	evaluating := false
	blockOp(opName, func() bool {
		if or != nil && or() {
			return true
		}
		if evaluating {
			return false // another thread's AwaitQuiescence is asking about this one: it is waiting
		}
		evaluating = true
		defer func() { evaluating = false }()
		for _, t := range S.threads {
			if t == me || t.done || (t.daemon && opName != "await-quiescence-weak") {
				continue // (a weak waiter also waits for the environment threads to have had their turn)
			}
			if t.ready != nil && opName == "await-quiescence-weak" && (t.op == "await-quiescence" || t.op == "await-quiescence-weak") {
				continue // a weak waiter is not kept waiting by other quiescence waiters
			}
			if t.ready != nil && opName == "await-quiescence" && t.op == "await-quiescence-weak" {
				return false // a weak waiter can run as soon as this thread waits: not quiescent
			}
			if t.ready == nil || t.ready() {
				return false
			}
		}
		return true
	})
}

// Quiescent reports whether no non-daemon thread other than the caller is ready (environment threads use it to evaluate
// oracles that are only meaningful when the program has nothing left to do without the environment).
//go:norace
func Quiescent() bool {
	for _, t := range S.threads {
		if t == S.cur || t.done || t.daemon {
			continue
		}
		if t.ready == nil || t.ready() {
			return false
		}
	}
	return true
}
