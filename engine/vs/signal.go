package vs

import "os"

// os/signal shim: Notify records the channel; the harness injects signals itself, delivered the way os/signal does:
// a non-blocking send to every registered channel.
//go:norace
func Notify(c chan<- os.Signal, _ ...os.Signal) {
	for _, x := range S.sigChans {
		if x.(chan<- os.Signal) == c {
			return
		}
	}
	S.sigChans = append(S.sigChans, c)
}

//go:norace
func Stop(c chan<- os.Signal) {
	for i, x := range S.sigChans {
		if x.(chan<- os.Signal) == c {
			S.sigChans = append(S.sigChans[:i], S.sigChans[i+1:]...)
			return
		}
	}
}

// Deliver sends sig to every registered channel without blocking. Returns the number of registered channels.
//go:norace
func Deliver(sig os.Signal) int {
	n := 0
	for _, x := range append([]any(nil), S.sigChans...) {
		if Select(true, CaseSend(x.(chan<- os.Signal), sig)) >= 0 {
			n++ // enqueued (os/signal drops the signal when the channel is full)
		}
	}
	return n
}
