// Package rewrite is the syntactic, type-agnostic instrumenter: it turns a repository file into a copy whose
// concurrency operations go through the vs shim (engine E1) and whose loops carry tick guards (engine E2).
// Only go/ast, go/parser and go/format are used.
package rewrite

import (
	"bytes"
	"fmt"
	"go/ast"
	"go/format"
	"go/parser"
	"go/token"
	"reflect"
	"strconv"
	"strings"
)

type Flags struct {
	Sync    bool // import "sync" -> shim
	Time    bool // import "time" -> shim (virtual clock)
	Runtime bool // import "runtime" -> shim (NumCPU, MemStats, ...)
	Signal  bool // import "os/signal" -> shim
	Chan    bool // channel operations, select, go statements -> shim
	Stmt    bool // scheduling point before every statement
	Tick    bool // loop tick guard at the head of every for body
	Ctx     bool // context.WithTimeout / context.WithDeadline -> deadlines on the virtual clock
	// MapRange: `for k, v := range X` over a MAP named here (X given as source text: an identifier or a selector chain such as
	// g.pipelines) iterates over zzvs.MapKeys(X) instead - keys in a canonical order permuted by the harness - so that the
	// iteration order of these maps, random in every real process, becomes an owned and enumerable environment answer
	MapRange map[string]bool
}

func ParseFlags(s string) Flags {
	var f Flags
	for _, p := range strings.Split(s, ",") {
		switch strings.TrimSpace(p) {
		case "sync":
			f.Sync = true
		case "time":
			f.Time = true
		case "runtime":
			f.Runtime = true
		case "signal":
			f.Signal = true
		case "chan":
			f.Chan = true
		case "stmt":
			f.Stmt = true
		case "tick":
			f.Tick = true
		case "ctx":
			f.Ctx = true
		case "conc":
			f.Sync, f.Chan = true, true
		case "":
		default:
			if strings.HasPrefix(strings.TrimSpace(p), "maprange=") {
				if f.MapRange == nil {
					f.MapRange = map[string]bool{}
				}
				for _, n := range strings.Split(strings.TrimPrefix(strings.TrimSpace(p), "maprange="), "|") {
					f.MapRange[n] = true
				}
				continue
			}
			panic("rewrite: unknown flag " + p)
		}
	}
	return f
}

const shimName = "zzvs"

type rw struct {
	f   Flags
	tmp int
}

func id(n string) *ast.Ident { return ast.NewIdent(n) }
func shim(s string) ast.Expr { return &ast.SelectorExpr{X: id(shimName), Sel: id(s)} }
func call(f ast.Expr, args ...ast.Expr) *ast.CallExpr {
	return &ast.CallExpr{Fun: f, Args: args}
}
func (r *rw) fresh(p string) string { r.tmp++; return fmt.Sprintf("zzv%s%d", p, r.tmp) }

var (
	exprType     = reflect.TypeOf((*ast.Expr)(nil)).Elem()
	stmtType     = reflect.TypeOf((*ast.Stmt)(nil)).Elem()
	stmtListType = reflect.TypeOf([]ast.Stmt(nil))
	exprListType = reflect.TypeOf([]ast.Expr(nil))
	objType      = reflect.TypeOf((*ast.Object)(nil))
	scopeType    = reflect.TypeOf((*ast.Scope)(nil))
)

// walk rewrites all expression and statement slots below node n (n is a pointer to an ast struct).
func (r *rw) walk(n any) {
	if n == nil {
		return
	}
	v := reflect.ValueOf(n)
	if v.Kind() != reflect.Ptr || v.IsNil() {
		return
	}
	v = v.Elem()
	if v.Kind() != reflect.Struct {
		return
	}
	isLoopBody := false
	switch n.(type) {
	case *ast.ForStmt, *ast.RangeStmt:
		isLoopBody = true
	}
	for i := 0; i < v.NumField(); i++ {
		f := v.Field(i)
		ft := f.Type()
		switch {
		case ft == objType || ft == scopeType:
			continue
		case ft == exprType:
			if !f.IsNil() {
				f.Set(reflect.ValueOf(r.expr(f.Interface().(ast.Expr))))
			}
		case ft == exprListType:
			l := f.Interface().([]ast.Expr)
			for j := range l {
				l[j] = r.expr(l[j])
			}
		case ft == stmtType:
			if !f.IsNil() {
				out := r.stmt(f.Interface().(ast.Stmt))
				if len(out) == 1 {
					f.Set(reflect.ValueOf(out[0]))
				} else {
					f.Set(reflect.ValueOf(ast.Stmt(&ast.BlockStmt{List: out})))
				}
			}
		case ft == stmtListType:
			f.Set(reflect.ValueOf(r.list(f.Interface().([]ast.Stmt))))
		case ft.Kind() == reflect.Ptr && ft.Elem().Kind() == reflect.Struct && strings.HasPrefix(ft.String(), "*ast."):
			if !f.IsNil() {
				r.walk(f.Interface())
				if isLoopBody && r.f.Tick {
					if b, ok := f.Interface().(*ast.BlockStmt); ok && v.Type().Field(i).Name == "Body" {
						b.List = append([]ast.Stmt{&ast.ExprStmt{X: call(shim("Tick"))}}, b.List...)
					}
				}
			}
		case ft.Kind() == reflect.Slice && ft.Elem().Kind() == reflect.Ptr && strings.HasPrefix(ft.Elem().String(), "*ast."):
			for j := 0; j < f.Len(); j++ {
				r.walk(f.Index(j).Interface())
			}
		case ft.Kind() == reflect.Slice && ft.Elem().Kind() == reflect.Interface && strings.HasPrefix(ft.Elem().String(), "ast."):
			// []ast.Spec, []ast.Decl
			for j := 0; j < f.Len(); j++ {
				if !f.Index(j).IsNil() {
					r.walk(f.Index(j).Interface())
				}
			}
		case ft.Kind() == reflect.Interface && strings.HasPrefix(ft.String(), "ast."):
			if !f.IsNil() {
				r.walk(f.Interface())
			}
		}
	}
}

func (r *rw) expr(e ast.Expr) ast.Expr {
	if e == nil {
		return nil
	}
	r.walk(e)
	if r.f.Ctx {
		if c, ok := e.(*ast.CallExpr); ok {
			if se, ok := c.Fun.(*ast.SelectorExpr); ok {
				if x, ok := se.X.(*ast.Ident); ok && x.Name == "context" && (se.Sel.Name == "WithTimeout" || se.Sel.Name == "WithDeadline") {
					c.Fun = shim("Ctx" + se.Sel.Name)
				}
			}
		}
	}
	if !r.f.Chan {
		return e
	}
	switch x := e.(type) {
	case *ast.UnaryExpr:
		if x.Op == token.ARROW {
			return call(shim("Recv"), x.X)
		}
	case *ast.CallExpr:
		if f, ok := x.Fun.(*ast.Ident); ok && f.Name == "close" && len(x.Args) == 1 {
			return call(shim("Close"), x.Args[0])
		}
	}
	return e
}

func (r *rw) list(l []ast.Stmt) []ast.Stmt {
	var out []ast.Stmt
	for _, s := range l {
		if r.f.Stmt {
			switch s.(type) {
			case *ast.DeclStmt, *ast.CaseClause, *ast.CommClause:
			default:
				out = append(out, &ast.ExprStmt{X: call(shim("Point"))})
			}
		}
		out = append(out, r.stmt(s)...)
	}
	return out
}

func (r *rw) stmt(s ast.Stmt) []ast.Stmt {
	if r.f.Chan {
		switch x := s.(type) {
		case *ast.SendStmt:
			return []ast.Stmt{&ast.ExprStmt{X: call(shim("Send"), r.expr(x.Chan), r.expr(x.Value))}}
		case *ast.GoStmt:
			return r.goStmt(x)
		case *ast.AssignStmt:
			if len(x.Lhs) == 2 && len(x.Rhs) == 1 {
				if u, ok := x.Rhs[0].(*ast.UnaryExpr); ok && u.Op == token.ARROW {
					for i := range x.Lhs {
						x.Lhs[i] = r.expr(x.Lhs[i])
					}
					x.Rhs[0] = call(shim("Recv2"), r.expr(u.X))
					return []ast.Stmt{x}
				}
			}
		case *ast.LabeledStmt:
			out := r.stmt(x.Stmt)
			x.Stmt = out[len(out)-1]
			return append(out[:len(out)-1:len(out)-1], x)
		case *ast.SelectStmt:
			return r.selectStmt(x)
		}
	}
	if rs, ok := s.(*ast.RangeStmt); ok && len(r.f.MapRange) > 0 && r.f.MapRange[exprText(rs.X)] && rs.Tok == token.DEFINE {
		r.mapRange(rs)
	}
	r.walk(s)
	return []ast.Stmt{s}
}

// exprText renders an identifier or selector chain ("g.pipelines"); anything else is "".
func exprText(e ast.Expr) string {
	switch x := e.(type) {
	case *ast.Ident:
		return x.Name
	case *ast.SelectorExpr:
		if p := exprText(x.X); p != "" {
			return p + "." + x.Sel.Name
		}
	}
	return ""
}

// mapRange turns `for k, v := range M { body }` into
// `for _, k := range zzvs.MapKeys(M) { v, zzok := M[k]; if !zzok { continue }; _ = v; body }`
// (an entry deleted during the iteration is not visited, like in the language; entries added during it are not either).
func (r *rw) mapRange(rs *ast.RangeStmt) {
	m := rs.X
	key, _ := rs.Key.(*ast.Ident)
	if key == nil || key.Name == "_" {
		key = id(r.fresh("k"))
	}
	var head []ast.Stmt
	if v, ok := rs.Value.(*ast.Ident); ok && v.Name != "_" {
		okv := id(r.fresh("ok"))
		head = append(head,
			&ast.AssignStmt{Lhs: []ast.Expr{id(v.Name), okv}, Tok: token.DEFINE, Rhs: []ast.Expr{&ast.IndexExpr{X: m, Index: id(key.Name)}}},
			&ast.IfStmt{Cond: &ast.UnaryExpr{Op: token.NOT, X: okv}, Body: &ast.BlockStmt{List: []ast.Stmt{&ast.BranchStmt{Tok: token.CONTINUE}}}},
			&ast.AssignStmt{Lhs: []ast.Expr{id("_")}, Tok: token.ASSIGN, Rhs: []ast.Expr{id(v.Name)}})
	}
	rs.X = call(shim("MapKeys"), m)
	rs.Key = id("_")
	rs.Value = id(key.Name)
	head = append(head, &ast.AssignStmt{Lhs: []ast.Expr{id("_")}, Tok: token.ASSIGN, Rhs: []ast.Expr{id(key.Name)}})
	rs.Body.List = append(head, rs.Body.List...)
}

func (r *rw) goStmt(x *ast.GoStmt) []ast.Stmt {
	var pre []ast.Stmt
	c := x.Call
	for i, a := range c.Args {
		n := r.fresh("a")
		pre = append(pre, &ast.AssignStmt{Lhs: []ast.Expr{id(n)}, Tok: token.DEFINE, Rhs: []ast.Expr{r.expr(a)}})
		c.Args[i] = id(n)
	}
	if fl, ok := c.Fun.(*ast.FuncLit); ok {
		r.walk(fl)
		if len(c.Args) == 0 {
			return append(pre, &ast.ExprStmt{X: call(shim("Go"), fl)})
		}
	} else {
		// evaluate the function value (method value / closure) before spawning, like the go statement does
		n := r.fresh("f")
		pre = append(pre, &ast.AssignStmt{Lhs: []ast.Expr{id(n)}, Tok: token.DEFINE, Rhs: []ast.Expr{r.expr(c.Fun)}})
		c.Fun = id(n)
	}
	wrap := &ast.FuncLit{Type: &ast.FuncType{Params: &ast.FieldList{}}, Body: &ast.BlockStmt{List: []ast.Stmt{&ast.ExprStmt{X: c}}}}
	return append(pre, &ast.ExprStmt{X: call(shim("Go"), wrap)})
}

func (r *rw) selectStmt(x *ast.SelectStmt) []ast.Stmt {
	var pre []ast.Stmt
	var cases []ast.Expr
	sw := &ast.SwitchStmt{Body: &ast.BlockStmt{}}
	hasDefault := "false"
	idx := 0
	for _, c := range x.Body.List {
		cc := c.(*ast.CommClause)
		body := r.list(cc.Body)
		if cc.Comm == nil {
			hasDefault = "true"
			sw.Body.List = append(sw.Body.List, &ast.CaseClause{List: nil, Body: body})
			continue
		}
		cn := r.fresh("c")
		var head []ast.Stmt
		def := func(rhs ast.Expr) {
			pre = append(pre, &ast.AssignStmt{Lhs: []ast.Expr{id(cn)}, Tok: token.DEFINE, Rhs: []ast.Expr{rhs}})
		}
		use := &ast.AssignStmt{Lhs: []ast.Expr{id("_")}, Tok: token.ASSIGN, Rhs: []ast.Expr{id(cn)}}
		switch cm := cc.Comm.(type) {
		case *ast.SendStmt:
			def(call(shim("CaseSend"), r.expr(cm.Chan), r.expr(cm.Value)))
			head = append(head, use)
		case *ast.ExprStmt: // case <-ch:
			u := unparen(cm.X).(*ast.UnaryExpr)
			def(call(shim("CaseRecv"), r.expr(u.X)))
			head = append(head, use)
		case *ast.AssignStmt: // case v := <-ch / v, ok := <-ch / v = <-ch
			u := unparen(cm.Rhs[0]).(*ast.UnaryExpr)
			def(call(shim("CaseRecv"), r.expr(u.X)))
			m := "Val"
			if len(cm.Lhs) == 2 {
				m = "Val2"
			}
			head = append(head, &ast.AssignStmt{Lhs: cm.Lhs, Tok: cm.Tok, Rhs: []ast.Expr{call(&ast.SelectorExpr{X: id(cn), Sel: id(m)})}})
			if cm.Tok == token.DEFINE { // a declared-but-unused case variable must not break the build
				for _, l := range cm.Lhs {
					if li, ok := l.(*ast.Ident); ok && li.Name != "_" {
						head = append(head, &ast.AssignStmt{Lhs: []ast.Expr{id("_")}, Tok: token.ASSIGN, Rhs: []ast.Expr{id(li.Name)}})
					}
				}
			}
		default:
			panic(fmt.Sprintf("rewrite: unsupported select comm %T", cc.Comm))
		}
		cases = append(cases, id(cn))
		sw.Body.List = append(sw.Body.List, &ast.CaseClause{List: []ast.Expr{&ast.BasicLit{Kind: token.INT, Value: strconv.Itoa(idx)}}, Body: append(head, body...)})
		idx++
	}
	if hasDefault == "false" {
		// a select without default is a terminating statement; keep the switch one as well
		sw.Body.List = append(sw.Body.List, &ast.CaseClause{List: nil, Body: []ast.Stmt{&ast.ExprStmt{X: call(id("panic"), &ast.BasicLit{Kind: token.STRING, Value: `"vs: unreachable select arm"`})}}})
	} else {
		// default arm index is -1: fine, `default:` catches it
	}
	sw.Tag = call(shim("Select"), append([]ast.Expr{id(hasDefault)}, cases...)...)
	return append(pre, sw)
}

func unparen(e ast.Expr) ast.Expr {
	for {
		p, ok := e.(*ast.ParenExpr)
		if !ok {
			return e
		}
		e = p.X
	}
}

// File rewrites Go source src (named name for error messages) and returns the instrumented copy.
func File(name string, src []byte, f Flags, shimPath string) ([]byte, error) {
	fset := token.NewFileSet()
	file, err := parser.ParseFile(fset, name, src, parser.ParseComments|parser.SkipObjectResolution)
	if err != nil {
		return nil, err
	}
	// keep only build constraints / package doc above the package clause; other comments would be misplaced
	var keep []*ast.CommentGroup
	for _, cg := range file.Comments {
		if cg.End() < file.Package {
			for _, c := range cg.List {
				if strings.HasPrefix(c.Text, "//go:build") {
					keep = append(keep, cg)
					break
				}
			}
		}
	}
	file.Comments = keep
	file.Doc = nil
	r := &rw{f: f}
	for _, d := range file.Decls {
		switch x := d.(type) {
		case *ast.FuncDecl:
			x.Doc = nil
			if x.Body != nil {
				r.walk(x.Body)
			}
		case *ast.GenDecl:
			x.Doc = nil
			if x.Tok == token.IMPORT {
				for _, sp := range x.Specs {
					is := sp.(*ast.ImportSpec)
					is.Doc, is.Comment = nil, nil
					p, _ := strconv.Unquote(is.Path.Value)
					repl := (p == "sync" && f.Sync) || (p == "time" && f.Time) || (p == "runtime" && f.Runtime) || (p == "os/signal" && f.Signal)
					if repl {
						if is.Name == nil {
							n := p
							if i := strings.LastIndexByte(p, '/'); i >= 0 {
								n = p[i+1:]
							}
							is.Name = id(n)
						}
						is.Path.Value = strconv.Quote(shimPath)
					}
				}
			} else if x.Tok == token.VAR {
				for _, sp := range x.Specs {
					vsp := sp.(*ast.ValueSpec)
					vsp.Doc, vsp.Comment = nil, nil
					for i := range vsp.Values {
						vsp.Values[i] = r.expr(vsp.Values[i])
					}
				}
			} else {
				for _, sp := range x.Specs {
					switch y := sp.(type) {
					case *ast.TypeSpec:
						y.Doc, y.Comment = nil, nil
						stripFieldComments(y.Type)
					case *ast.ValueSpec:
						y.Doc, y.Comment = nil, nil
					}
				}
			}
		}
	}
	ast.Inspect(file, func(n ast.Node) bool {
		if fl, ok := n.(*ast.Field); ok {
			fl.Doc, fl.Comment = nil, nil
		}
		return true
	})
	imp := &ast.GenDecl{Tok: token.IMPORT, Specs: []ast.Spec{&ast.ImportSpec{Name: id(shimName), Path: &ast.BasicLit{Kind: token.STRING, Value: strconv.Quote(shimPath)}}}}
	// the extra import must come after existing imports' position-wise; placing it first is fine for the printer
	file.Decls = append([]ast.Decl{imp}, file.Decls...)
	var buf bytes.Buffer
	if err := format.Node(&buf, fset, file); err != nil {
		return nil, err
	}
	buf.WriteString("\nvar _ = " + shimName + ".Point\n")
	return buf.Bytes(), nil
}

func stripFieldComments(e ast.Expr) {
	ast.Inspect(e, func(n ast.Node) bool {
		if fl, ok := n.(*ast.Field); ok {
			fl.Doc, fl.Comment = nil, nil
		}
		return true
	})
}
