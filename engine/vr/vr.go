// Package vr is the harness-side reporting library of the /verif framework.
// It is overlaid into the module under test as <host>/zzverif/vr (std-only).
//
// A harness test calls vr.Start, explores, and calls Finish, which writes the
// shard report the driver (cmd/verif) merges into evidence/<id>.json.
package vr

import (
	"encoding/binary"
	"encoding/json"
	"fmt"
	"hash/fnv"
	"os"
	"sort"
	"strconv"
	"strings"
	"time"
)

type Violation struct {
	Sig    string `json:"sig"`    // root-cause signature (matched against known_findings.json)
	What   string `json:"what"`   // human readable explanation of the first (minimal) instance
	Replay any    `json:"replay"` // self-contained case specification understood by the harness' replay entry
	Count  int64  `json:"count"`
}

type Report struct {
	Property   string           `json:"property"`
	Unit       string           `json:"unit"`
	Tier       string           `json:"tier"`
	Shard      int              `json:"shard"`
	Shards     int              `json:"shards"`
	Seed       int64            `json:"seed"`
	Evals      int64            `json:"evaluations"`
	States     int64            `json:"states"`
	Trans      int64            `json:"transitions"`
	Traces     int64            `json:"traces_validated_against_impl"`
	Nontrivial int64            `json:"distinct_nontrivial"`
	Outcomes   map[string]int64 `json:"outcomes"`
	Samples    []any            `json:"samples"`
	Violations []*Violation     `json:"violations"`
	Exhaustive bool             `json:"exhaustive"`
	Capped     []string         `json:"capped,omitempty"` // which caps / deadlines were hit
	Extra      map[string]any   `json:"extra,omitempty"`
	Infra      []string         `json:"infra,omitempty"` // infrastructure errors (nondeterminism, horizon): exit 2, never a verdict
	Replayed   bool             `json:"replayed,omitempty"`
	WallS      float64          `json:"wall_s"`
}

type Ctx struct {
	R         *Report
	Tier      string
	Shard     int
	Shards    int
	Seed      int64
	ReplayRaw []byte // non-nil in replay mode
	deadline  time.Time
	start     time.Time
	path      string
	states    map[uint64]struct{}
	nontriv   map[uint64]struct{}
	vio       map[string]*Violation
	maxSample int
	params    map[string]string
}

func envInt(k string, d int) int {
	if v := os.Getenv(k); v != "" {
		if n, err := strconv.Atoi(v); err == nil {
			return n
		}
	}
	return d
}

// Start reads the driver's environment. Without VERIF_REPORT the harness is not being driven: returns nil.
func Start(property, unit string) *Ctx {
	p := os.Getenv("VERIF_REPORT")
	if p == "" {
		return nil
	}
	c := &Ctx{Tier: os.Getenv("VERIF_TIER"), Shard: envInt("VERIF_SHARD", 0), Shards: envInt("VERIF_SHARDS", 1),
		Seed: int64(envInt("VERIF_SEED", 0)), path: p, start: time.Now(), states: map[uint64]struct{}{},
		nontriv: map[uint64]struct{}{}, vio: map[string]*Violation{}, maxSample: 3, params: map[string]string{}}
	if c.Tier == "" {
		c.Tier = "quick"
	}
	if d := envInt("VERIF_BUDGET_S", 0); d > 0 {
		c.deadline = c.start.Add(time.Duration(d) * time.Second)
	}
	for _, kv := range strings.Split(os.Getenv("VERIF_PARAMS"), ",") {
		if i := strings.IndexByte(kv, '='); i > 0 {
			c.params[kv[:i]] = kv[i+1:]
		}
	}
	if rp := os.Getenv("VERIF_REPLAY"); rp != "" {
		b, err := os.ReadFile(rp)
		if err != nil {
			panic(err)
		}
		c.ReplayRaw = b
	}
	c.R = &Report{Property: property, Unit: unit, Tier: c.Tier, Shard: c.Shard, Shards: c.Shards, Seed: c.Seed,
		Outcomes: map[string]int64{}, Exhaustive: true, Extra: map[string]any{}, Replayed: c.ReplayRaw != nil}
	return c
}

// Param returns a tier parameter passed by the driver (harness.json "params").
func (c *Ctx) Param(k string, d int) int {
	if v, ok := c.params[k]; ok {
		if n, err := strconv.Atoi(v); err == nil {
			return n
		}
	}
	return d
}

func (c *Ctx) ParamS(k, d string) string {
	if v, ok := c.params[k]; ok {
		return v
	}
	return d
}

func (c *Ctx) Quick() bool { return c.Tier != "thorough" }

// Mine partitions an index space over the shards.
func (c *Ctx) Mine(i int64) bool { return c.Shards <= 1 || int(i%int64(c.Shards)) == c.Shard }

// Expired reports whether the internal budget is used up; the harness then stops cleanly (exhaustive:false).
func (c *Ctx) Expired() bool {
	if c.deadline.IsZero() || time.Now().Before(c.deadline) {
		return false
	}
	c.Cap("time budget")
	return true
}

func (c *Ctx) Cap(what string) {
	c.R.Exhaustive = false
	for _, x := range c.R.Capped {
		if x == what {
			return
		}
	}
	c.R.Capped = append(c.R.Capped, what)
}

func Hash(parts ...any) uint64 {
	h := fnv.New64a()
	for _, p := range parts {
		fmt.Fprintf(h, "%v\x00", p)
	}
	return h.Sum64()
}

func HashS(s string) uint64 {
	h := fnv.New64a()
	h.Write([]byte(s))
	return h.Sum64()
}

// State records a distinct state (merged exactly across shards by the driver). Returns true if new in this shard.
func (c *Ctx) State(h uint64) bool {
	if _, ok := c.states[h]; ok {
		return false
	}
	c.states[h] = struct{}{}
	return true
}

// Nontrivial records a distinct non-trivial case.
func (c *Ctx) Nontrivial(h uint64) { c.nontriv[h] = struct{}{} }

func (c *Ctx) Outcome(k string) { c.R.Outcomes[k]++ }

func (c *Ctx) Sample(x any) {
	if len(c.R.Samples) < c.maxSample {
		c.R.Samples = append(c.R.Samples, x)
	}
}

func (c *Ctx) Infra(f string, a ...any) {
	if len(c.R.Infra) < 20 {
		c.R.Infra = append(c.R.Infra, fmt.Sprintf(f, a...))
	}
}

// Violate records a violation; instances are merged per signature, the first one (enumeration is
// simplest-first) is kept as the replayable witness.
func (c *Ctx) Violate(sig, what string, replay any) {
	if v := c.vio[sig]; v != nil {
		v.Count++
		return
	}
	v := &Violation{Sig: sig, What: what, Replay: replay, Count: 1}
	c.vio[sig] = v
	c.R.Violations = append(c.R.Violations, v)
}

func (c *Ctx) NumViolationSigs() int { return len(c.vio) }

func dumpSet(path string, m map[uint64]struct{}) {
	if len(m) == 0 {
		return
	}
	ks := make([]uint64, 0, len(m))
	for k := range m {
		ks = append(ks, k)
	}
	sort.Slice(ks, func(i, j int) bool { return ks[i] < ks[j] })
	b := make([]byte, 8*len(ks))
	for i, k := range ks {
		binary.LittleEndian.PutUint64(b[8*i:], k)
	}
	_ = os.WriteFile(path, b, 0o644)
}

func (c *Ctx) Finish() {
	// Finish is deferred by the harness: a panic that unwinds through it is an infrastructure error, recorded and re-raised
	if r := recover(); r != nil {
		c.Infra("harness panicked: %v", r)
		defer panic(r)
	}
	if n := int64(len(c.states)); n > 0 {
		c.R.States = n
	}
	if n := int64(len(c.nontriv)); n > 0 {
		c.R.Nontrivial = n
	}
	c.R.WallS = time.Since(c.start).Seconds()
	if lp := os.Getenv("VERIF_RACE_LOG"); lp != "" && os.Getenv("VERIF_RACE") == "1" {
		// race pass: how many reports the detector wrote in this process (reports between harness threads' own bookkeeping
		// are among them; those about the code under test became violations)
		b, _ := os.ReadFile(fmt.Sprintf("%s.%d", lp, os.Getpid()))
		if c.R.Extra == nil {
			c.R.Extra = map[string]any{}
		}
		c.R.Extra["race_detector_reports"] = strings.Count(string(b), "WARNING: DATA RACE")
	}
	dumpSet(c.path+".states", c.states)
	dumpSet(c.path+".nontriv", c.nontriv)
	b, err := json.Marshal(c.R)
	if err != nil {
		// a sample or replay that cannot be marshalled is an infrastructure error
		c.R.Samples = nil
		for _, v := range c.R.Violations {
			v.Replay = fmt.Sprintf("%+v", v.Replay)
		}
		c.R.Infra = append(c.R.Infra, "report marshal: "+err.Error())
		b, _ = json.Marshal(c.R)
	}
	if err := os.WriteFile(c.path+".tmp", b, 0o644); err != nil {
		panic(err)
	}
	if err := os.Rename(c.path+".tmp", c.path); err != nil {
		panic(err)
	}
}
