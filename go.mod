module verif

go 1.23
