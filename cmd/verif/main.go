// Command verif is the driver of the /verif model-checking framework (see DESIGN.md §2.3).
//
//	verif check Cxx [--tier quick|thorough]   build harness from /repo's current tree, explore, write evidence
//	verif replay Cxx <file>                   re-execute one recorded violation
//	verif setup                               pre-build every harness (warms the Go build cache)
//	verif mutants [Cxx ...]                   run quick checks against mutants/ and seeded/ changes
package main

import (
	"bytes"
	"crypto/sha256"
	"encoding/binary"
	"encoding/json"
	"fmt"
	"go/parser"
	"go/token"
	"os"
	"os/exec"
	"path/filepath"
	"regexp"
	"sort"
	"strconv"
	"strings"
	"sync"
	"time"

	"verif/engine/rewrite"
)

var (
	verifDir = envOr("VERIF_DIR", "/verif")
	repoDir  = envOr("VERIF_REPO", "/repo")
)

func envOr(k, d string) string {
	if v := os.Getenv(k); v != "" {
		return v
	}
	return d
}

type RewriteSpec struct {
	File  string `json:"file"`  // repo-relative
	Flags string `json:"flags"` // see rewrite.ParseFlags
}

type Unit struct {
	Name       string            `json:"name"`
	Module     string            `json:"module"`    // repo-relative dir containing go.mod (derived from pkg when empty)
	Pkg        string            `json:"pkg"`       // repo-relative package dir
	ShimHost   string            `json:"shim_host"` // repo-relative dir hosting the virtual zzverif packages (default module/pkg)
	Rewrite    []RewriteSpec     `json:"rewrite"`
	ThoroughRW []RewriteSpec     `json:"rewrite_thorough"` // replaces Rewrite in the thorough tier when present
	Harness    []string          `json:"harness"`          // files under harness/Cxx/ (or engine/...) copied into the package as zz_verif_*_test.go
	Extra      map[string]string `json:"extra"`            // extra overlay files: repo-relative destination -> verif-relative source
	KeepTests  []string          `json:"keep_tests"`       // upstream _test.go files that must stay (helpers), base names
	Shards     map[string]int    `json:"shards"`
	BudgetS    map[string]int    `json:"budget_s"`
	Params     map[string]string `json:"params"`
	GoMaxProcs int               `json:"gomaxprocs"`
	Tiers      []string          `json:"tiers"` // tiers in which the unit runs (default both)
	MemGB      int               `json:"mem_gb"`
	Test       string            `json:"test"` // entry test function (default TestVerif)
	ModReplace map[string]string `json:"mod_replace"` // extra modules for the harness: module path -> repo-relative dir (added to the alternate modfile only)
	// Race: the supporting race pass - the same harness under the same scheduler in a -race binary whose detector does not see
	// the scheduler's hand-offs (engine/vs/race.go); RaceExecs caps the executions per exploration call
	Race      bool `json:"race"`
	RaceExecs int  `json:"race_execs"`
}

type Harness struct {
	Property    string            `json:"property"`
	Level       string            `json:"level"`
	Rule        string            `json:"rule"`
	Assumptions []string          `json:"assumptions"`
	Units       []Unit            `json:"units"`
	Manifest    map[string]string `json:"manifest"` // level text / note / technique used by tools/gen_manifest.py
}

// shard report (mirror of engine/vr.Report)
type Violation struct {
	Sig    string          `json:"sig"`
	What   string          `json:"what"`
	Replay json.RawMessage `json:"replay"`
	Count  int64           `json:"count"`
	unit   string
}

type Report struct {
	Property   string           `json:"property"`
	Unit       string           `json:"unit"`
	Evals      int64            `json:"evaluations"`
	States     int64            `json:"states"`
	Trans      int64            `json:"transitions"`
	Traces     int64            `json:"traces_validated_against_impl"`
	Nontrivial int64            `json:"distinct_nontrivial"`
	Outcomes   map[string]int64 `json:"outcomes"`
	Samples    []any            `json:"samples"`
	Violations []*Violation     `json:"violations"`
	Exhaustive bool             `json:"exhaustive"`
	Capped     []string         `json:"capped"`
	Extra      map[string]any   `json:"extra"`
	Infra      []string         `json:"infra"`
	WallS      float64          `json:"wall_s"`
}

type KnownFinding struct {
	Property string `json:"property"`
	Key      string `json:"key"`    // exact signature
	KeyRe    string `json:"key_re"` // or anchored regular expression over the signature
	What     string `json:"what"`
}

type KnownFile struct {
	Findings []KnownFinding   `json:"findings"`
	Fixed    []map[string]any `json:"fixed"`
}

func die(code int, f string, a ...any) {
	fmt.Fprintf(os.Stderr, f+"\n", a...)
	fmt.Printf(f+"\n", a...)
	os.Exit(code)
}

func goEnv() []string {
	env := os.Environ()
	env = append(env, "GOFLAGS=-mod=mod", "GOPROXY=off", "GOSUMDB=off", "GOTOOLCHAIN=local", "GONOSUMDB=*", "GONOSUMCHECK=1")
	return env
}

func loadHarness(id string) *Harness {
	b, err := os.ReadFile(filepath.Join(verifDir, "harness", id, "harness.json"))
	if err != nil {
		die(2, "INFRA: no harness for %s: %v", id, err)
	}
	var h Harness
	dec := json.NewDecoder(bytes.NewReader(b))
	dec.DisallowUnknownFields()
	if err := dec.Decode(&h); err != nil {
		die(2, "INFRA: harness.json of %s: %v", id, err)
	}
	return &h
}

func modulePath(modDir string) string {
	b, err := os.ReadFile(filepath.Join(modDir, "go.mod"))
	if err != nil {
		die(2, "INFRA: %v", err)
	}
	for _, l := range strings.Split(string(b), "\n") {
		l = strings.TrimSpace(l)
		if strings.HasPrefix(l, "module ") {
			return strings.TrimSpace(strings.TrimPrefix(l, "module "))
		}
	}
	die(2, "INFRA: no module line in %s", modDir)
	return ""
}

// findModule returns the repo-relative directory of the module containing repo-relative dir d.
func findModule(d string) string {
	for {
		if _, err := os.Stat(filepath.Join(repoDir, d, "go.mod")); err == nil {
			return d
		}
		if d == "." || d == "" || d == "/" {
			die(2, "INFRA: no go.mod above %s", d)
		}
		d = filepath.Dir(d)
	}
}

func shimImport(host string) string {
	m := findModule(host)
	mp := modulePath(filepath.Join(repoDir, m))
	rel, _ := filepath.Rel(m, host)
	p := mp
	if rel != "." {
		p += "/" + filepath.ToSlash(rel)
	}
	return p + "/zzverif"
}

func mutantFile(rel string) string {
	md := os.Getenv("VERIF_MUTANT_DIR")
	if md == "" {
		return ""
	}
	p := filepath.Join(md, rel)
	if _, err := os.Stat(p); err == nil {
		return p
	}
	return ""
}

func mustWrite(p string, b []byte) {
	if err := os.MkdirAll(filepath.Dir(p), 0o755); err != nil {
		die(2, "INFRA: %v", err)
	}
	if err := os.WriteFile(p, b, 0o644); err != nil {
		die(2, "INFRA: %v", err)
	}
}

type built struct {
	u    *Unit
	bin  string
	work string
}

// buildUnit prepares the overlay from /repo's current working tree and compiles the harness test binary.
func buildUnit(h *Harness, u *Unit, tier, work string) (*built, error) {
	os.RemoveAll(work)
	if err := os.MkdirAll(work, 0o755); err != nil {
		return nil, err
	}
	pkgRel := filepath.Clean(u.Pkg) // repo-relative package directory
	if u.Module == "" {
		u.Module = findModule(pkgRel)
	}
	modDir := filepath.Join(repoDir, u.Module)
	pkgDir := filepath.Join(repoDir, pkgRel)
	host := u.ShimHost
	if host == "" {
		host = pkgRel
	}
	shim := shimImport(host)
	overlay := map[string]string{}

	// 0. mutant layer (VERIF_MUTANT_DIR mirrors repo-relative paths)
	if md := os.Getenv("VERIF_MUTANT_DIR"); md != "" {
		filepath.Walk(md, func(p string, fi os.FileInfo, err error) error {
			if err != nil || fi.IsDir() || !strings.HasSuffix(p, ".go") || strings.HasSuffix(p, "_test.go") {
				return nil
			}
			rel, _ := filepath.Rel(md, p)
			overlay[filepath.Join(repoDir, rel)] = p
			return nil
		})
	}

	// 1. engine packages as virtual packages under <host>/zzverif
	for _, pk := range []string{"vs", "vr"} {
		ents, _ := os.ReadDir(filepath.Join(verifDir, "engine", pk))
		for _, e := range ents {
			if strings.HasSuffix(e.Name(), ".go") && !strings.HasSuffix(e.Name(), "_test.go") {
				overlay[filepath.Join(repoDir, host, "zzverif", pk, e.Name())] = filepath.Join(verifDir, "engine", pk, e.Name())
			}
		}
	}

	// 2. rewritten copies of the CURRENT repository files
	rws := u.Rewrite
	if tier == "thorough" && len(u.ThoroughRW) > 0 {
		rws = u.ThoroughRW
	}
	for _, r := range rws {
		src := filepath.Join(repoDir, r.File)
		if m := mutantFile(r.File); m != "" {
			src = m
		}
		b, err := os.ReadFile(src)
		if err != nil {
			return nil, fmt.Errorf("rewrite source: %w", err)
		}
		out, err := rewrite.File(r.File, b, rewrite.ParseFlags(r.Flags), shim+"/vs")
		if err != nil {
			return nil, fmt.Errorf("rewrite %s: %w", r.File, err)
		}
		dst := filepath.Join(work, "rw", r.File)
		mustWrite(dst, out)
		overlay[filepath.Join(repoDir, r.File)] = dst
	}

	// 3. upstream _test.go files of the target package are shadowed by package-clause stubs
	keep := map[string]bool{}
	for _, k := range u.KeepTests {
		keep[k] = true
	}
	ents, err := os.ReadDir(pkgDir)
	if err != nil {
		return nil, err
	}
	pkgName := ""
	for _, e := range ents {
		n := e.Name()
		if e.IsDir() || !strings.HasSuffix(n, ".go") {
			continue
		}
		fset := token.NewFileSet()
		f, err := parser.ParseFile(fset, filepath.Join(pkgDir, n), nil, parser.PackageClauseOnly)
		if err != nil {
			return nil, fmt.Errorf("parse %s: %w", n, err)
		}
		if !strings.HasSuffix(n, "_test.go") {
			if pkgName == "" && !strings.HasSuffix(f.Name.Name, "_test") {
				b, _ := os.ReadFile(filepath.Join(pkgDir, n))
				if !bytes.Contains(b, []byte("//go:build ignore")) {
					pkgName = f.Name.Name
				}
			}
			continue
		}
		if keep[n] {
			continue
		}
		stub := filepath.Join(work, "stubs", n)
		mustWrite(stub, []byte("package "+f.Name.Name+"\n"))
		overlay[filepath.Join(pkgDir, n)] = stub
	}

	// 4. harness files
	subst := func(b []byte) []byte {
		b = bytes.ReplaceAll(b, []byte(`"VERIF/vs"`), []byte(strconv.Quote(shim+"/vs")))
		b = bytes.ReplaceAll(b, []byte(`"VERIF/vr"`), []byte(strconv.Quote(shim+"/vr")))
		b = bytes.ReplaceAll(b, []byte("package VERIFPKG"), []byte("package "+pkgName))
		return b
	}
	for i, hf := range u.Harness {
		src := filepath.Join(verifDir, "harness", h.Property, hf)
		if strings.Contains(hf, "/") {
			src = filepath.Join(verifDir, hf)
		}
		b, err := os.ReadFile(src)
		if err != nil {
			return nil, err
		}
		dst := filepath.Join(work, "harness", fmt.Sprintf("zz_verif_%d_%s", i, filepath.Base(hf)))
		if !strings.HasSuffix(dst, "_test.go") {
			dst = strings.TrimSuffix(dst, ".go") + "_test.go"
		}
		mustWrite(dst, subst(b))
		overlay[filepath.Join(pkgDir, filepath.Base(dst))] = dst
	}
	for dstRel, srcRel := range u.Extra {
		b, err := os.ReadFile(filepath.Join(verifDir, srcRel))
		if err != nil {
			return nil, err
		}
		dst := filepath.Join(work, "extra", dstRel)
		mustWrite(dst, subst(b))
		if strings.HasPrefix(dstRel, "GOMODCACHE/") {
			// a file of a third-party module (e.g. to own tie-breaking that follows map iteration order)
			overlay[filepath.Join(goModCache(), strings.TrimPrefix(dstRel, "GOMODCACHE/"))] = dst
			continue
		}
		overlay[filepath.Join(repoDir, dstRel)] = dst
	}

	ob, _ := json.MarshalIndent(map[string]any{"Replace": overlay}, "", " ")
	ovPath := filepath.Join(work, "overlay.json")
	mustWrite(ovPath, ob)

	// 5. alternate modfile so /repo/**/go.mod|go.sum are never rewritten
	mb, err := os.ReadFile(filepath.Join(modDir, "go.mod"))
	if err != nil {
		return nil, err
	}
	for mp, dir := range u.ModReplace {
		mb = append(mb, []byte(fmt.Sprintf("\nrequire %s v0.0.0-00010101000000-000000000000\nreplace %s => %s\n", mp, mp, filepath.Join(repoDir, dir)))...)
	}
	mustWrite(filepath.Join(work, "alt.mod"), mb)
	if sb, err := os.ReadFile(filepath.Join(modDir, "go.sum")); err == nil {
		mustWrite(filepath.Join(work, "alt.sum"), sb)
	}

	bin := filepath.Join(work, "harness.test")
	relPk, _ := filepath.Rel(u.Module, pkgRel)
	pk := "./" + filepath.ToSlash(relPk)
	bargs := []string{"test", "-c", "-tags", "verif", "-vet=off", "-modfile=" + filepath.Join(work, "alt.mod"), "-overlay=" + ovPath, "-o", bin}
	if u.Race {
		bargs = append(bargs, "-race")
	}
	cmd := exec.Command("go", append(bargs, pk)...)
	cmd.Dir = modDir
	cmd.Env = goEnv()
	out, err := cmd.CombinedOutput()
	if err != nil {
		return nil, fmt.Errorf("go test -c failed: %v\n%s", err, out)
	}
	if _, err := os.Stat(bin); err != nil {
		return nil, fmt.Errorf("no test binary produced (no test files?)\n%s", out)
	}
	return &built{u: u, bin: bin, work: work}, nil
}

var modCache string

func goModCache() string {
	if modCache == "" {
		cmd := exec.Command("go", "env", "GOMODCACHE")
		cmd.Env = goEnv()
		out, _ := cmd.Output()
		modCache = strings.TrimSpace(string(out))
	}
	return modCache
}

type shardJob struct {
	b      *built
	i, n   int
	report string
	replay string
}

func runShard(j shardJob, tier string, seed int, verbose bool) (string, error) {
	u := j.b.u
	budget := u.BudgetS[tier]
	if budget == 0 {
		budget = 120
		if tier == "thorough" {
			budget = 1200
		}
	}
	if v := os.Getenv("VERIF_BUDGET_OVERRIDE_S"); v != "" {
		budget, _ = strconv.Atoi(v)
	}
	mem := u.MemGB
	if mem == 0 {
		mem = 8
	}
	hard := budget*3 + 120
	entry := u.Test
	if entry == "" {
		entry = "TestVerif"
	}
	args := []string{"-test.run", "'^" + entry + "$'", "-test.timeout", "0", "-test.count", "1"}
	if verbose {
		args = append(args, "-test.v")
	}
	sh := fmt.Sprintf("ulimit -v %d; exec timeout -k 5 %d %s %s", mem*1024*1024, hard, j.b.bin, strings.Join(args, " "))
	if u.Race {
		// the detector reserves terabytes of address space: no address-space limit here (the execution cap bounds the run);
		// "|| true": the testing package fails a test during which the detector reported anything - the verdict is the report file
		sh = fmt.Sprintf("timeout -k 5 %d %s %s || true", hard, j.b.bin, strings.Join(args, " "))
	}
	cmd := exec.Command("bash", "-c", sh)
	cmd.Dir = j.b.work
	gmp := u.GoMaxProcs
	if gmp == 0 {
		gmp = 1
	}
	cmd.Env = append(os.Environ(),
		"VERIF_REPORT="+j.report, "VERIF_TIER="+tier, fmt.Sprintf("VERIF_SHARD=%d", j.i), fmt.Sprintf("VERIF_SHARDS=%d", j.n),
		fmt.Sprintf("VERIF_SEED=%d", seed), fmt.Sprintf("VERIF_BUDGET_S=%d", budget), "VERIF_PARAMS="+u.Params[tier],
		fmt.Sprintf("GOMAXPROCS=%d", gmp), "VERIF_REPLAY="+j.replay, "VERIF_UNIT="+u.Name)
	if u.Race {
		re := u.RaceExecs
		if re == 0 {
			re = 300
		}
		logp := fmt.Sprintf("%s/race-%d-%d", j.b.work, j.i, time.Now().UnixNano())
		cmd.Env = append(cmd.Env, "VERIF_RACE=1", fmt.Sprintf("VERIF_RACE_EXECS=%d", re), "VERIF_RACE_LOG="+logp,
			"GORACE=log_path="+logp+" halt_on_error=0 exitcode=0")
	}
	out, err := cmd.CombinedOutput()
	return string(out), err
}

func readSet(path string, into map[uint64]struct{}) {
	b, err := os.ReadFile(path)
	if err != nil {
		return
	}
	for i := 0; i+8 <= len(b); i += 8 {
		into[binary.LittleEndian.Uint64(b[i:])] = struct{}{}
	}
}

func loadKnown() *KnownFile {
	var k KnownFile
	b, err := os.ReadFile(filepath.Join(verifDir, "known_findings.json"))
	if err != nil {
		return &k
	}
	if err := json.Unmarshal(b, &k); err != nil {
		die(2, "INFRA: known_findings.json: %v", err)
	}
	return &k
}

func (k *KnownFile) match(prop, sig string) *KnownFinding {
	for i := range k.Findings {
		f := &k.Findings[i]
		if f.Property != prop {
			continue
		}
		if f.Key != "" && f.Key == sig {
			return f
		}
		if f.KeyRe != "" {
			if ok, _ := regexp.MatchString("^(?:"+f.KeyRe+")$", sig); ok {
				return f
			}
		}
	}
	return nil
}

func repoModState() string {
	cmd := exec.Command("bash", "-c", "cd "+repoDir+" && git ls-files -m -o --exclude-standard -- '*go.mod' '*go.sum' | sort | xargs -r sha256sum")
	out, _ := cmd.CombinedOutput()
	return string(out)
}

type unitSummary struct {
	Name       string           `json:"unit"`
	Shards     int              `json:"shards"`
	Evals      int64            `json:"evaluations"`
	States     int64            `json:"states"`
	Trans      int64            `json:"transitions"`
	Traces     int64            `json:"traces_validated_against_impl"`
	Nontrivial int64            `json:"distinct_nontrivial"`
	Outcomes   map[string]int64 `json:"outcomes"`
	Exhaustive bool             `json:"exhaustive"`
	Capped     []string         `json:"capped,omitempty"`
	Extra      map[string]any   `json:"extra,omitempty"`
	WallS      float64          `json:"max_shard_wall_s"`
}

func inTier(u *Unit, tier string) bool {
	if len(u.Tiers) == 0 {
		return true
	}
	for _, t := range u.Tiers {
		if t == tier {
			return true
		}
	}
	return false
}

func check(id, tier string) int {
	start := time.Now()
	h := loadHarness(id)
	seed, _ := strconv.Atoi(os.Getenv("VERIF_SEED"))
	known := loadKnown()
	workRoot := filepath.Join(verifDir, ".work", id+"-"+tier)
	if os.Getenv("VERIF_MUTANT_DIR") != "" {
		workRoot += "-mut-" + fmt.Sprintf("%x", sha256.Sum256([]byte(os.Getenv("VERIF_MUTANT_DIR"))))[:8]
	}
	before := repoModState()
	only := os.Getenv("VERIF_UNITS") // debugging aid: comma list of unit names

	var builts []*built
	for i := range h.Units {
		u := &h.Units[i]
		if !inTier(u, tier) {
			continue
		}
		if only != "" && !strings.Contains(","+only+",", ","+u.Name+",") {
			continue
		}
		b, err := buildUnit(h, u, tier, filepath.Join(workRoot, u.Name))
		if err != nil {
			fmt.Printf("BUILD-ERROR property=%s unit=%s\n%v\n", id, u.Name, err)
			return 2
		}
		builts = append(builts, b)
	}
	if len(builts) == 0 {
		die(2, "INFRA: no units to run for %s tier %s", id, tier)
	}
	buildS := time.Since(start).Seconds()

	// run shards, at most 16 processes at a time
	var jobs []shardJob
	for _, b := range builts {
		n := b.u.Shards[tier]
		if n <= 0 {
			n = 1
		}
		for i := 0; i < n; i++ {
			jobs = append(jobs, shardJob{b: b, i: i, n: n, report: filepath.Join(b.work, fmt.Sprintf("report-%d.json", i))})
		}
	}
	par := 16
	if v, err := strconv.Atoi(os.Getenv("VERIF_PAR")); err == nil && v > 0 {
		par = v
	}
	sem := make(chan struct{}, par)
	var wg sync.WaitGroup
	outs := make([]string, len(jobs))
	errs := make([]error, len(jobs))
	for k := range jobs {
		wg.Add(1)
		go func(k int) {
			defer wg.Done()
			sem <- struct{}{}
			defer func() { <-sem }()
			outs[k], errs[k] = runShard(jobs[k], tier, seed, false)
		}(k)
	}
	wg.Wait()

	// merge
	infra := []string{}
	sums := map[string]*unitSummary{}
	stateSets := map[string]map[uint64]struct{}{}
	ntSets := map[string]map[uint64]struct{}{}
	vio := map[string]*Violation{}
	var vioOrder []string
	var samples []any
	for k, j := range jobs {
		b, err := os.ReadFile(j.report)
		if err != nil {
			tail := outs[k]
			if len(tail) > 3000 {
				tail = tail[len(tail)-3000:]
			}
			infra = append(infra, fmt.Sprintf("HARNESS-CRASH unit=%s shard=%d/%d err=%v output:\n%s", j.b.u.Name, j.i, j.n, errs[k], tail))
			continue
		}
		var r Report
		if err := json.Unmarshal(b, &r); err != nil {
			infra = append(infra, fmt.Sprintf("bad report %s: %v", j.report, err))
			continue
		}
		if errs[k] != nil { // the harness process must exit 0 whatever it found; anything else is a crash
			tail := outs[k]
			if len(tail) > 2000 {
				tail = tail[len(tail)-2000:]
			}
			infra = append(infra, fmt.Sprintf("HARNESS-CRASH unit=%s shard=%d/%d exit=%v output:\n%s", j.b.u.Name, j.i, j.n, errs[k], tail))
		}
		name := j.b.u.Name
		s := sums[name]
		if s == nil {
			s = &unitSummary{Name: name, Shards: j.n, Outcomes: map[string]int64{}, Exhaustive: true, Extra: map[string]any{}}
			sums[name] = s
			stateSets[name] = map[uint64]struct{}{}
			ntSets[name] = map[uint64]struct{}{}
		}
		s.Evals += r.Evals
		s.Trans += r.Trans
		s.Traces += r.Traces
		if _, err := os.Stat(j.report + ".states"); err == nil {
			readSet(j.report+".states", stateSets[name])
		} else {
			s.States += r.States
		}
		if _, err := os.Stat(j.report + ".nontriv"); err == nil {
			readSet(j.report+".nontriv", ntSets[name])
		} else {
			s.Nontrivial += r.Nontrivial
		}
		for o, c := range r.Outcomes {
			s.Outcomes[o] += c
		}
		if !r.Exhaustive {
			s.Exhaustive = false
		}
		for _, c := range r.Capped {
			found := false
			for _, x := range s.Capped {
				found = found || x == c
			}
			if !found {
				s.Capped = append(s.Capped, c)
			}
		}
		for k2, v := range r.Extra {
			switch nv := v.(type) {
			case float64:
				if ov, ok := s.Extra[k2].(float64); ok {
					if strings.HasPrefix(k2, "max_") {
						if nv > ov {
							s.Extra[k2] = nv
						}
					} else if strings.HasSuffix(k2, "_completed") {
						// a bound is completed only if every shard completed it
						if nv < ov {
							s.Extra[k2] = nv
						}
					} else {
						s.Extra[k2] = ov + nv
					}
				} else {
					s.Extra[k2] = nv
				}
			default:
				if _, ok := s.Extra[k2]; !ok {
					s.Extra[k2] = v
				}
			}
		}
		if r.WallS > s.WallS {
			s.WallS = r.WallS
		}
		if len(samples) < 6 {
			for _, x := range r.Samples {
				if len(samples) < 6 {
					samples = append(samples, map[string]any{"unit": name, "case": x})
				}
			}
		}
		for _, v := range r.Violations {
			key := name + "|" + v.Sig
			if ov := vio[key]; ov != nil {
				ov.Count += v.Count
				continue
			}
			v.unit = name
			vio[key] = v
			vioOrder = append(vioOrder, key)
		}
		for _, x := range r.Infra {
			infra = append(infra, fmt.Sprintf("unit=%s shard=%d: %s", name, j.i, x))
		}
	}
	for name, s := range sums {
		if n := int64(len(stateSets[name])); n > 0 {
			s.States += n
		}
		if n := int64(len(ntSets[name])); n > 0 {
			s.Nontrivial += n
		}
	}

	if after := repoModState(); after != before {
		infra = append(infra, "go.mod/go.sum under /repo changed during the check:\n"+after)
	}

	// classify violations
	sort.Strings(vioOrder)
	var knownHits []map[string]any
	var fresh []*Violation
	for _, key := range vioOrder {
		v := vio[key]
		if f := known.match(id, v.Sig); f != nil {
			knownHits = append(knownHits, map[string]any{"sig": v.Sig, "key": f.Key + f.KeyRe, "what": f.What, "instances": v.Count, "unit": v.unit})
			continue
		}
		fresh = append(fresh, v)
	}

	// replay each new violation 5x in fresh processes: identical signature required
	os.MkdirAll(filepath.Join(verifDir, "replays"), 0o755)
	var vioLines []string
	maxReplay := 8
	for n, v := range fresh {
		hsh := fmt.Sprintf("%x", sha256.Sum256([]byte(v.unit+"|"+v.Sig)))[:10]
		rp := filepath.Join(verifDir, "replays", fmt.Sprintf("%s-%s-%s.json", id, v.unit, hsh))
		rb, _ := json.MarshalIndent(map[string]any{"property": id, "unit": v.unit, "sig": v.Sig, "what": v.What, "tier": tier, "replay": v.Replay}, "", " ")
		mustWrite(rp, rb)
		if n < maxReplay && os.Getenv("VERIF_NO_REPLAY") == "" {
			var bu *built
			for _, b := range builts {
				if b.u.Name == v.unit {
					bu = b
				}
			}
			for k := 0; k < 5; k++ {
				rep := filepath.Join(bu.work, fmt.Sprintf("replay-%d-%d.json", n, k))
				os.Remove(rep)
				out, err := runShard(shardJob{b: bu, i: 0, n: 1, report: rep, replay: rp}, tier, seed, false)
				var r Report
				b, rerr := os.ReadFile(rep)
				if rerr == nil {
					rerr = json.Unmarshal(b, &r)
				}
				ok := false
				if rerr == nil {
					for _, rv := range r.Violations {
						if rv.Sig == v.Sig {
							ok = true
						}
					}
				}
				if !ok {
					if len(out) > 2000 {
						out = out[len(out)-2000:]
					}
					infra = append(infra, fmt.Sprintf("NONDETERMINISM: violation %q of unit %s did not reproduce on replay %d (%v %v)\n%s", v.Sig, v.unit, k, err, rerr, out))
					break
				}
			}
		}
		vioLines = append(vioLines, fmt.Sprintf("VIOLATION property=%s replay=%s", id, rp))
		fmt.Printf("  violation unit=%s sig=%s instances=%d\n    %s\n", v.unit, v.Sig, v.Count, v.What)
	}

	// evidence
	var tot unitSummary
	tot.Exhaustive = true
	outcomes := map[string]int64{}
	var ulist []*unitSummary
	var names []string
	for n := range sums {
		names = append(names, n)
	}
	sort.Strings(names)
	var capped []string
	raceUnit := map[string]bool{}
	for i := range h.Units {
		raceUnit[h.Units[i].Name] = h.Units[i].Race
	}
	var racePass []map[string]any
	for _, n := range names {
		s := sums[n]
		if raceUnit[n] {
			// the supporting race pass is reported on its own: it validates the exploration's atomicity assumption on a
			// deterministic prefix of the same search order and is not part of the exhaustive enumeration's counts
			racePass = append(racePass, map[string]any{"unit": n, "executions_under_the_race_detector": s.Evals,
				"visible_operations": s.Trans, "detector_reports_incl_harness_bookkeeping": s.Extra["race_detector_reports"],
				"executions_capped_per_exploration_call": true})
			continue
		}
		ulist = append(ulist, s)
		tot.Evals += s.Evals
		tot.States += s.States
		tot.Trans += s.Trans
		tot.Traces += s.Traces
		tot.Nontrivial += s.Nontrivial
		for o, c := range s.Outcomes {
			outcomes[n+":"+o] += c
		}
		if !s.Exhaustive {
			tot.Exhaustive = false
			for _, c := range s.Capped {
				capped = append(capped, n+": "+c)
			}
		}
	}
	if len(samples) == 0 {
		samples = append(samples, "no sample recorded")
	}
	cov := map[string]any{
		"evaluations": tot.Evals, "distinct_nontrivial": tot.Nontrivial, "rule": h.Rule, "samples": samples,
		"states": tot.States, "transitions": tot.Trans, "traces_validated_against_impl": tot.Traces,
		"exhaustive": tot.Exhaustive && len(infra) == 0, "units": ulist, "distinct_outcomes": len(outcomes), "outcomes": outcomes,
		"known_findings_reproduced": knownHits, "build_s": buildS,
	}
	if len(capped) > 0 {
		cov["capped"] = capped
	}
	if len(racePass) > 0 {
		cov["race_pass"] = racePass
	}
	if len(fresh) > 0 {
		var l []map[string]any
		for _, v := range fresh {
			l = append(l, map[string]any{"unit": v.unit, "sig": v.Sig, "what": v.What, "instances": v.Count})
		}
		cov["new_violations"] = l
	}
	if len(infra) > 0 {
		cov["infrastructure_errors"] = infra
	}
	ev := map[string]any{
		"property_id": id, "tier": tier, "seed": seed, "level": h.Level, "coverage": cov, "assumptions": h.Assumptions,
		"wall_s": time.Since(start).Seconds(), "violations": len(fresh),
	}
	eb, _ := json.MarshalIndent(ev, "", " ")
	evPath := filepath.Join(verifDir, "evidence", id+".json")
	if os.Getenv("VERIF_MUTANT_DIR") != "" || os.Getenv("VERIF_NO_EVIDENCE") != "" {
		evPath = filepath.Join(workRoot, "evidence.json") // detection runs never overwrite the committed evidence
	}
	mustWrite(evPath, eb)

	fmt.Printf("%s %s: units=%d evaluations=%d states=%d transitions=%d traces=%d distinct_nontrivial=%d outcomes=%d exhaustive=%v build=%.0fs wall=%.0fs\n",
		id, tier, len(ulist), tot.Evals, tot.States, tot.Trans, tot.Traces, tot.Nontrivial, len(outcomes), tot.Exhaustive, buildS, time.Since(start).Seconds())
	{ // one line per listed finding, however many signatures / instances matched it
		type agg struct {
			what string
			sigs int
			inst int64
		}
		m := map[string]*agg{}
		var order []string
		for _, kh := range knownHits {
			k := kh["key"].(string)
			if m[k] == nil {
				m[k] = &agg{what: kh["what"].(string)}
				order = append(order, k)
			}
			m[k].sigs++
			m[k].inst += kh["instances"].(int64)
		}
		for _, k := range order {
			fmt.Printf("KNOWN-FINDING: property=%s %s [matched signatures=%d instances=%d]\n", id, m[k].what, m[k].sigs, m[k].inst)
		}
	}
	if os.Getenv("VERIF_KEEP") == "" {
		for _, b := range builts {
			os.Remove(b.bin)
		}
	}
	if len(infra) > 0 {
		for _, x := range infra {
			fmt.Printf("INFRA-ERROR property=%s %s\n", id, x)
		}
		if len(vioLines) == 0 {
			return 2
		}
	}
	for _, l := range vioLines {
		fmt.Println(l)
	}
	if len(vioLines) > 0 {
		return 1
	}
	return 0
}

func replay(id, file string) int {
	h := loadHarness(id)
	b, err := os.ReadFile(file)
	if err != nil {
		die(2, "INFRA: %v", err)
	}
	var rf struct {
		Unit string `json:"unit"`
		Tier string `json:"tier"`
		Sig  string `json:"sig"`
	}
	json.Unmarshal(b, &rf)
	if rf.Tier == "" {
		rf.Tier = "quick"
	}
	for i := range h.Units {
		u := &h.Units[i]
		if u.Name != rf.Unit {
			continue
		}
		bu, err := buildUnit(h, u, rf.Tier, filepath.Join(verifDir, ".work", id+"-replay", u.Name))
		if err != nil {
			fmt.Printf("BUILD-ERROR %v\n", err)
			return 2
		}
		abs, _ := filepath.Abs(file)
		rep := filepath.Join(bu.work, "replay.json")
		out, _ := runShard(shardJob{b: bu, i: 0, n: 1, report: rep, replay: abs}, rf.Tier, 0, true)
		fmt.Print(out)
		var r Report
		rb, err := os.ReadFile(rep)
		if err != nil {
			fmt.Println("no report:", err)
			return 2
		}
		json.Unmarshal(rb, &r)
		for _, v := range r.Violations {
			fmt.Printf("REPRODUCED sig=%s\n  %s\n", v.Sig, v.What)
			if v.Sig == rf.Sig {
				fmt.Printf("VIOLATION property=%s replay=%s\n", id, abs)
				return 1
			}
		}
		fmt.Println("not reproduced")
		return 0
	}
	die(2, "INFRA: unit %q not found", rf.Unit)
	return 2
}

func allIDs() []string {
	ents, _ := os.ReadDir(filepath.Join(verifDir, "harness"))
	var ids []string
	for _, e := range ents {
		if _, err := os.Stat(filepath.Join(verifDir, "harness", e.Name(), "harness.json")); err == nil {
			ids = append(ids, e.Name())
		}
	}
	sort.Strings(ids)
	return ids
}

func setup() int {
	rc := 0
	for _, id := range allIDs() {
		h := loadHarness(id)
		for i := range h.Units {
			u := &h.Units[i]
			t0 := time.Now()
			b, err := buildUnit(h, u, "quick", filepath.Join(verifDir, ".work", "setup", id, u.Name))
			if err != nil {
				fmt.Printf("setup: %s/%s BUILD-ERROR: %v\n", id, u.Name, err)
				rc = 2
				continue
			}
			os.Remove(b.bin)
			fmt.Printf("setup: %s/%s built in %.0fs\n", id, u.Name, time.Since(t0).Seconds())
		}
	}
	os.RemoveAll(filepath.Join(verifDir, ".work", "setup"))
	return rc
}

func main() {
	if len(os.Args) < 2 {
		die(2, "usage: verif check|replay|setup|mutants ...")
	}
	switch os.Args[1] {
	case "check":
		if len(os.Args) < 3 {
			die(2, "usage: verif check Cxx [--tier quick|thorough]")
		}
		tier := envOr("VERIF_TIER", "quick")
		for i := 3; i < len(os.Args); i++ {
			if os.Args[i] == "--tier" && i+1 < len(os.Args) {
				tier = os.Args[i+1]
			}
		}
		os.Exit(check(os.Args[2], tier))
	case "replay":
		if len(os.Args) < 4 {
			die(2, "usage: verif replay Cxx <file>")
		}
		os.Exit(replay(os.Args[2], os.Args[3]))
	case "setup":
		os.Exit(setup())
	case "mutants":
		os.Exit(mutants(os.Args[2:]))
	default:
		die(2, "unknown command %s", os.Args[1])
	}
}
