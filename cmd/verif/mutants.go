package main

import (
	"encoding/json"
	"fmt"
	"os"
	"os/exec"
	"path/filepath"
	"regexp"
	"sort"
	"strings"
	"time"
)

// A mutant is a directory containing either files at their repo-relative paths or a patch.diff (git format, -p1).
// mutants/<Cxx>-<name>/ are my own; seeded/<name>/ come from independent sub-agents (meta.json names the property).
type mutant struct {
	name, dir, prop string
	extraProps      []string
}

var diffFile = regexp.MustCompile(`(?m)^\+\+\+ b/(\S+)`)

// materialise returns a directory mirroring repo-relative paths with the mutated files.
func materialise(m mutant) (string, error) {
	patch := filepath.Join(m.dir, "patch.diff")
	if _, err := os.Stat(patch); err != nil {
		if _, err := os.Stat(filepath.Join(m.dir, "files")); err == nil {
			return filepath.Join(m.dir, "files"), nil
		}
		return m.dir, nil
	}
	out := filepath.Join(verifDir, ".work", "mut", m.name)
	os.RemoveAll(out)
	pb, err := os.ReadFile(patch)
	if err != nil {
		return "", err
	}
	for _, mm := range diffFile.FindAllStringSubmatch(string(pb), -1) {
		rel := mm[1]
		b, err := os.ReadFile(filepath.Join(repoDir, rel))
		if err != nil {
			b = nil // new file
		}
		mustWrite(filepath.Join(out, rel), b)
	}
	cmd := exec.Command("patch", "-p1", "-s", "--no-backup-if-mismatch", "-i", patch)
	cmd.Dir = out
	if o, err := cmd.CombinedOutput(); err != nil {
		return "", fmt.Errorf("patch failed: %v\n%s", err, o)
	}
	return out, nil
}

func listMutants(filter []string) []mutant {
	var l []mutant
	want := func(prop, name string) bool {
		if len(filter) == 0 {
			return true
		}
		for _, f := range filter {
			if f == prop || f == name || f == "seeded/"+name {
				return true
			}
		}
		return false
	}
	ents, _ := os.ReadDir(filepath.Join(verifDir, "mutants"))
	for _, e := range ents {
		if !e.IsDir() || len(e.Name()) < 4 || e.Name()[0] != 'C' {
			continue
		}
		prop := strings.SplitN(e.Name(), "-", 2)[0]
		if want(prop, e.Name()) {
			l = append(l, mutant{name: e.Name(), dir: filepath.Join(verifDir, "mutants", e.Name()), prop: prop})
		}
	}
	ents, _ = os.ReadDir(filepath.Join(verifDir, "seeded"))
	for _, e := range ents {
		if !e.IsDir() {
			continue
		}
		var meta struct {
			Property string   `json:"property"`
			Also     []string `json:"also_checked_by"`
		}
		b, err := os.ReadFile(filepath.Join(verifDir, "seeded", e.Name(), "meta.json"))
		if err != nil {
			continue
		}
		json.Unmarshal(b, &meta)
		if want(meta.Property, e.Name()) {
			l = append(l, mutant{name: "seeded/" + e.Name(), dir: filepath.Join(verifDir, "seeded", e.Name()), prop: meta.Property, extraProps: meta.Also})
		}
	}
	sort.Slice(l, func(i, j int) bool { return l[i].name < l[j].name })
	return l
}

func mutants(args []string) int {
	self, _ := os.Executable()
	var rows []string
	rc := 0
	tier := envOr("VERIF_MUTANT_TIER", "quick")
	for _, m := range listMutants(args) {
		dir, err := materialise(m)
		if err != nil {
			rows = append(rows, fmt.Sprintf("| %s | %s | ERROR %v | |", m.name, m.prop, err))
			rc = 2
			continue
		}
		t0 := time.Now()
		var out []byte
		code := 0
		prop := m.prop
		// the property the change was written against first; if its check does not see the change, the checks named in
		// meta.json's also_checked_by (the change breaks their property as well, at another level of integration)
		for _, pr := range append([]string{m.prop}, m.extraProps...) {
			cmd := exec.Command(self, "check", pr, "--tier", tier)
			cmd.Env = append(os.Environ(), "VERIF_MUTANT_DIR="+dir)
			var err error
			out, err = cmd.CombinedOutput()
			code = 0
			if ee, ok := err.(*exec.ExitError); ok {
				code = ee.ExitCode()
			} else if err != nil {
				code = -1
			}
			prop = pr
			if code != 0 {
				break
			}
		}
		sigs := []string{}
		for _, l := range strings.Split(string(out), "\n") {
			if strings.HasPrefix(strings.TrimSpace(l), "violation unit=") {
				sigs = append(sigs, strings.TrimSpace(l))
			}
		}
		verdict := "MISSED"
		switch code {
		case 1:
			verdict = "caught"
		case 2:
			verdict = "infra/build error"
			rc = 2
		default:
			if rc == 0 {
				rc = 1
			}
		}
		first := ""
		if len(sigs) > 0 {
			first = sigs[0]
			if len(first) > 160 {
				first = first[:160]
			}
		}
		shown := m.prop
		if prop != m.prop {
			shown = m.prop + " (missed) -> " + prop
		}
		rows = append(rows, fmt.Sprintf("| %s | %s | %s (exit %d, %.0fs) | %s |", m.name, shown, verdict, code, time.Since(t0).Seconds(), strings.ReplaceAll(first, "|", "/")))
		fmt.Println(rows[len(rows)-1])
		if os.Getenv("VERIF_MUTANT_VERBOSE") != "" || code == 2 {
			fmt.Println(string(out))
		}
	}
	if len(args) == 0 {
		md := "# Detection results (`verif mutants`, tier " + tier + ")\n\n| change | property | result | first signature |\n|---|---|---|---|\n" + strings.Join(rows, "\n") + "\n"
		mustWrite(filepath.Join(verifDir, "mutants", "RESULTS.md"), []byte(md))
	}
	os.RemoveAll(filepath.Join(verifDir, ".work", "mut"))
	return rc
}
