//go:build verif

package queuebatch

// C01 — persistent queue never loses an accepted request across crashes.
// Engine E2+E3: every op script x every storage-operation boundary x crash/restart chains, on the real persistentQueue
// over a logged in-memory storage client whose every call is one atomic durable step (the storage contract).

import (
	"context"
	"encoding/binary"
	"encoding/json"
	"errors"
	"fmt"
	"sort"
	"strconv"
	"strings"
	"testing"

	"go.opentelemetry.io/collector/component"
	"go.opentelemetry.io/collector/component/componenttest"
	"go.opentelemetry.io/collector/exporter/exporterhelper/internal/experr"
	"go.opentelemetry.io/collector/exporter/exporterhelper/internal/request"
	"go.opentelemetry.io/collector/extension/xextension/storage"
	"go.opentelemetry.io/collector/pipeline"

	"VERIF/vr"
	"VERIF/vs"
)

// ---- E3 store: every client call is one atomic durable step; snapshot at each boundary.
type c01Store struct {
	m     map[string][]byte
	snaps []map[string][]byte // snaps[b] = contents at boundary b (before op b)
	marks []string            // descriptor of op b (the op that follows boundary b)
}

func c01cp(m map[string][]byte) map[string][]byte {
	n := make(map[string][]byte, len(m))
	for k, v := range m {
		n[k] = append([]byte(nil), v...)
	}
	return n
}

func keyClass(k string) string {
	if k != "" && k[0] >= '0' && k[0] <= '9' {
		return "item"
	}
	return k
}

func (s *c01Store) boundary(site string) {
	s.snaps = append(s.snaps, c01cp(s.m))
	s.marks = append(s.marks, site)
}
func (s *c01Store) Get(_ context.Context, k string) ([]byte, error) {
	s.boundary("get:" + keyClass(k))
	return append([]byte(nil), s.m[k]...), nil
}
func (s *c01Store) Set(_ context.Context, k string, v []byte) error {
	s.boundary("set:" + keyClass(k))
	s.m[k] = append([]byte(nil), v...)
	return nil
}
func (s *c01Store) Delete(_ context.Context, k string) error {
	s.boundary("del:" + keyClass(k))
	delete(s.m, k)
	return nil
}
func (s *c01Store) Batch(_ context.Context, ops ...*storage.Operation) error {
	var d []string
	for _, op := range ops {
		t := map[storage.OpType]string{storage.Get: "get", storage.Set: "set", storage.Delete: "del"}[op.Type]
		d = append(d, t+":"+keyClass(op.Key))
	}
	d = uniqSorted(d)
	s.boundary("batch[" + strings.Join(d, ",") + "]")
	for _, op := range ops {
		switch op.Type {
		case storage.Get:
			if v, ok := s.m[op.Key]; ok {
				op.Value = append([]byte(nil), v...)
			} else {
				op.Value = nil
			}
		case storage.Set:
			s.m[op.Key] = append([]byte(nil), op.Value...)
		case storage.Delete:
			delete(s.m, op.Key)
		}
	}
	return nil
}
func (s *c01Store) Close(context.Context) error { return nil }

func uniqSorted(l []string) []string {
	sort.Strings(l)
	var o []string
	for i, x := range l {
		if i == 0 || l[i-1] != x {
			o = append(o, x)
		}
	}
	return o
}

type c01Ext struct {
	component.StartFunc
	component.ShutdownFunc
	cl storage.Client
}

func (e *c01Ext) GetClient(context.Context, component.Kind, component.ID, string) (storage.Client, error) {
	return e.cl, nil
}

type c01Host struct{ ext map[component.ID]component.Component }

func (h c01Host) GetExtensions() map[component.ID]component.Component { return h.ext }

// request = uint64 id; the encoding round-trips it (magic prefix so that index values are never mistaken for bodies)
type c01Enc struct{}

const c01Magic = 0xC01C01C0

func (c01Enc) Marshal(v uint64) ([]byte, error) {
	b := binary.LittleEndian.AppendUint32(nil, c01Magic)
	return binary.LittleEndian.AppendUint64(b, v), nil
}
func (c01Enc) Unmarshal(b []byte) (uint64, error) {
	if len(b) != 12 || binary.LittleEndian.Uint32(b) != c01Magic {
		return 0, errors.New("bad body")
	}
	return binary.LittleEndian.Uint64(b[4:]), nil
}

func c01Bodies(m map[string][]byte) map[uint64]bool {
	r := map[uint64]bool{}
	for k, v := range m {
		if keyClass(k) == "item" {
			if id, err := (c01Enc{}).Unmarshal(v); err == nil {
				r[id] = true
			}
		}
	}
	return r
}

// canonical form: ids renamed 1..n by numeric key order (the queue treats bodies opaquely, so renaming is a symmetry)
func c01Canon(m map[string][]byte, owed map[uint64]bool) (cm map[string][]byte, cowed map[uint64]bool, key string, next uint64) {
	type kv struct {
		k uint64
		s string
	}
	var items []kv
	for k := range m {
		if keyClass(k) == "item" {
			n, _ := strconv.ParseUint(k, 10, 64)
			items = append(items, kv{n, k})
		}
	}
	sort.Slice(items, func(i, j int) bool { return items[i].k < items[j].k })
	ren := map[uint64]uint64{}
	next = 1
	cm = map[string][]byte{}
	for _, it := range items {
		v := m[it.s]
		if id, err := (c01Enc{}).Unmarshal(v); err == nil {
			if _, ok := ren[id]; !ok {
				ren[id] = next
				next++
			}
			cm[it.s], _ = c01Enc{}.Marshal(ren[id])
		} else {
			cm[it.s] = v
		}
	}
	for k, v := range m {
		if keyClass(k) != "item" {
			cm[k] = v
		}
	}
	var ow []uint64
	for id := range owed {
		ow = append(ow, id)
	}
	sort.Slice(ow, func(i, j int) bool { return ow[i] < ow[j] })
	cowed = map[uint64]bool{}
	for _, id := range ow {
		if _, ok := ren[id]; !ok { // owed but absent from the store (a violating state; never expanded)
			ren[id] = next
			next++
		}
		cowed[ren[id]] = true
	}
	var ks []string
	for k, v := range cm {
		ks = append(ks, fmt.Sprintf("%s=%x", k, v))
	}
	sort.Strings(ks)
	var os []string
	for o := range cowed {
		os = append(os, fmt.Sprint(o))
	}
	sort.Strings(os)
	key = strings.Join(ks, ",") + "|" + strings.Join(os, ",")
	return
}

type c01Op struct {
	Kind string `json:"k"` // offer, read, ok, fail, shut, stop
	Arg  int    `json:"a"` // index into the in-flight list for done ops
}

func (o c01Op) String() string {
	if o.Kind == "ok" || o.Kind == "fail" || o.Kind == "shut" {
		return fmt.Sprintf("%s(%d)", o.Kind, o.Arg)
	}
	return o.Kind
}

type c01Inflight struct {
	id   uint64
	done Done
}

type c01Crash struct {
	m    map[string][]byte
	owed map[uint64]bool
	site string // "<phase>:<descriptor of the storage op completed just before this boundary>"
}

type c01Viol struct {
	sig, what string
}

func c01NewQueue(capacity int64) readableQueue[uint64] {
	return newPersistentQueue[uint64](persistentQueueSettings[uint64]{
		sizer: request.RequestsSizer[uint64]{}, capacity: capacity, signal: pipeline.SignalTraces,
		storageID: component.MustNewID("st"), encoding: c01Enc{}, id: component.MustNewID("x"), telemetry: componenttest.NewNopTelemetrySettings(),
	})
}

// c01Read performs a non-blocking Read: ok=false when the queue would make the consumer wait (empty) or is stopped.
func c01Read(q readableQueue[uint64]) (id uint64, d Done, ok bool) {
	blocked := vs.TryBlocking(func() {
		_, id, d, ok = q.Read(context.Background())
	})
	if blocked {
		return 0, nil, false
	}
	return
}

// c01Run starts a fresh queue object on a copy of m (recovery included), applies script, and returns the crash state
// of every storage-operation boundary plus invariant violations. applicable=false if the script does not apply.
func c01Run(m map[string][]byte, owed map[uint64]bool, next uint64, capacity int64, script []c01Op) (states []c01Crash, viol []c01Viol, applicable bool, finalOwed map[uint64]bool) {
	st := &c01Store{m: c01cp(m)}
	q := c01NewQueue(capacity)
	var owedAt []map[uint64]bool // owed set at each boundary index
	var phaseAt []string
	cur := map[uint64]bool{}
	for k := range owed {
		cur[k] = true
	}
	sync := func(phase string) { // record the owed set for all boundaries created since the last sync
		for len(owedAt) < len(st.snaps) {
			c := map[uint64]bool{}
			for k := range cur {
				c[k] = true
			}
			owedAt = append(owedAt, c)
			phaseAt = append(phaseAt, phase)
		}
	}
	ctx := context.Background()
	host := c01Host{ext: map[component.ID]component.Component{component.MustNewID("st"): &c01Ext{cl: st}}}
	if err := q.Start(ctx, host); err != nil {
		return nil, []c01Viol{{"start-error", "Start returned " + err.Error()}}, true, cur
	}
	sync("start")
	var fl []c01Inflight
	stopped := false
	for _, o := range script {
		switch o.Kind {
		case "offer":
			if stopped {
				return nil, nil, false, nil
			}
			id := next
			next++
			err := q.Offer(ctx, id)
			sync("offer") // boundaries inside Offer: the request is not yet accepted
			if err == nil {
				cur[id] = true
			}
		case "read":
			if stopped {
				return nil, nil, false, nil
			}
			id, d, got := c01Read(q)
			sync("read")
			if !got {
				return nil, nil, false, nil
			}
			fl = append(fl, c01Inflight{id, d})
		case "ok", "fail", "shut":
			if o.Arg >= len(fl) {
				return nil, nil, false, nil
			}
			f := fl[o.Arg]
			fl = append(fl[:o.Arg:o.Arg], fl[o.Arg+1:]...)
			var err error
			if o.Kind == "fail" {
				err = errors.New("permanent failure")
			} else if o.Kind == "shut" {
				err = experr.NewShutdownErr(errors.New("retry interrupted"))
			}
			// the hand-off completed with a final outcome before OnDone is called
			if o.Kind != "shut" {
				delete(cur, f.id)
			}
			f.done.OnDone(err)
			sync(o.Kind)
		case "stop":
			if stopped {
				return nil, nil, false, nil
			}
			stopped = true
			_ = q.Shutdown(ctx)
			sync("stop")
		}
	}
	st.boundary("end")
	sync("end")
	for b := range st.snaps {
		bs := c01Bodies(st.snaps[b])
		site := "start:initial"
		if b > 0 {
			site = phaseAt[b-1] + ":" + st.marks[b-1]
		}
		for id := range owedAt[b] {
			if !bs[id] {
				// root cause = first boundary at which this owed body is absent
				first := b == 0 || c01Bodies(st.snaps[b-1])[id] || !owedAt[b-1][id]
				if first {
					viol = append(viol, c01Viol{"body-missing@" + site,
						fmt.Sprintf("boundary %d (after %s): accepted and unfinished request %d has no body in storage", b, site, id)})
				}
			}
		}
		states = append(states, c01Crash{st.snaps[b], owedAt[b], site})
	}
	return states, viol, true, cur
}

// c01Drain: liveness half. From a crash state: restart, hand every readable request off with a final outcome, stop;
// up to `rounds` times. Everything owed must have been handed off by then.
var c01Debug func(string, ...any)

func c01Dump(m map[string][]byte) string {
	var ks []string
	for k, v := range m {
		if keyClass(k) == "item" {
			id, err := (c01Enc{}).Unmarshal(v)
			ks = append(ks, fmt.Sprintf("%s=req%d(%v)", k, id, err == nil))
		} else if k == "di" {
			ks = append(ks, fmt.Sprintf("di=%x", v))
		} else if len(v) >= 8 {
			ks = append(ks, fmt.Sprintf("%s=%d", k, binary.LittleEndian.Uint64(v)))
		}
	}
	sort.Strings(ks)
	return strings.Join(ks, " ")
}

func c01Drain(m map[string][]byte, owed map[uint64]bool, capacity int64, rounds int) (left map[uint64]bool, store map[string][]byte, handed []uint64) {
	cur := map[uint64]bool{}
	for k := range owed {
		cur[k] = true
	}
	store = m
	// "in the current or a later incarnation": a recovered request that does not fit may wait for a later start as
	// long as it stays stored, so rounds continue while they make progress (some hand-off happened); rounds bounds them.
	for r := 0; r < rounds && len(cur) > 0; r++ {
		before := len(handed)
		st := &c01Store{m: c01cp(store)}
		q := c01NewQueue(capacity)
		host := c01Host{ext: map[component.ID]component.Component{component.MustNewID("st"): &c01Ext{cl: st}}}
		if err := q.Start(context.Background(), host); err != nil {
			break
		}
		for n := 0; n < 64; n++ {
			id, d, got := c01Read(q)
			if !got {
				break
			}
			handed = append(handed, id)
			delete(cur, id)
			d.OnDone(nil)
		}
		_ = q.Shutdown(context.Background())
		store = st.m
		if c01Debug != nil {
			c01Debug("drain round %d: handed=%v store: %s", r, handed, c01Dump(store))
		}
		if len(handed) == before {
			break // a full restart+drain round handed nothing off: stuck
		}
	}
	return cur, store, handed
}

func c01Scripts(depth int) [][]c01Op {
	alpha := []c01Op{{"offer", 0}, {"read", 0}, {"ok", 0}, {"ok", 1}, {"fail", 0}, {"shut", 0}, {"shut", 1}, {"stop", 0}}
	var out [][]c01Op
	var rec func(cur []c01Op, inflight int, stopped bool)
	rec = func(cur []c01Op, inflight int, stopped bool) {
		out = append(out, append([]c01Op(nil), cur...))
		if len(cur) == depth {
			return
		}
		for _, a := range alpha {
			nf, ns := inflight, stopped
			switch a.Kind {
			case "offer", "read":
				if stopped {
					continue
				}
				if a.Kind == "read" {
					nf++
				}
			case "stop":
				if stopped {
					continue
				}
				ns = true
			default:
				if a.Arg >= inflight {
					continue
				}
				nf--
			}
			rec(append(cur, a), nf, ns)
		}
	}
	rec(nil, 0, false)
	// simplest first
	sort.SliceStable(out, func(i, j int) bool { return len(out[i]) < len(out[j]) })
	return out
}

type c01Step struct {
	Script []c01Op `json:"script"`
	Crash  int     `json:"crash_at_boundary"` // -1: none (last incarnation)
}

type c01Case struct {
	// Start: the first incarnation begins on a storage whose read and write index both hold this value (a queue that has
	// accepted and finished that many requests before) instead of on an empty one
	Start    uint64    `json:"start_index,omitempty"`
	Capacity int64     `json:"capacity"`
	Steps    []c01Step `json:"incarnations"`
	Drain    bool      `json:"then_drain"`
}

func c01IndexInfo(m map[string][]byte, id uint64) string {
	ri, riSet := uint64(0), false
	if b, ok := m["ri"]; ok && len(b) >= 8 {
		ri, riSet = binary.LittleEndian.Uint64(b), true
	}
	wi := uint64(0)
	if b, ok := m["wi"]; ok && len(b) >= 8 {
		wi = binary.LittleEndian.Uint64(b)
	}
	var di []uint64
	if b, ok := m["di"]; ok && len(b) >= 4 {
		n := int(binary.LittleEndian.Uint32(b))
		for i := 0; i < n && 4+8*i+8 <= len(b); i++ {
			di = append(di, binary.LittleEndian.Uint64(b[4+8*i:]))
		}
	}
	present, inRange, inDi := false, false, false
	for k, v := range m {
		if keyClass(k) != "item" {
			continue
		}
		if x, err := (c01Enc{}).Unmarshal(v); err == nil && x == id {
			present = true
			n, _ := strconv.ParseUint(k, 10, 64)
			if n >= ri && n < wi {
				inRange = true
			}
			for _, d := range di {
				if d == n {
					inDi = true
				}
			}
		}
	}
	return fmt.Sprintf("stored=%v,in_index_range=%v,in_dispatched_list=%v,read_index_set=%v", present, inRange, inDi, riSet)
}

// c01Replay re-executes one recorded case and returns the violations it shows.
func c01StartStore(start uint64) map[string][]byte {
	m := map[string][]byte{}
	if start > 0 {
		m["ri"] = binary.LittleEndian.AppendUint64(nil, start)
		m["wi"] = binary.LittleEndian.AppendUint64(nil, start)
	}
	return m
}

func c01Replay(c c01Case) []c01Viol {
	m := c01StartStore(c.Start)
	owed := map[uint64]bool{}
	var out []c01Viol
	next := uint64(1)
	for i, s := range c.Steps {
		states, v, ok, fin := c01Run(m, owed, next, c.Capacity, s.Script)
		if !ok {
			return []c01Viol{{"replay-not-applicable", fmt.Sprintf("incarnation %d script not applicable", i)}}
		}
		cut := len(states)
		if s.Crash >= 0 && s.Crash < len(states) {
			cut = s.Crash + 1
		}
		for _, x := range v {
			out = append(out, x)
		}
		_ = cut
		if s.Crash >= 0 {
			cs := states[s.Crash]
			m, owed, _, next = c01Canon(cs.m, cs.owed)
			if c01Debug != nil {
				c01Debug("incarnation %d %v crash@%d (%s): owed=%v store: %s", i, s.Script, s.Crash, cs.site, owed, c01Dump(m))
			}
		} else {
			cs := states[len(states)-1]
			m, owed = cs.m, fin
		}
	}
	if c.Drain {
		left, store, _ := c01Drain(m, owed, c.Capacity, 16)
		var ids []uint64
		for id := range left {
			ids = append(ids, id)
		}
		sort.Slice(ids, func(i, j int) bool { return ids[i] < ids[j] })
		for _, id := range ids {
			out = append(out, c01Viol{"undelivered:" + c01IndexInfo(m, id), fmt.Sprintf("request %d still owed after restart+drain rounds stopped making progress (final store has body: %v)", id, c01Bodies(store)[id])})
		}
	}
	return out
}

func TestVerif(t *testing.T) {
	ctx := vr.Start("C01", "crash")
	if ctx == nil {
		t.Skip("not driven")
	}
	defer ctx.Finish()
	vs.ResetInactive()

	if ctx.ReplayRaw != nil {
		var rf struct {
			Replay c01Case `json:"replay"`
		}
		if err := json.Unmarshal(ctx.ReplayRaw, &rf); err != nil {
			t.Fatal(err)
		}
		c01Debug = t.Logf
		for _, v := range c01Replay(rf.Replay) {
			t.Logf("replay: %s: %s", v.sig, v.what)
			ctx.Violate(v.sig, v.what, rf.Replay)
		}
		return
	}

	d0 := ctx.Param("depth0", 5)   // script length in the first incarnation
	dn := ctx.Param("depthn", 2)   // script length in later incarnations
	chain := ctx.Param("chain", 2) // crash/restart chain length
	caps := []int64{2, 3, 100}

	type node struct {
		m     map[string][]byte
		owed  map[uint64]bool
		next  uint64
		depth int
		hist  []c01Step
	}
	var incarnations, boundaries, recoveryBoundaries, drains int64
	maxChain := 0
	scripts0 := c01Scripts(d0)
	scriptsN := c01Scripts(dn)
	ctx.R.Extra["scripts_first_incarnation"] = len(scripts0)
	ctx.R.Extra["scripts_later_incarnations"] = len(scriptsN)

	// start states: the empty storage with every capacity; and, with capacity 3 and shorter first scripts, storages whose
	// indices have advanced to just below a value at which some rendering of the index (bases 11..36, decimal and binary
	// width changes) coincides with one of the queue's own bookkeeping keys
	type startCfg struct {
		start    uint64
		capacity int64
		scripts  [][]c01Op
	}
	var startCfgs []startCfg
	for _, capacity := range caps {
		startCfgs = append(startCfgs, startCfg{0, capacity, scripts0})
	}
	advanced := map[uint64]bool{8: true, 98: true, 254: true, 65534: true}
	for _, key := range []string{"ri", "wi", "di", "si"} {
		for base := 11; base <= 36; base++ {
			if v, err := strconv.ParseUint(key, base, 64); err == nil && v > 1 {
				advanced[v-1] = true
			}
		}
	}
	var advList []uint64
	for v := range advanced {
		advList = append(advList, v)
	}
	sort.Slice(advList, func(i, j int) bool { return advList[i] < advList[j] })
	scriptsAdv := c01Scripts(ctx.Param("depth_advanced", 3))
	for _, st := range advList {
		startCfgs = append(startCfgs, startCfg{st, 3, scriptsAdv})
	}
	ctx.R.Extra["advanced_start_indices"] = len(advList)
	for _, sc0 := range startCfgs {
		capacity, scripts0 := sc0.capacity, sc0.scripts
		seen := map[string]bool{}
		drained := map[string]bool{}
		frontier := []node{{c01StartStore(sc0.start), map[uint64]bool{}, 1, 0, nil}}
		for len(frontier) > 0 {
			if ctx.Expired() {
				break
			}
			n := frontier[0]
			frontier = frontier[1:]
			scripts := scriptsN
			if n.depth == 0 {
				scripts = scripts0
			}
			for si, sc := range scripts {
				if n.depth == 0 && !ctx.Mine(int64(si)) {
					continue
				}
				states, v, ok, _ := c01Run(n.m, n.owed, n.next, capacity, sc)
				if !ok {
					continue
				}
				incarnations++
				ctx.R.Evals += int64(len(states))
				boundaries += int64(len(states))
				hist := append(append([]c01Step(nil), n.hist...), c01Step{Script: sc, Crash: -1})
				for _, x := range v {
					ctx.Violate(x.sig, fmt.Sprintf("capacity=%d history=%s: %s", capacity, c01Hist(hist), x.what), c01Case{Start: sc0.start, Capacity: capacity, Steps: append([]c01Step(nil), hist...)})
				}
				ctx.Outcome(fmt.Sprintf("incarnation-depth-%d", n.depth))
				violating := len(v) > 0
				for b, cs := range states {
					if strings.HasPrefix(cs.site, "start:") {
						recoveryBoundaries++
					}
					cm, cowed, k, next := c01Canon(cs.m, cs.owed)
					h := vr.HashS(fmt.Sprintf("%d|%s", capacity, k))
					ctx.State(h)
					if len(cs.owed) > 0 {
						ctx.Nontrivial(h)
					}
					// invariant broken at or before this boundary: report once, do not expand
					missing := false
					bs := c01Bodies(cs.m)
					for id := range cs.owed {
						if !bs[id] {
							missing = true
						}
					}
					if missing {
						continue
					}
					hist[len(hist)-1].Crash = b
					if !drained[k] {
						drained[k] = true
						drains++
						left, _, _ := c01Drain(cm, cowed, capacity, 16)
						ctx.R.Traces++
						if len(left) > 0 {
							var ids []uint64
							for id := range left {
								ids = append(ids, id)
							}
							sort.Slice(ids, func(i, j int) bool { return ids[i] < ids[j] })
							hc := append([]c01Step(nil), hist...)
							sig := "undelivered:" + c01IndexInfo(cm, ids[0])
							ctx.Violate(sig, fmt.Sprintf("capacity=%d history=%s: request %d accepted, never handed off with a final outcome after restart+drain rounds stopped making progress", capacity, c01Hist(hc), ids[0]),
								c01Case{Start: sc0.start, Capacity: capacity, Steps: hc, Drain: true})
							ctx.Outcome("drain-left-owed")
							continue // liveness broken: do not expand
						}
						ctx.Outcome("drained-clean")
					}
					if n.depth < chain && !seen[k] && !violating && (sc0.start == 0 || n.depth < 1) {
						seen[k] = true
						if n.depth+1 > maxChain {
							maxChain = n.depth + 1
						}
						frontier = append(frontier, node{cm, cowed, next, n.depth + 1, append([]c01Step(nil), hist...)})
					}
				}
				if incarnations%97 == 1 {
					ctx.Sample(map[string]any{"capacity": capacity, "history": c01Hist(n.hist), "script": fmt.Sprint(sc), "boundaries": len(states)})
				}
			}
		}
	}
	ctx.R.Trans = boundaries
	ctx.R.Extra["incarnations"] = incarnations
	ctx.R.Extra["boundaries_in_recovery"] = recoveryBoundaries
	ctx.R.Extra["drain_checks"] = drains
	ctx.R.Extra["max_crash_chain"] = maxChain
	ctx.R.Extra["capacities"] = fmt.Sprint(caps)
}

func c01Hist(h []c01Step) string {
	var p []string
	for _, s := range h {
		x := fmt.Sprint(s.Script)
		if s.Crash >= 0 {
			x += fmt.Sprintf(" crash@%d", s.Crash)
		}
		p = append(p, x)
	}
	return strings.Join(p, " ; ")
}
