//go:build verif

package processorhelper

// C19 (processors): for every processor built with the helper, incoming = items given, outgoing = items forwarded.
// Grid: 3 signals x input items {0,1,3} x func result {same, fewer, more, skip, error}.

import (
	"context"
	"encoding/json"
	"errors"
	"fmt"
	"testing"

	"go.opentelemetry.io/otel/sdk/metric/metricdata"

	"go.opentelemetry.io/collector/component"
	"go.opentelemetry.io/collector/component/componenttest"
	"go.opentelemetry.io/collector/consumer"
	"go.opentelemetry.io/collector/pdata/plog"
	"go.opentelemetry.io/collector/pdata/pmetric"
	"go.opentelemetry.io/collector/pdata/ptrace"
	"go.opentelemetry.io/collector/processor"

	"VERIF/vr"
)

func c19pCtr(tt *componenttest.Telemetry, name string) int64 {
	m, err := tt.GetMetric(name)
	if err != nil {
		return 0
	}
	var s int64
	if d, ok := m.Data.(metricdata.Sum[int64]); ok {
		for _, dp := range d.DataPoints {
			s += dp.Value
		}
	}
	return s
}

type c19pCase struct {
	Signal string `json:"signal"`
	Items  int    `json:"items"`
	Result string `json:"result"` // same | fewer | more | skip | error
	Tracing string `json:"tracing,omitempty"`
	// NonMutating: the processor is built with WithCapabilities(MutatesData: false) - it does not touch what it is given and
	// returns a payload of its own (a filter, an aggregator): the counters follow what is forwarded all the same
	NonMutating bool `json:"declares_not_mutating,omitempty"`
}

func c19pOut(c c19pCase) int {
	switch c.Result {
	case "fewer":
		if c.Items > 0 {
			return c.Items - 1
		}
		return 0
	case "more":
		return c.Items + 2
	}
	return c.Items
}

func c19pRun(c c19pCase) (string, string) {
	tt := componenttest.NewTelemetry()
	defer func() { _ = tt.Shutdown(context.Background()) }()
	set := processor.Settings{ID: component.MustNewID("vv"), TelemetrySettings: c19Tele(tt.NewTelemetrySettings(), c.Tracing), BuildInfo: component.NewDefaultBuildInfo()}
	ctx := c19Ctx(c.Tracing)
	forwarded := -1
	var ferr error
	if c.Result == "skip" {
		ferr = ErrSkipProcessingData
	} else if c.Result == "error" {
		ferr = errors.New("processing failed")
	}
	out := c19pOut(c)
	var cerr error
	switch c.Signal {
	case "logs":
		next, _ := consumer.NewLogs(func(_ context.Context, ld plog.Logs) error { forwarded = ld.LogRecordCount(); return nil })
		p, err := NewLogs(ctx, set, &struct{}{}, next, func(_ context.Context, ld plog.Logs) (plog.Logs, error) {
			if ferr != nil {
				return ld, ferr
			}
			n := plog.NewLogs()
			sl := n.ResourceLogs().AppendEmpty().ScopeLogs().AppendEmpty()
			for i := 0; i < out; i++ {
				sl.LogRecords().AppendEmpty()
			}
			return n, nil
		}, WithCapabilities(consumer.Capabilities{MutatesData: !c.NonMutating}))
		if err != nil {
			return "construct", err.Error()
		}
		ld := plog.NewLogs()
		sl := ld.ResourceLogs().AppendEmpty().ScopeLogs().AppendEmpty()
		for i := 0; i < c.Items; i++ {
			sl.LogRecords().AppendEmpty()
		}
		cerr = p.ConsumeLogs(ctx, ld)
	case "traces":
		next, _ := consumer.NewTraces(func(_ context.Context, td ptrace.Traces) error { forwarded = td.SpanCount(); return nil })
		p, err := NewTraces(ctx, set, &struct{}{}, next, func(_ context.Context, td ptrace.Traces) (ptrace.Traces, error) {
			if ferr != nil {
				return td, ferr
			}
			n := ptrace.NewTraces()
			ss := n.ResourceSpans().AppendEmpty().ScopeSpans().AppendEmpty()
			for i := 0; i < out; i++ {
				ss.Spans().AppendEmpty()
			}
			return n, nil
		}, WithCapabilities(consumer.Capabilities{MutatesData: !c.NonMutating}))
		if err != nil {
			return "construct", err.Error()
		}
		td := ptrace.NewTraces()
		ss := td.ResourceSpans().AppendEmpty().ScopeSpans().AppendEmpty()
		for i := 0; i < c.Items; i++ {
			ss.Spans().AppendEmpty()
		}
		cerr = p.ConsumeTraces(ctx, td)
	case "metrics":
		next, _ := consumer.NewMetrics(func(_ context.Context, md pmetric.Metrics) error { forwarded = md.DataPointCount(); return nil })
		p, err := NewMetrics(ctx, set, &struct{}{}, next, func(_ context.Context, md pmetric.Metrics) (pmetric.Metrics, error) {
			if ferr != nil {
				return md, ferr
			}
			n := pmetric.NewMetrics()
			g := n.ResourceMetrics().AppendEmpty().ScopeMetrics().AppendEmpty().Metrics().AppendEmpty().SetEmptyGauge()
			for i := 0; i < out; i++ {
				g.DataPoints().AppendEmpty()
			}
			return n, nil
		}, WithCapabilities(consumer.Capabilities{MutatesData: !c.NonMutating}))
		if err != nil {
			return "construct", err.Error()
		}
		md := pmetric.NewMetrics()
		g := md.ResourceMetrics().AppendEmpty().ScopeMetrics().AppendEmpty().Metrics().AppendEmpty().SetEmptyGauge()
		for i := 0; i < c.Items; i++ {
			g.DataPoints().AppendEmpty()
		}
		cerr = p.ConsumeMetrics(ctx, md)
	}
	in, outc := c19pCtr(tt, "otelcol_processor_incoming_items"), c19pCtr(tt, "otelcol_processor_outgoing_items")
	wantOut := int64(0)
	if ferr == nil {
		wantOut = int64(out)
		if forwarded != out {
			return "processor-forwarding:" + c.Signal, fmt.Sprintf("%+v: downstream received %d items, the function returned %d", c, forwarded, out)
		}
	} else if forwarded != -1 {
		return "processor-forwarded-after-error:" + c.Signal, fmt.Sprintf("%+v: downstream was invoked although the function returned %v", c, ferr)
	}
	if c.Result == "error" && cerr == nil {
		return "processor-error-swallowed:" + c.Signal, fmt.Sprintf("%+v", c)
	}
	if in != int64(c.Items) || outc != wantOut {
		return "processor-counters:" + c.Signal, fmt.Sprintf("%+v: incoming=%d outgoing=%d, expected incoming=%d outgoing=%d", c, in, outc, c.Items, wantOut)
	}
	return "", ""
}

func TestVerif(t *testing.T) {
	ctx := vr.Start("C19", "processor")
	if ctx == nil {
		t.Skip("not driven")
	}
	defer ctx.Finish()
	if ctx.ReplayRaw != nil {
		var rf struct {
			Replay c19pCase `json:"replay"`
		}
		if err := json.Unmarshal(ctx.ReplayRaw, &rf); err != nil {
			t.Fatal(err)
		}
		sig, what := c19pRun(rf.Replay)
		if sig != "" {
			ctx.Violate(sig, what, rf.Replay)
		}
		return
	}
	for _, s := range []string{"logs", "traces", "metrics"} {
		for _, n := range []int{0, 1, 3} {
			for _, r := range []string{"same", "fewer", "more", "skip", "error"} {
			for _, tr := range c19TracingModes {
			for _, nm := range []bool{false, true} {
				if nm && tr != c19TracingModes[0] {
					continue
				}
				c := c19pCase{s, n, r, tr, nm}
				ctx.R.Evals++
				ctx.R.Trans++
				ctx.Nontrivial(vr.Hash(fmt.Sprint(c)))
				sig, what := c19pRun(c)
				if sig != "" {
					ctx.Violate(sig, what, c)
				} else {
					ctx.R.Traces++
				}
				ctx.Sample(c)
			}
			}
			}
		}
	}
	ctx.R.States = ctx.R.Evals
	ctx.Outcome("processor:balanced")
}
