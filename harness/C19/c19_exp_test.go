//go:build verif

package internal

// C19 (exporters): after shutdown, items sent + items failed-to-send + items that failed to enqueue equals the items the
// exporter was given minus those still stored in a persistent queue — regardless of batching, splitting, retries and partial
// failures. All histories of <= 3 requests x sizes {1,2,5} x backend outcome scripts <= 3 over {ok, transient, permanent,
// partial} for 7 configurations, executed on the real NewBaseExporter chain under the controlled scheduler (virtual time).

import (
	"reflect"
	"unsafe"
	"context"
	"encoding/binary"
	"encoding/json"
	"errors"
	"fmt"
	"strings"
	"testing"
	"time"

	"go.opentelemetry.io/otel/sdk/metric/metricdata"

	"go.opentelemetry.io/collector/component"
	"go.opentelemetry.io/collector/component/componenttest"
	"go.opentelemetry.io/collector/config/configretry"
	"go.opentelemetry.io/collector/consumer/consumererror"
	"go.opentelemetry.io/collector/exporter"
	"go.opentelemetry.io/collector/exporter/exporterhelper/internal/queuebatch"
	"go.opentelemetry.io/collector/exporter/exporterhelper/internal/request"
	"go.opentelemetry.io/collector/extension/xextension/storage"
	"go.opentelemetry.io/collector/pipeline"

	"VERIF/vr"
	"VERIF/vs"
)

type c19Req struct{ n int }

func (r *c19Req) ItemsCount() int { return r.n }
// c19WSizer: a size-weighted sizer (like bytes): 10 per item plus 5 per request, so that a chunk cut to fit max_size is
// usually a little BELOW it
type c19WSizer struct{}

func (c19WSizer) Sizeof(r request.Request) int64 { return int64(10*r.(*c19Req).n + 5) }

func (r *c19Req) MergeSplit(_ context.Context, max int, szt request.SizerType, r2 request.Request) ([]request.Request, error) {
	if r2 != nil {
		r.n += r2.(*c19Req).n
		r2.(*c19Req).n = 0
	}
	if max == 0 {
		return []request.Request{r}, nil
	}
	if szt == request.SizerTypeBytes {
		max = (max - 5) / 10 // items that fit one chunk under the weighted sizer
	}
	var out []request.Request
	for r.n > max {
		out = append(out, &c19Req{max})
		r.n -= max
	}
	return append(out, r), nil
}

type c19Partial struct{ rem int }

func (c19Partial) Error() string { return "partial" }
func (r *c19Req) OnError(err error) request.Request {
	var p c19Partial
	if errors.As(err, &p) {
		return &c19Req{p.rem}
	}
	return r
}

type c19Enc struct{}

func (c19Enc) Marshal(r request.Request) ([]byte, error) {
	return binary.LittleEndian.AppendUint32([]byte{0xC9}, uint32(r.(*c19Req).n)), nil
}
func (c19Enc) Unmarshal(b []byte) (request.Request, error) {
	if len(b) != 5 || b[0] != 0xC9 {
		return nil, errors.New("bad")
	}
	return &c19Req{int(binary.LittleEndian.Uint32(b[1:]))}, nil
}

type c19Store struct{ m map[string][]byte }

func (s *c19Store) Get(_ context.Context, k string) ([]byte, error) { return s.m[k], nil }
func (s *c19Store) Set(_ context.Context, k string, v []byte) error { s.m[k] = v; return nil }
func (s *c19Store) Delete(_ context.Context, k string) error       { delete(s.m, k); return nil }
func (s *c19Store) Batch(_ context.Context, ops ...*storage.Operation) error {
	for _, op := range ops {
		switch op.Type {
		case storage.Get:
			op.Value = s.m[op.Key]
		case storage.Set:
			s.m[op.Key] = op.Value
		case storage.Delete:
			delete(s.m, op.Key)
		}
	}
	return nil
}
func (s *c19Store) Close(context.Context) error { return nil }

type c19Ext struct {
	component.StartFunc
	component.ShutdownFunc
	cl storage.Client
}

func (e *c19Ext) GetClient(context.Context, component.Kind, component.ID, string) (storage.Client, error) {
	return e.cl, nil
}

type c19Host struct{ ext map[component.ID]component.Component }

func (h c19Host) GetExtensions() map[component.ID]component.Component { return h.ext }

func c19Counter(tt *componenttest.Telemetry, name string) int64 {
	m, err := tt.GetMetric(name)
	if err != nil {
		return 0
	}
	var s int64
	switch d := m.Data.(type) {
	case metricdata.Sum[int64]:
		for _, dp := range d.DataPoints {
			s += dp.Value
		}
	case metricdata.Gauge[int64]:
		for _, dp := range d.DataPoints {
			s += dp.Value
		}
	}
	return s
}

// c19QueueSize reads Size() of the queue inside the QueueBatch sender (unexported field of another package)
func c19QueueSize(qs any) (int64, bool) {
	v := reflect.ValueOf(qs)
	if v.Kind() != reflect.Ptr || v.IsNil() {
		return 0, false
	}
	f := v.Elem().FieldByName("queue")
	if !f.IsValid() {
		return 0, false
	}
	q, ok := reflect.NewAt(f.Type(), unsafe.Pointer(f.UnsafeAddr())).Elem().Interface().(interface{ Size() int64 })
	if !ok {
		return 0, false
	}
	return q.Size(), true
}

type c19Case struct {
	Signal string   `json:"signal,omitempty"` // "" = logs | traces | metrics
	Config string   `json:"config"`
	Sizes  []int    `json:"request_sizes"`
	Script []string `json:"backend_outcomes"`
}

func c19Sig(s string) pipeline.Signal {
	switch s {
	case "traces":
		return pipeline.SignalTraces
	case "metrics":
		return pipeline.SignalMetrics
	}
	return pipeline.SignalLogs
}

func c19Unit(s string) string {
	switch s {
	case "traces":
		return "spans"
	case "metrics":
		return "metric_points"
	}
	return "log_records"
}

type c19Obs struct {
	given, sent, failed, enq, stored int64
	capGauge, sizeGauge              int64
	calls                            int
	lastOutcomeShutdownInterrupted   bool
	finished                         bool
	violations                       []string
}

func c19Body(c *c19Case, o *c19Obs) func() {
	return func() {
		*o = c19Obs{}
		tt := componenttest.NewTelemetry()
		set := exporter.Settings{ID: component.MustNewID("x"), TelemetrySettings: tt.NewTelemetrySettings(), BuildInfo: component.NewDefaultBuildInfo()}
		backend := func(_ context.Context, r request.Request) error {
			if vs.Killed() {
				return nil
			}
			out := "ok"
			if o.calls < len(c.Script) {
				out = c.Script[o.calls]
			}
			o.calls++
			items := r.ItemsCount()
			switch out {
			case "transient":
				return errors.New("transient")
			case "permanent":
				return consumererror.NewPermanent(errors.New("perm"))
			case "partial":
				if items > 1 {
					return c19Partial{items - 1}
				}
				return errors.New("transient")
			}
			return nil
		}
		store := &c19Store{m: map[string][]byte{}}
		stID := component.MustNewID("st")
		opts := []Option{WithTimeout(TimeoutConfig{})}
		retry := strings.Contains(c.Config, "retry")
		if retry {
			opts = append(opts, WithRetry(configretry.BackOffConfig{Enabled: true, InitialInterval: time.Second, Multiplier: 1, MaxInterval: time.Second, MaxElapsedTime: 0}))
		}
		var capacity int64
		if !strings.HasPrefix(c.Config, "noqueue") {
			qc := queuebatch.Config{Enabled: true, NumConsumers: 1, QueueSize: 10, Sizer: request.SizerTypeRequests}
			switch {
			case strings.HasPrefix(c.Config, "queue1"):
				qc.QueueSize = 1
			case strings.HasPrefix(c.Config, "queue+wbatch"):
				// size-weighted sizer, min_size just below max_size: a chunk of 3 items weighs 35
				qc.QueueSize, qc.Sizer = 1000, request.SizerTypeBytes
				qc.Batch = &queuebatch.BatchConfig{FlushTimeout: time.Hour, MinSize: 38, MaxSize: 39}
			case strings.HasPrefix(c.Config, "queue+bigbatch"):
				// batches may be larger than the whole queue (max_size > queue_size): the queue's capacity is what was configured
				qc.QueueSize, qc.Sizer = 4, request.SizerTypeItems
				qc.Batch = &queuebatch.BatchConfig{FlushTimeout: time.Hour, MinSize: 2, MaxSize: 7}
			case strings.HasPrefix(c.Config, "queue+batch"):
				qc.QueueSize, qc.Sizer = 100, request.SizerTypeItems
				qc.Batch = &queuebatch.BatchConfig{FlushTimeout: time.Hour, MinSize: 2, MaxSize: 3}
			case strings.HasPrefix(c.Config, "persistent"):
				qc.StorageID = &stID
			}
			capacity = qc.QueueSize
			opts = append(opts, WithQueueBatch(qc, QueueBatchSettings[request.Request]{Encoding: c19Enc{}, Sizers: map[request.SizerType]request.Sizer[request.Request]{
				request.SizerTypeRequests: request.RequestsSizer[request.Request]{}, request.SizerTypeItems: request.NewItemsSizer(),
				request.SizerTypeBytes: c19WSizer{}}}))
		}
		be, err := NewBaseExporter(set, c19Sig(c.Signal), backend, opts...)
		if err != nil {
			panic(err)
		}
		host := c19Host{ext: map[component.ID]component.Component{stID: &c19Ext{cl: store}}}
		if err := be.Start(context.Background(), host); err != nil {
			panic(err)
		}
		done := false
		vs.StartClock(func() bool { return done })
		sendCtx := context.Background()
		if strings.Contains(c.Config, "cancelled-caller") {
			// the caller has already given up (its context is done) when it hands the data over: whatever the queue does with
			// it, the items are the exporter's and must be booked somewhere
			cc, cancel := context.WithCancel(context.Background())
			cancel()
			sendCtx = cc
		}
		for _, sz := range c.Sizes {
			o.given += int64(sz)
			_ = be.Send(sendCtx, &c19Req{sz})
		}
		if capacity > 0 {
			o.capGauge = c19Counter(tt, "otelcol_exporter_queue_capacity")
			if o.capGauge != capacity {
				o.violations = append(o.violations, fmt.Sprintf("queue capacity gauge reports %d, configured capacity is %d", o.capGauge, capacity))
			}
			// the size gauge against the queue's own Size() (Size() itself is C02's subject). The two cannot be read at the same
			// instant under the scheduler, but after the last send the size only goes down, so gauge, Size(), gauge read in
			// this order must be non-increasing
			g1 := c19Counter(tt, "otelcol_exporter_queue_size")
			if sz, ok := c19QueueSize(be.QueueSender); ok {
				if g2 := c19Counter(tt, "otelcol_exporter_queue_size"); !(g1 >= sz && sz >= g2) {
					o.violations = append(o.violations, fmt.Sprintf("queue size gauge reports %d, then the queue's size is %d, then the gauge reports %d (the size only decreases after the last send)", g1, sz, g2))
				}
			} else {
				o.violations = append(o.violations, "harness: queue not reachable")
			}
		}
		// let the consumers work (a retry wait of 1 virtual second may be pending when shutdown arrives: by design of the
		// history the shutdown comes 500ms after the last send)
		vs.Sleep(500 * time.Millisecond)
		_ = be.Shutdown(context.Background())
		done = true
		unit := c19Unit(c.Signal)
		o.sent = c19Counter(tt, "otelcol_exporter_sent_"+unit)
		o.failed = c19Counter(tt, "otelcol_exporter_send_failed_"+unit)
		o.enq = c19Counter(tt, "otelcol_exporter_enqueue_failed_"+unit)
		// nothing may be booked under another signal's counters
		for _, other := range []string{"log_records", "spans", "metric_points"} {
			if other == unit {
				continue
			}
			if n := c19Counter(tt, "otelcol_exporter_sent_"+other) + c19Counter(tt, "otelcol_exporter_send_failed_"+other) + c19Counter(tt, "otelcol_exporter_enqueue_failed_"+other); n != 0 {
				o.violations = append(o.violations, fmt.Sprintf("%d items booked under the %s counters by a %s exporter", n, other, unit))
			}
		}
		for k, v := range store.m {
			if k != "" && k[0] >= '0' && k[0] <= '9' {
				if r, err := (c19Enc{}).Unmarshal(v); err == nil {
					o.stored += int64(r.ItemsCount())
				}
			}
		}
		_ = tt.Shutdown(context.Background())
		o.finished = true
	}
}

func c19Verdict(c *c19Case, o *c19Obs, s *vs.Sched) (string, string) {
	if v := s.Verdict(); v != "" {
		return "engine:" + strings.SplitN(v, ":", 2)[0], fmt.Sprintf("%+v: %s\n%s", *c, v, s.PanicStack)
	}
	if !o.finished {
		return "unfinished", fmt.Sprintf("%+v", *c)
	}
	if len(o.violations) > 0 {
		return "exporter-telemetry", fmt.Sprintf("%+v: %v", *c, o.violations)
	}
	if o.sent+o.failed+o.enq != o.given-o.stored {
		desc := fmt.Sprintf("%+v: given=%d sent=%d send_failed=%d enqueue_failed=%d still-stored=%d backend-calls=%d", *c, o.given, o.sent, o.failed, o.enq, o.stored, o.calls)
		if excess := o.sent + o.failed + o.enq - (o.given - o.stored); strings.HasPrefix(c.Config, "persistent") && excess > 0 && excess <= o.failed && excess <= o.stored {
			// the excess is explained by still-stored items that are ALSO booked as send_failed (shutdown-interrupted attempt)
			return "exporter-imbalance:persistent-queue:stored-request-also-booked-as-send-failed", desc
		}
		return "exporter-imbalance:" + strings.SplitN(c.Config, "+", 2)[0], desc
	}
	return "", ""
}

type c19Replay struct {
	Case    *c19Case `json:"case"`
	Choices []int    `json:"choices"`
}

func TestVerifC19(t *testing.T) {
	ctx := vr.Start("C19", "exporter")
	if ctx == nil {
		t.Skip("not driven")
	}
	defer ctx.Finish()
	if ctx.ReplayRaw != nil {
		var rf struct {
			Replay c19Replay `json:"replay"`
		}
		if err := json.Unmarshal(ctx.ReplayRaw, &rf); err != nil {
			t.Fatal(err)
		}
		var o c19Obs
		s := vs.Run(rf.Replay.Choices, c19Body(rf.Replay.Case, &o))
		sig, what := c19Verdict(rf.Replay.Case, &o, s)
		t.Logf("%s %s", sig, what)
		if sig != "" {
			ctx.Violate(sig, what, rf.Replay)
		}
		return
	}
	outAlpha := []string{"ok", "transient", "permanent", "partial"}
	configs := []string{"noqueue", "noqueue+retry", "queue10", "queue1+retry", "queue1+cancelled-caller", "queue+batch", "queue+batch+retry", "queue+wbatch", "queue+bigbatch", "persistent+retry"}
	sizes := []int{1, 2, 5}
	bound := ctx.Param("bound", 0)
	maxReq := ctx.Param("requests", 2)
	var sizeSeqs [][]int
	var recS func(cur []int)
	recS = func(cur []int) {
		if len(cur) > 0 {
			sizeSeqs = append(sizeSeqs, append([]int(nil), cur...))
		}
		if len(cur) == maxReq {
			return
		}
		for _, s := range sizes {
			recS(append(cur, s))
		}
	}
	recS(nil)
	var scripts [][]string
	var recO func(cur []string)
	recO = func(cur []string) {
		scripts = append(scripts, append([]string(nil), cur...))
		if len(cur) == 3 {
			return
		}
		for _, o := range outAlpha {
			if o == "ok" && len(cur) == 2 {
				continue // trailing "ok" is the default answer
			}
			recO(append(cur, o))
		}
	}
	recO(nil)
	var n, nodes int64
	for _, signal := range []string{"", "traces", "metrics"} {
	for _, cf := range configs {
		for _, ss := range sizeSeqs {
			if signal != "" && len(ss) > 1 {
				continue // the other signals: single-request histories (the per-signal code is the counter selection)
			}
			for _, sc := range scripts {
				n++
				if !ctx.Mine(n) {
					continue
				}
				if n%16 == 0 && ctx.Expired() {
					return
				}
				c := &c19Case{signal, cf, ss, sc}
				ctx.Nontrivial(vr.Hash(fmt.Sprint(*c)))
				var o c19Obs
				st := vs.Explore(vs.Opts{Bound: bound, Shards: 1, Expired: ctx.Expired, MaxExecs: int64(ctx.Param("max_execs", 0))}, c19Body(c, &o), func(s *vs.Sched, owned bool) bool {
					sig, what := c19Verdict(c, &o, s)
					ctx.R.Evals++
					if sig != "" {
						ctx.Violate(sig, what, c19Replay{c, s.Choices()})
						ctx.Outcome(cf + ":" + strings.SplitN(sig, ":", 2)[0])
					} else {
						ctx.R.Traces++
						ctx.Outcome(fmt.Sprintf("%s:balanced:enq>0=%v,failed>0=%v,stored>0=%v", cf, o.enq > 0, o.failed > 0, o.stored > 0))
					}
					if ctx.R.Evals%997 == 3 {
						ctx.Sample(map[string]any{"case": c, "given": o.given, "sent": o.sent, "send_failed": o.failed, "enqueue_failed": o.enq, "stored": o.stored})
					}
					return sig == ""
				})
				for _, x := range st.Infra {
					ctx.Infra("%+v: %s", *c, x)
				}
				if st.Capped {
					ctx.Cap("per-history execution cap")
				}
				ctx.R.Trans += st.Steps
				nodes += st.Nodes
			}
		}
	}
	}
	ctx.R.States = nodes
}
