//go:build verif

package receiverhelper

// C19 (receivers): accepted + refused, recorded under the counters of the operation's OWN signal, equals the items offered;
// which of the two is non-zero follows the downstream result. All op sequences up to length 3 over 3 signals x item counts
// {0,1,3} x results {nil, error, permanent error}, read from an in-memory metric reader.

import (
	"context"
	"encoding/json"
	"errors"
	"fmt"
	"testing"

	"go.opentelemetry.io/otel/sdk/metric/metricdata"

	"go.opentelemetry.io/collector/component"
	"go.opentelemetry.io/collector/component/componenttest"
	"go.opentelemetry.io/collector/receiver"

	"VERIF/vr"
)

func c19Ctr(tt *componenttest.Telemetry, name string) int64 {
	m, err := tt.GetMetric(name)
	if err != nil {
		return 0
	}
	var s int64
	if d, ok := m.Data.(metricdata.Sum[int64]); ok {
		for _, dp := range d.DataPoints {
			s += dp.Value
		}
	}
	return s
}

type c19rOp struct {
	Signal string `json:"signal"`
	Items  int    `json:"items"`
	Result string `json:"result"` // ok | error | permanent
	// Tracing: tracing mode of the whole run (taken from the first operation), see c19_tracing_test.go
	Tracing string `json:"tracing,omitempty"`
}

var c19Names = map[string][2]string{
	"traces":  {"otelcol_receiver_accepted_spans", "otelcol_receiver_refused_spans"},
	"metrics": {"otelcol_receiver_accepted_metric_points", "otelcol_receiver_refused_metric_points"},
	"logs":    {"otelcol_receiver_accepted_log_records", "otelcol_receiver_refused_log_records"},
}

func c19rRun(ops []c19rOp) (string, string) {
	tt := componenttest.NewTelemetry()
	defer func() { _ = tt.Shutdown(context.Background()) }()
	mode := ""
	if len(ops) > 0 {
		mode = ops[0].Tracing
	}
	set := receiver.Settings{ID: component.MustNewID("vv"), TelemetrySettings: c19Tele(tt.NewTelemetrySettings(), mode), BuildInfo: component.NewDefaultBuildInfo()}
	rec, err := NewObsReport(ObsReportSettings{ReceiverID: set.ID, Transport: "tr", ReceiverCreateSettings: set})
	if err != nil {
		return "construct", err.Error()
	}
	want := map[string][2]int64{}
	for _, o := range ops {
		var e error
		switch o.Result {
		case "error":
			e = errors.New("downstream failed")
		case "permanent":
			e = fmt.Errorf("wrapped: %w", errors.New("downstream permanent"))
		}
		ctx := c19Ctx(mode)
		w := want[o.Signal]
		if e == nil {
			w[0] += int64(o.Items)
		} else {
			w[1] += int64(o.Items)
		}
		want[o.Signal] = w
		switch o.Signal {
		case "traces":
			rec.EndTracesOp(rec.StartTracesOp(ctx), "f", o.Items, e)
		case "metrics":
			rec.EndMetricsOp(rec.StartMetricsOp(ctx), "f", o.Items, e)
		case "logs":
			rec.EndLogsOp(rec.StartLogsOp(ctx), "f", o.Items, e)
		}
	}
	for sig, names := range c19Names {
		got := [2]int64{c19Ctr(tt, names[0]), c19Ctr(tt, names[1])}
		if got != want[sig] {
			return "receiver-counters:" + sig, fmt.Sprintf("ops %v: %s accepted/refused = %v, expected %v", ops, sig, got, want[sig])
		}
	}
	return "", ""
}

func TestVerif(t *testing.T) {
	ctx := vr.Start("C19", "receiver")
	if ctx == nil {
		t.Skip("not driven")
	}
	defer ctx.Finish()
	if ctx.ReplayRaw != nil {
		var rf struct {
			Replay []c19rOp `json:"replay"`
		}
		if err := json.Unmarshal(ctx.ReplayRaw, &rf); err != nil {
			t.Fatal(err)
		}
		sig, what := c19rRun(rf.Replay)
		if sig != "" {
			ctx.Violate(sig, what, rf.Replay)
		}
		return
	}
	var alpha []c19rOp
	for _, s := range []string{"traces", "metrics", "logs"} {
		for _, n := range []int{0, 1, 3} {
			for _, r := range []string{"ok", "error", "permanent"} {
				alpha = append(alpha, c19rOp{Signal: s, Items: n, Result: r})
			}
		}
	}
	depth := ctx.Param("depth", 2)
	var rec func(seq []c19rOp, d int)
	rec = func(seq []c19rOp, d int) {
		if len(seq) > 0 {
			ctx.R.Evals++
			ctx.R.Trans += int64(len(seq))
			ctx.Nontrivial(vr.Hash(fmt.Sprint(seq)))
			sig, what := c19rRun(seq)
			if sig != "" {
				ctx.Violate(sig, what, append([]c19rOp(nil), seq...))
				return
			}
			ctx.R.Traces++
			if ctx.R.Evals%301 == 1 {
				ctx.Sample(append([]c19rOp(nil), seq...))
			}
		}
		if d == 0 {
			return
		}
		for _, a := range alpha {
			rec(append(seq, a), d-1)
		}
	}
	rec(nil, depth)
	// the tracing dimension: every single operation under the other tracing modes
	for _, mode := range c19TracingModes[1:] {
		for _, a := range alpha {
			a.Tracing = mode
			rec([]c19rOp{a}, 0)
		}
	}
	ctx.R.States = ctx.R.Evals
	ctx.Outcome("receiver:balanced")
}
