//go:build verif

package scraperhelper

// C19 (scrapers): for every scrape operation accepted + refused, under the counters of the operation's own signal, equals the
// items scraped; which of the two is non-zero follows the downstream result. Grid: {logs, metrics} controllers x items
// {0,1,3} x downstream {ok, error} x scraper result {ok, partial error, failure}.

import (
	"strings"
	"context"
	"encoding/json"
	"errors"
	"fmt"
	"testing"

	"go.opentelemetry.io/otel/sdk/metric/metricdata"

	"go.opentelemetry.io/collector/component"
	"go.opentelemetry.io/collector/component/componenttest"
	"go.opentelemetry.io/collector/consumer"
	"go.opentelemetry.io/collector/pdata/plog"
	"go.opentelemetry.io/collector/pdata/pmetric"
	"go.opentelemetry.io/collector/receiver"
	"go.opentelemetry.io/collector/scraper"
	"go.opentelemetry.io/collector/scraper/scrapererror"

	"VERIF/vr"
)

func c19sCtr(tt *componenttest.Telemetry, name string) int64 {
	m, err := tt.GetMetric(name)
	if err != nil {
		return 0
	}
	var s int64
	if d, ok := m.Data.(metricdata.Sum[int64]); ok {
		for _, dp := range d.DataPoints {
			s += dp.Value
		}
	}
	return s
}

type c19sCase struct {
	Signal  string `json:"signal"`
	Items   int    `json:"items"`
	Down    string `json:"downstream"` // ok | error
	Takes   bool   `json:"downstream_takes_the_data,omitempty"` // the next consumer declares MutatesData and moves the data away
	Scraper string `json:"scraper"`    // ok | partial | partial-wrapped | partial-joined | partial-wrapped-twice | fail
	Tracing string `json:"tracing,omitempty"`
}

// the scraper's own counters (scraped / errored) of the last c19sRun
var c19sScraperCtr [2]int64

func c19sRun(c c19sCase) (string, string) {
	sig, what := c19sRun1(c)
	if sig != "" || !strings.HasPrefix(c.Scraper, "partial-") {
		return sig, what
	}
	// however a partial scrape error is wrapped, the same thing happened: the scraper's own counters are those of the bare error
	got := c19sScraperCtr
	bare := c
	bare.Scraper = "partial"
	if s2, w2 := c19sRun1(bare); s2 != "" {
		return s2, w2
	}
	if got != c19sScraperCtr {
		return "scraper-own-counters-depend-on-error-wrapping:" + c.Signal, fmt.Sprintf("%+v: scraped/errored=%v, with the bare partial error %v", c, got, c19sScraperCtr)
	}
	return "", ""
}

func c19sRun1(c c19sCase) (string, string) {
	tt := componenttest.NewTelemetry()
	defer func() { _ = tt.Shutdown(context.Background()) }()
	typ := component.MustNewType("vv")
	set := receiver.Settings{ID: component.NewID(typ), TelemetrySettings: c19Tele(tt.NewTelemetrySettings(), c.Tracing), BuildInfo: component.NewDefaultBuildInfo()}
	var downErr error
	if c.Down == "error" {
		downErr = errors.New("refused")
	}
	var serr error
	switch c.Scraper {
	case "partial":
		serr = scrapererror.NewPartialScrapeError(errors.New("partial"), 1)
	case "partial-wrapped":
		serr = fmt.Errorf("scraping x: %w", scrapererror.NewPartialScrapeError(errors.New("partial"), 1))
	case "partial-wrapped-twice":
		serr = fmt.Errorf("outer: %w", fmt.Errorf("scraping x: %w", scrapererror.NewPartialScrapeError(errors.New("partial"), 1)))
	case "partial-joined":
		serr = errors.Join(errors.New("another source failed"), scrapererror.NewPartialScrapeError(errors.New("partial"), 1))
	case "fail":
		serr = errors.New("scrape failed")
	}
	offered := c.Items
	if c.Scraper == "fail" {
		offered = 0 // nothing was scraped, nothing is offered downstream
	}
	if c.Signal == "logs" {
		sf := scraper.NewFactory(typ, func() component.Config { return &struct{}{} },
			scraper.WithLogs(func(context.Context, scraper.Settings, component.Config) (scraper.Logs, error) {
				return scraper.NewLogs(func(context.Context) (plog.Logs, error) {
					ld := plog.NewLogs()
					sl := ld.ResourceLogs().AppendEmpty().ScopeLogs().AppendEmpty()
					for i := 0; i < c.Items; i++ {
						sl.LogRecords().AppendEmpty()
					}
					if c.Scraper == "fail" {
						return plog.NewLogs(), serr
					}
					return ld, serr
				})
			}, component.StabilityLevelStable))
		next, _ := consumer.NewLogs(func(_ context.Context, ld plog.Logs) error {
			if c.Takes {
				ld.ResourceLogs().MoveAndAppendTo(plog.NewLogs().ResourceLogs())
			}
			return downErr
		}, consumer.WithCapabilities(consumer.Capabilities{MutatesData: c.Takes}))
		r, err := NewLogsController(&ControllerConfig{CollectionInterval: 1e9}, set, next, AddFactoryWithConfig(sf, &struct{}{}))
		if err != nil {
			return "construct", err.Error()
		}
		scrapeLogs(r.(*controller[scraper.Logs]), next)
	} else {
		sf := scraper.NewFactory(typ, func() component.Config { return &struct{}{} },
			scraper.WithMetrics(func(context.Context, scraper.Settings, component.Config) (scraper.Metrics, error) {
				return scraper.NewMetrics(func(context.Context) (pmetric.Metrics, error) {
					md := pmetric.NewMetrics()
					g := md.ResourceMetrics().AppendEmpty().ScopeMetrics().AppendEmpty().Metrics().AppendEmpty().SetEmptyGauge()
					for i := 0; i < c.Items; i++ {
						g.DataPoints().AppendEmpty()
					}
					if c.Scraper == "fail" {
						return pmetric.NewMetrics(), serr
					}
					return md, serr
				})
			}, component.StabilityLevelStable))
		next, _ := consumer.NewMetrics(func(_ context.Context, md pmetric.Metrics) error {
			if c.Takes {
				md.ResourceMetrics().MoveAndAppendTo(pmetric.NewMetrics().ResourceMetrics())
			}
			return downErr
		}, consumer.WithCapabilities(consumer.Capabilities{MutatesData: c.Takes}))
		r, err := NewMetricsController(&ControllerConfig{CollectionInterval: 1e9}, set, next, AddFactoryWithConfig(sf, &struct{}{}))
		if err != nil {
			return "construct", err.Error()
		}
		scrapeMetrics(r.(*controller[scraper.Metrics]), next)
	}
	got := map[string][2]int64{
		"logs":    {c19sCtr(tt, "otelcol_receiver_accepted_log_records"), c19sCtr(tt, "otelcol_receiver_refused_log_records")},
		"metrics": {c19sCtr(tt, "otelcol_receiver_accepted_metric_points"), c19sCtr(tt, "otelcol_receiver_refused_metric_points")},
	}
	c19sScraperCtr = [2]int64{c19sCtr(tt, "otelcol_scraper_scraped_"+map[string]string{"logs": "log_records", "metrics": "metric_points"}[c.Signal]),
		c19sCtr(tt, "otelcol_scraper_errored_"+map[string]string{"logs": "log_records", "metrics": "metric_points"}[c.Signal])}
	want := map[string][2]int64{"logs": {}, "metrics": {}}
	if downErr == nil {
		want[c.Signal] = [2]int64{int64(offered), 0}
	} else {
		want[c.Signal] = [2]int64{0, int64(offered)}
	}
	other := "metrics"
	if c.Signal == "metrics" {
		other = "logs"
	}
	if got[other] != [2]int64{} {
		return "scraper-items-booked-under-other-signal:" + c.Signal, fmt.Sprintf("%+v: %s counters accepted/refused=%v, %s counters=%v", c, c.Signal, got[c.Signal], other, got[other])
	}
	if got[c.Signal] != want[c.Signal] {
		return "scraper-counters:" + c.Signal, fmt.Sprintf("%+v: accepted/refused=%v expected %v", c, got[c.Signal], want[c.Signal])
	}
	return "", ""
}

func TestVerif(t *testing.T) {
	ctx := vr.Start("C19", "scraper")
	if ctx == nil {
		t.Skip("not driven")
	}
	defer ctx.Finish()
	if ctx.ReplayRaw != nil {
		var rf struct {
			Replay c19sCase `json:"replay"`
		}
		if err := json.Unmarshal(ctx.ReplayRaw, &rf); err != nil {
			t.Fatal(err)
		}
		sig, what := c19sRun(rf.Replay)
		if sig != "" {
			ctx.Violate(sig, what, rf.Replay)
		}
		return
	}
	for _, s := range []string{"logs", "metrics"} {
		for _, n := range []int{0, 1, 3} {
			for _, d := range []string{"ok", "error"} {
				for _, sc := range []string{"ok", "partial", "partial-wrapped", "partial-wrapped-twice", "partial-joined", "fail"} {
				for _, takes := range []bool{false, true} {
				for _, tr := range c19TracingModes[:2] { // the scrape context is the controller's own: no remote parent
					c := c19sCase{Signal: s, Items: n, Down: d, Takes: takes, Scraper: sc, Tracing: tr}
					ctx.R.Evals++
					ctx.R.Trans++
					ctx.Nontrivial(vr.Hash(fmt.Sprint(c)))
					sig, what := c19sRun(c)
					if sig != "" {
						ctx.Violate(sig, what, c)
					} else {
						ctx.R.Traces++
					}
					ctx.Sample(c)
				}
				}
				}
			}
		}
	}
	ctx.R.States = ctx.R.Evals
	ctx.Outcome("scraper:checked")
}
