//go:build verif

package VERIFPKG

// C19 - the tracing dimension: item counters must balance whatever the tracing configuration is. "recording" is the SDK
// tracer of componenttest (every span records); "noop" is a no-op tracer provider (service::telemetry::traces::level none);
// "unsampled" keeps the SDK tracer but the caller's context carries a remote parent span that is not sampled, so the
// operation's own span does not record.

import (
	"context"

	"go.opentelemetry.io/otel/trace"
	"go.opentelemetry.io/otel/trace/noop"

	"go.opentelemetry.io/collector/component"
)

var c19TracingModes = []string{"recording", "noop", "unsampled"}

func c19Tele(ts component.TelemetrySettings, mode string) component.TelemetrySettings {
	if mode == "noop" {
		ts.TracerProvider = noop.NewTracerProvider()
	}
	return ts
}

func c19Ctx(mode string) context.Context {
	ctx := context.Background()
	if mode == "unsampled" {
		ctx = trace.ContextWithRemoteSpanContext(ctx, trace.NewSpanContext(trace.SpanContextConfig{
			TraceID: trace.TraceID{1}, SpanID: trace.SpanID{2}, TraceFlags: 0, Remote: true}))
	}
	return ctx
}
