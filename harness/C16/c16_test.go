//go:build verif

package confighttp

// C16 — HTTP body compression round-trips and the decompressed-size limit holds.
// Finite grid, enumerated completely over loopback: algorithm x level x max_request_body_size x enabled-decoder list x body
// (all byte strings of length <= 2 over {00,01,ff}; boundary lengths around the limit and codec block sizes x 3 content
// classes; a hand-made bomb per algorithm), real ClientConfig.ToClient -> real ServerConfig.ToServer handler chain.

import (
	"testing/iotest"
	"bytes"
	"compress/gzip"
	"compress/zlib"
	"context"
	"encoding/json"
	"fmt"
	"io"
	"net/http"
	"net/http/httptest"
	"strings"
	"testing"

	"github.com/golang/snappy"
	"github.com/klauspost/compress/zstd"
	"github.com/pierrec/lz4/v4"

	"go.opentelemetry.io/collector/component/componenttest"
	"go.opentelemetry.io/collector/config/configcompression"

	"VERIF/vr"
)

func c16Body(kind string, n int) []byte {
	b := make([]byte, n)
	switch kind {
	case "zeros":
	case "noise":
		x := uint32(12345)
		for i := range b {
			x = x*1664525 + 1013904223
			b[i] = byte(x >> 24)
		}
	case "pattern":
		for i := range b {
			b[i] = "abcdefg"[i%7]
		}
	}
	return b
}

type c16Case struct {
	Alg      string   `json:"algorithm"`
	Level    int      `json:"level"`
	Limit    int64    `json:"max_request_body_size"`
	Enabled  []string `json:"enabled"` // nil = default list
	EnabledN string   `json:"enabled_name"`
	Kind     string   `json:"content"` // zeros | noise | pattern | literal | bomb
	Size     int      `json:"size"`
	Literal  []byte   `json:"literal,omitempty"`
	// Chunked: the client hands over a reader of unknown length, so the request is sent with chunked transfer encoding and
	// the server sees ContentLength == -1
	Chunked bool `json:"unknown_length,omitempty"`
	// Header: the Content-Encoding value actually sent (another spelling of Alg's name), by a raw client
	Header string `json:"content_encoding_header,omitempty"`
	// Reader: how the request body hands out its bytes (the io.Reader contract leaves room): "" plain; "data-with-eof"
	// returns the last bytes TOGETHER with io.EOF; "one-byte" one byte per call; "half" about half of what is asked for
	Reader string `json:"body_reader,omitempty"`
}

var c16Default = []string{"", "gzip", "zstd", "zlib", "snappy", "deflate", "lz4"} // documented default of compression_algorithms

// hand-made bomb: `size` zero bytes compressed with the algorithm, sent with a raw client (no client-side middleware)
func c16Compress(alg string, in []byte) []byte {
	var buf bytes.Buffer
	switch alg {
	case "gzip":
		w := gzip.NewWriter(&buf)
		w.Write(in)
		w.Close()
	case "zlib", "deflate":
		w := zlib.NewWriter(&buf)
		w.Write(in)
		w.Close()
	case "zstd":
		w, _ := zstd.NewWriter(&buf)
		w.Write(in)
		w.Close()
	case "snappy":
		w := snappy.NewBufferedWriter(&buf)
		w.Write(in)
		w.Close()
	case "lz4":
		w := lz4.NewWriter(&buf)
		w.Write(in)
		w.Close()
	}
	return buf.Bytes()
}

type c16Env struct {
	ts, raw     *httptest.Server
	calls       int
	read        []byte
	readErr     error
	rawLen      int64
	limit       int64
}

func c16NewEnv(limit int64, enabled []string) (*c16Env, error) {
	e := &c16Env{limit: limit}
	h := http.HandlerFunc(func(w http.ResponseWriter, r *http.Request) {
		e.calls++
		// the handler tries to read without bound: the middleware must cap it
		e.read, e.readErr = io.ReadAll(r.Body)
		if e.readErr != nil {
			w.WriteHeader(http.StatusRequestEntityTooLarge)
		}
	})
	sc := NewDefaultServerConfig()
	sc.Endpoint = "localhost:0"
	sc.MaxRequestBodySize = limit
	sc.CompressionAlgorithms = enabled
	srv, err := sc.ToServer(context.Background(), componenttest.NewNopHost(), componenttest.NewNopTelemetrySettings(), h)
	if err != nil {
		return nil, err
	}
	e.ts = httptest.NewServer(srv.Handler)
	e.raw = httptest.NewServer(http.HandlerFunc(func(w http.ResponseWriter, r *http.Request) { // measures the wire size
		n, _ := io.Copy(io.Discard, r.Body)
		e.rawLen = n
	}))
	return e, nil
}

func (e *c16Env) close() { e.ts.Close(); e.raw.Close() }

var c16Clients = map[string]*http.Client{}

func c16Client(alg string, level int) (*http.Client, error) {
	k := fmt.Sprintf("%s/%d", alg, level)
	if c, ok := c16Clients[k]; ok {
		return c, nil
	}
	cc := NewDefaultClientConfig()
	cc.Compression = configcompression.Type(alg)
	cc.CompressionParams = configcompression.CompressionParams{Level: configcompression.Level(level)}
	if err := cc.Validate(); err != nil {
		return nil, err
	}
	cl, err := cc.ToClient(context.Background(), componenttest.NewNopHost(), componenttest.NewNopTelemetrySettings())
	if err != nil {
		return nil, err
	}
	c16Clients[k] = cl
	return cl, nil
}

type c16Capture struct {
	first, again []byte
	hasGetBody   bool
	clen         int64
	err          error
}

func (cp *c16Capture) RoundTrip(r *http.Request) (*http.Response, error) {
	cp.clen = r.ContentLength
	if r.Body != nil {
		cp.first, cp.err = io.ReadAll(r.Body)
		r.Body.Close()
	}
	if r.GetBody != nil {
		cp.hasGetBody = true
		rc, err := r.GetBody()
		if err != nil {
			cp.err = err
		} else {
			cp.again, cp.err = io.ReadAll(rc)
			rc.Close()
		}
	}
	return &http.Response{StatusCode: 200, Body: http.NoBody, Header: http.Header{}, Request: r}, nil
}

// c16Replay drives the real compressing round tripper with a capturing inner transport.
func c16Replay(c c16Case, in []byte, body io.Reader) (string, string) {
	cp := &c16Capture{}
	crt, err := newCompressRoundTripper(cp, configcompression.Type(c.Alg), configcompression.CompressionParams{Level: configcompression.Level(c.Level)})
	if err != nil {
		return "", ""
	}
	req, err := http.NewRequest(http.MethodPost, "http://localhost/", body)
	if err != nil {
		return "", ""
	}
	resp, err := crt.RoundTrip(req)
	if err != nil {
		return "client-error:replay", err.Error()
	}
	resp.Body.Close()
	if cp.err != nil {
		return "client-error:replay", cp.err.Error()
	}
	if cp.clen >= 0 && cp.clen != int64(len(cp.first)) {
		return "content-length-differs-from-body", fmt.Sprintf("Content-Length %d, body on the wire %d bytes", cp.clen, len(cp.first))
	}
	if cp.hasGetBody && !bytes.Equal(cp.first, cp.again) {
		return "replayed-body-differs", fmt.Sprintf("the first attempt puts %d bytes on the wire, a replay through GetBody %d different bytes (same as the uncompressed input: %v)", len(cp.first), len(cp.again), bytes.Equal(cp.again, in))
	}
	return "", ""
}

func c16Overlap(alg string) (string, string) {
	cl, err := c16Client(alg, 0)
	if err != nil {
		return "", ""
	}
	outer, inner := c16Body("pattern", 6000), c16Body("noise", 5000)
	var gotOuter, gotInner, gotWarm []byte
	var errOuter, errInner error
	var url string
	h := http.HandlerFunc(func(w http.ResponseWriter, r *http.Request) {
		defer r.Body.Close() // a well-behaved handler closes the body it was given
		switch r.Header.Get("X-Role") {
		case "outer":
			head := make([]byte, 100)
			n, e1 := io.ReadFull(r.Body, head)
			req, _ := http.NewRequest(http.MethodPost, url, bytes.NewReader(inner))
			req.Header.Set("X-Role", "inner")
			if resp, e2 := cl.Do(req); e2 == nil {
				resp.Body.Close()
			} else {
				errInner = e2
			}
			rest, e3 := io.ReadAll(r.Body)
			gotOuter = append(head[:n], rest...)
			if e1 != nil {
				errOuter = e1
			} else {
				errOuter = e3
			}
		case "inner":
			gotInner, errInner = io.ReadAll(r.Body)
		default:
			gotWarm, _ = io.ReadAll(r.Body)
		}
	})
	sc := NewDefaultServerConfig()
	sc.Endpoint = "localhost:0"
	srv, err := sc.ToServer(context.Background(), componenttest.NewNopHost(), componenttest.NewNopTelemetrySettings(), h)
	if err != nil {
		return "", ""
	}
	ts := httptest.NewServer(srv.Handler)
	defer ts.Close()
	url = ts.URL
	warm := c16Body("pattern", 300)
	if resp, err := cl.Post(url, "application/octet-stream", bytes.NewReader(warm)); err == nil {
		resp.Body.Close()
	}
	req, _ := http.NewRequest(http.MethodPost, url, bytes.NewReader(outer))
	req.Header.Set("X-Role", "outer")
	resp, err := cl.Do(req)
	if err != nil {
		return "client-error:overlap", err.Error()
	}
	resp.Body.Close()
	if !bytes.Equal(gotWarm, warm) {
		return "body-differs:overlap", fmt.Sprintf("the first (ordinary) request: handler read %d bytes, sent %d", len(gotWarm), len(warm))
	}
	if errOuter != nil || errInner != nil || !bytes.Equal(gotOuter, outer) || !bytes.Equal(gotInner, inner) {
		return "overlapping-requests-read-each-others-body", fmt.Sprintf("two %s requests whose decodings overlap: the outer handler read %d bytes (sent %d, equal=%v, err=%v), the inner handler %d bytes (sent %d, equal=%v, err=%v)",
			alg, len(gotOuter), len(outer), bytes.Equal(gotOuter, outer), errOuter, len(gotInner), len(inner), bytes.Equal(gotInner, inner), errInner)
	}
	return "", ""
}

// c16NestReader hands out its data in two parts; between them it runs `between` (once): whatever reads it - the client's
// compressor - is then in the middle of its work while another complete request goes through the same client
type c16NestReader struct {
	data    []byte
	off     int
	between func()
	done    bool
}

func (r *c16NestReader) Read(p []byte) (int, error) {
	if r.off >= 100 && !r.done {
		r.done = true
		r.between()
	}
	if r.off >= len(r.data) {
		return 0, io.EOF
	}
	end := len(r.data)
	if r.off < 100 {
		end = 100
	}
	n := copy(p, r.data[r.off:end])
	r.off += n
	return n, nil
}
func (r *c16NestReader) Close() error { return nil }

// c16ClientOverlap: two requests of one algorithm whose COMPRESSIONS overlap in time (the client side of the overlap
// sweep), made deterministic by nesting: the outer request's body, while it is being read by the compressing round
// tripper, sends the inner request through the same client. Each handler must read exactly the bytes its request was given.
func c16ClientOverlap(alg string) (sig, what string) {
	defer func() {
		if r := recover(); r != nil {
			sig, what = "overlapping-client-requests-panic", fmt.Sprintf("two %s requests whose compressions overlap: the client panicked: %v", alg, r)
		}
	}()
	cl, err := c16Client(alg, 0)
	if err != nil {
		return "", ""
	}
	outer, inner := c16Body("pattern", 6000), c16Body("noise", 5000)
	got := map[string][]byte{}
	h := http.HandlerFunc(func(w http.ResponseWriter, r *http.Request) {
		defer r.Body.Close()
		b, err := io.ReadAll(r.Body)
		if err != nil {
			b = append(b, []byte("<read error: "+err.Error()+">")...)
		}
		got[r.Header.Get("X-Role")] = b
	})
	sc := NewDefaultServerConfig()
	sc.Endpoint = "localhost:0"
	srv, err := sc.ToServer(context.Background(), componenttest.NewNopHost(), componenttest.NewNopTelemetrySettings(), h)
	if err != nil {
		return "", ""
	}
	ts := httptest.NewServer(srv.Handler)
	defer ts.Close()
	var errInner error
	body := &c16NestReader{data: outer, between: func() {
		req, _ := http.NewRequest(http.MethodPost, ts.URL, bytes.NewReader(inner))
		req.Header.Set("X-Role", "inner")
		resp, e := cl.Do(req)
		if e != nil {
			errInner = e
			return
		}
		resp.Body.Close()
	}}
	req, _ := http.NewRequest(http.MethodPost, ts.URL, body)
	req.Header.Set("X-Role", "outer")
	resp, errOuter := cl.Do(req)
	if errOuter == nil {
		resp.Body.Close()
	}
	if errOuter != nil || errInner != nil || !bytes.Equal(got["outer"], outer) || !bytes.Equal(got["inner"], inner) {
		return "overlapping-client-requests-corrupt-each-other", fmt.Sprintf("two %s requests whose compressions overlap: the outer handler read %d bytes (sent %d, equal=%v, client err=%v), the inner handler %d bytes (sent %d, equal=%v, client err=%v)",
			alg, len(got["outer"]), len(outer), bytes.Equal(got["outer"], outer), errOuter, len(got["inner"]), len(inner), bytes.Equal(got["inner"], inner), errInner)
	}
	return "", ""
}

func c16Run(e *c16Env, c c16Case) (string, string) {
	in := c.Literal
	if c.Kind != "literal" {
		in = c16Body(strings.TrimPrefix(c.Kind, "bomb-"), c.Size)
	}
	if strings.HasPrefix(c.Kind, "bomb") {
		in = make([]byte, c.Size)
	}
	desc := fmt.Sprintf("alg=%q level=%d enabled=%s limit=%d content=%s size=%d unknown-length=%v", c.Alg, c.Level, c.EnabledN, c.Limit, c.Kind, len(in), c.Chunked)
	body := func() io.Reader {
		switch c.Reader {
		case "data-with-eof":
			return iotest.DataErrReader(bytes.NewReader(in))
		case "one-byte":
			return iotest.OneByteReader(bytes.NewReader(in))
		case "half":
			return iotest.HalfReader(bytes.NewReader(in))
		}
		if c.Chunked {
			return struct{ io.Reader }{bytes.NewReader(in)}
		}
		return bytes.NewReader(in)
	}
	if c.Reader != "" {
		desc += " body-reader=" + c.Reader
	}
	list := c.Enabled
	if list == nil {
		list = c16Default
	}
	isEnabled := false
	for _, x := range list {
		if x == c.Alg {
			isEnabled = true
		}
	}
	e.calls, e.read, e.readErr, e.rawLen = 0, nil, nil, -1
	var resp *http.Response
	var err error
	if c.Kind == "no-body" {
		// a request without any body (Content-Length: 0) that still names a content encoding
		in = nil
		req, _ := http.NewRequest(http.MethodPost, e.ts.URL, http.NoBody)
		req.Header.Set("Content-Encoding", c.Alg)
		e.rawLen = 0
		resp, err = http.DefaultClient.Do(req)
	} else if strings.HasPrefix(c.Kind, "bomb") || c.Header != "" {
		comp := c16Compress(c.Alg, in)
		req, _ := http.NewRequest(http.MethodPost, e.ts.URL, bytes.NewReader(comp))
		req.Header.Set("Content-Encoding", c.Alg)
		if c.Header != "" {
			// the algorithm's name in another spelling: what is not enabled stays not enabled however it is spelled
			req.Header.Set("Content-Encoding", c.Header)
			desc += fmt.Sprintf(" content-encoding-header=%q", c.Header)
		}
		e.rawLen = int64(len(comp))
		resp, err = http.DefaultClient.Do(req)
	} else {
		cl, cerr := c16Client(c.Alg, c.Level)
		if cerr != nil {
			return "", "" // level not accepted by validation for this algorithm: outside the quantifier
		}
		if r2, err2 := cl.Post(e.raw.URL, "application/octet-stream", body()); err2 == nil {
			r2.Body.Close()
		}
		// what the transport may send AGAIN: net/http replays a request through GetBody (stale keep-alive connection,
		// HTTP/2 GOAWAY, redirects) - a replay must put the same bytes on the wire as the first attempt
		if c.Alg != "" && c.Alg != "none" {
			if sig, what := c16Replay(c, in, body()); sig != "" {
				return sig, desc + ": " + what
			}
		}
		resp, err = cl.Post(e.ts.URL, "application/octet-stream", body())
	}
	if err != nil {
		return "client-error", desc + ": " + err.Error()
	}
	resp.Body.Close()
	if int64(len(e.read)) > c.Limit {
		return "handler-read-beyond-limit", fmt.Sprintf("%s: the handler read %d bytes, max_request_body_size is %d", desc, len(e.read), c.Limit)
	}
	size, wire := int64(len(in)), e.rawLen
	switch {
	case isEnabled && c.Header != "":
		// an enabled algorithm under another spelling of its name: accepted or rejected, but never wrong bytes
		if e.calls == 1 && e.readErr == nil && !bytes.Equal(e.read, in) {
			return "wrong-bytes", desc + ": the handler read wrong bytes without error"
		}
	case isEnabled && c.Kind == "no-body":
		// an empty stream is not a valid document of most codecs: accepted or rejected, but never invented bytes
		if e.calls == 1 && e.readErr == nil && len(e.read) != 0 {
			return "wrong-bytes", desc + ": the handler read bytes out of a request without a body"
		}
	case !isEnabled:
		if e.calls != 0 || resp.StatusCode/100 != 4 {
			return "not-enabled-encoding-not-rejected", fmt.Sprintf("%s: handler calls=%d status=%d", desc, e.calls, resp.StatusCode)
		}
	case size <= c.Limit && wire > c.Limit:
		// the server applies the same limit to the compressed stream first; the statement is silent: only "never wrong bytes"
		if e.calls == 1 && e.readErr == nil && !bytes.Equal(e.read, in) {
			return "wrong-bytes", desc + ": wire form over the limit and the handler read wrong bytes without error"
		}
	case size <= c.Limit:
		if e.calls != 1 || e.readErr != nil || !bytes.Equal(e.read, in) {
			return "body-differs", fmt.Sprintf("%s: enabled and within the limit, but handler calls=%d err=%v read=%d bytes status=%d wire=%d", desc, e.calls, e.readErr, len(e.read), resp.StatusCode, wire)
		}
	default:
		if e.calls == 1 && e.readErr == nil {
			return "over-limit-not-signalled", fmt.Sprintf("%s: body over the limit but the handler saw no error after %d bytes", desc, len(e.read))
		}
	}
	return "", ""
}

// the same algorithms once more, as requests without a body (plus a name no codec has)
func c16NoBodyAlgos(algos []string) []string {
	var out []string
	for _, a := range append(append([]string{}, algos...), "nosuchcompression") {
		if a != "" && a != "none" {
			out = append(out, a+"|no-body")
		}
	}
	return out
}

func TestVerif(t *testing.T) {
	ctx := vr.Start("C16", "compression")
	if ctx == nil {
		t.Skip("not driven")
	}
	defer ctx.Finish()
	if ctx.ReplayRaw != nil {
		var rf struct {
			Replay c16Case `json:"replay"`
		}
		if err := json.Unmarshal(ctx.ReplayRaw, &rf); err != nil {
			t.Fatal(err)
		}
		if rf.Replay.Kind == "overlap" || rf.Replay.Kind == "client-overlap" {
			sig, what := c16Overlap(rf.Replay.Alg)
			if rf.Replay.Kind == "client-overlap" {
				sig, what = c16ClientOverlap(rf.Replay.Alg)
			}
			t.Logf("%s %s", sig, what)
			if sig != "" {
				ctx.Violate(sig+":"+rf.Replay.Alg, what, rf.Replay)
			}
			return
		}
		e, err := c16NewEnv(rf.Replay.Limit, rf.Replay.Enabled)
		if err != nil {
			t.Fatal(err)
		}
		defer e.close()
		sig, what := c16Run(e, rf.Replay)
		t.Logf("%s %s", sig, what)
		if sig != "" {
			ctx.Violate(sig+":"+rf.Replay.Alg, what, rf.Replay)
		}
		return
	}
	// overlap sweep: two requests of one algorithm whose decodings overlap in time, made deterministic by NESTING - the
	// outer handler reads a part of its body, sends the inner request to the same server and reads on; before that, one
	// ordinary request whose handler closes its body (as handlers do). Whatever the server shares between requests
	// (pooled decoders, buffers) must not let one request's body reach the other handler.
	if ctx.Shard == 0 {
		for _, alg := range []string{"gzip", "zlib", "deflate", "zstd", "snappy", "lz4"} {
			ctx.R.Evals++
			ctx.R.Trans += 3
			ctx.Nontrivial(vr.Hash("overlap", alg))
			if sig, what := c16Overlap(alg); sig != "" {
				ctx.Violate(sig+":"+alg, what, c16Case{Alg: alg, Kind: "overlap"})
				ctx.Outcome(sig)
			} else {
				ctx.R.Traces++
				ctx.Outcome("overlap:each-handler-read-its-own-body")
			}
			ctx.R.Evals++
			ctx.R.Trans++
			ctx.Nontrivial(vr.Hash("client-overlap", alg))
			if sig, what := c16ClientOverlap(alg); sig != "" {
				ctx.Violate(sig+":"+alg, what, c16Case{Alg: alg, Kind: "client-overlap"})
				ctx.Outcome(sig)
			} else {
				ctx.R.Traces++
				ctx.Outcome("client-overlap:each-handler-read-its-own-body")
			}
		}
	}
	algos := []string{"", "gzip", "zlib", "deflate", "zstd", "snappy", "lz4"}
	levels := map[string][]int{"": {0}, "gzip": {0, -2, 1, 9}, "zlib": {0, 1, 9}, "deflate": {0, -2, 9}, "zstd": {0, 1, 3, 6, 11}, "snappy": {0}, "lz4": {0}}
	thorough := !ctx.Quick()
	var lits [][]byte
	for _, a := range []byte{0, 1, 0xff} {
		lits = append(lits, []byte{a})
		for _, b := range []byte{0, 1, 0xff} {
			lits = append(lits, []byte{a, b})
		}
	}
	var n int64
	for _, limit := range []int64{1, 2, 64, 4096, 65536} {
		type en struct {
			name string
			l    []string
		}
		enabledLists := []en{{"default", nil}, {"identity-only", []string{""}}, {"gzip-only", []string{"gzip"}}, {"zstd+snappy", []string{"zstd", "snappy"}}, {"none", []string{}}}
		for _, enl := range enabledLists {
			n++
			if !ctx.Mine(n) {
				continue
			}
			e, err := c16NewEnv(limit, enl.l)
			if err != nil {
				ctx.Infra("server: %v", err)
				continue
			}
			run := func(c c16Case) {
				c.Limit, c.Enabled, c.EnabledN = limit, enl.l, enl.name
				ctx.R.Evals++
				ctx.R.Trans++
				ctx.Nontrivial(vr.Hash(c.Alg, c.Level, c.Limit, c.EnabledN, c.Kind, c.Size, string(c.Literal), c.Chunked, c.Reader, c.Header))
				sig, what := c16Run(e, c)
				if sig != "" {
					ctx.Violate(sig+":"+c.Alg, what, c)
					ctx.Outcome(sig)
				} else {
					ctx.R.Traces++
					ctx.Outcome(fmt.Sprintf("ok:handler-ran=%v", e.calls > 0))
				}
				if ctx.R.Evals%1501 == 7 {
					ctx.Sample(c)
				}
			}
			for _, alg := range algos {
				for _, lv := range levels[alg] {
					if lv != 0 && !thorough && limit != 64 {
						continue
					}
					sizes := []int{0, int(limit) - 1, int(limit), int(limit) + 1, 2 * int(limit), 32*1024 - 1, 32*1024 + 1, 65536 + 1}
					if thorough {
						sizes = append(sizes, 64*1024-1, 4*1024*1024+1)
					}
					for _, kind := range []string{"zeros", "noise", "pattern"} {
						for _, sz := range sizes {
							if sz < 0 {
								continue
							}
							run(c16Case{Alg: alg, Level: lv, Kind: kind, Size: sz})
							if lv == 0 && kind == "noise" {
								run(c16Case{Alg: alg, Level: lv, Kind: kind, Size: sz, Chunked: true})
								// the body reader's way of handing out bytes (io.Reader contract): last bytes together with
								// io.EOF, one byte at a time, short reads
								if sz <= 65537 {
									for _, rd := range []string{"data-with-eof", "one-byte", "half"} {
										if rd == "one-byte" && sz > 4096 {
											continue
										}
										run(c16Case{Alg: alg, Level: lv, Kind: kind, Size: sz, Reader: rd})
									}
								}
							}
						}
					}
					if lv == 0 {
						for _, l := range lits {
							run(c16Case{Alg: alg, Level: lv, Kind: "literal", Literal: l, Size: len(l)})
						}
						run(c16Case{Alg: alg, Level: lv, Kind: "literal", Literal: []byte{}, Size: 0})
					}
				}
				if alg != "" {
					// other spellings of the algorithm's name (content-coding names are case-insensitive in HTTP; this server
					// matches exactly): whatever it does with them, an algorithm that is NOT enabled is not decoded
					for _, hdr := range []string{strings.ToUpper(alg), strings.ToUpper(alg[:1]) + alg[1:], alg[:len(alg)-1] + strings.ToUpper(alg[len(alg)-1:])} {
						run(c16Case{Alg: alg, Kind: "pattern", Size: 48, Header: hdr})
					}
					run(c16Case{Alg: alg, Kind: "bomb-zeros", Size: 8 * 1024 * 1024})
				}
			}
			e.close()
		}
	}
	// large bodies (at and beyond the codecs' block and window sizes) x every algorithm x EVERY level, under a limit that
	// admits them: "for every body and every compression algorithm [and level] ... reads exactly the bytes"
	{
		n++
		if ctx.Mine(n) {
			const big = 16 << 20
			e, err := c16NewEnv(big, nil)
			if err != nil {
				ctx.Infra("server: %v", err)
			} else {
				for _, alg := range algos {
					for _, lv := range levels[alg] {
						for _, kind := range []string{"noise", "pattern"} {
							for _, sz := range []int{128<<10 - 1, 128 << 10, 300 << 10, 1 << 20, 9 << 20} {
								if sz > 1<<20 && !(kind == "noise" && (lv == 0 || alg == "zstd")) {
									continue
								}
								c := c16Case{Alg: alg, Level: lv, Kind: kind, Size: sz, Limit: big, EnabledN: "default"}
								ctx.R.Evals++
								ctx.R.Trans++
								ctx.Nontrivial(vr.Hash("big", c.Alg, c.Level, c.Kind, c.Size))
								sig, what := c16Run(e, c)
								if sig != "" {
									ctx.Violate(sig+":"+c.Alg, what, c)
									ctx.Outcome(sig)
								} else {
									ctx.R.Traces++
									ctx.Outcome(fmt.Sprintf("ok:handler-ran=%v", e.calls > 0))
								}
							}
						}
					}
				}
				e.close()
			}
		}
	}
	// enabled-decoder lists: EVERY subset of the seven names x every algorithm, one small body each (the "not enabled =>
	// rejected before the handler" clause does not depend on the body; aliasing between names would show here)
	names := []string{"", "gzip", "zstd", "zlib", "snappy", "deflate", "lz4"}
	for mask := 0; mask < 1<<len(names); mask++ {
		n++
		if !ctx.Mine(n) {
			continue
		}
		list := []string{}
		var nm []string
		for i, x := range names {
			if mask&(1<<i) != 0 {
				list = append(list, x)
				if x == "" {
					x = "identity"
				}
				nm = append(nm, x)
			}
		}
		e, err := c16NewEnv(4096, list)
		if err != nil {
			ctx.Infra("server: %v", err)
			continue
		}
		for _, algk := range append(append([]string{}, algos...), c16NoBodyAlgos(algos)...) {
			alg := strings.TrimSuffix(algk, "|no-body")
			c := c16Case{Alg: alg, Kind: "literal", Literal: []byte{1, 0xff}, Size: 2, Limit: 4096, Enabled: list, EnabledN: "{" + strings.Join(nm, ",") + "}"}
			if alg != algk {
				c.Kind, c.Literal, c.Size = "no-body", nil, 0
			}
			ctx.R.Evals++
			ctx.R.Trans++
			ctx.Nontrivial(vr.Hash(c.Alg, c.Kind, c.EnabledN))
			sig, what := c16Run(e, c)
			if sig != "" {
				ctx.Violate(sig+":"+c.Alg, what, c)
				ctx.Outcome(sig)
			} else {
				ctx.R.Traces++
				ctx.Outcome(fmt.Sprintf("ok:handler-ran=%v", e.calls > 0))
			}
		}
		e.close()
	}
	ctx.R.States = ctx.R.Evals
}
