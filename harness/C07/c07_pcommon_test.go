//go:build verif

package pcommon

import "testing"

func TestVerif(t *testing.T) {
	c07Main(t, "pcommon", []any{NewSlice}, map[string]func() (any, func() []byte){})
}
