//go:build verif

package VERIFPKG

// C07 — data-model copy / move / remove / read-only operations have value semantics.
// Engine E2: all programs up to a depth bound of public slice operations over a pool of values, for every generated slice
// type of the package (driven reflectively through the PUBLIC API), against a boring reference model (lists of element ids),
// with independence checks after every CopyTo; plus a reflective read-only sweep over every value reachable from a payload.

import (
	"encoding/json"
	"fmt"
	"reflect"
	"sort"
	"strings"
	"testing"

	"VERIF/vr"
)

// ---- reflective adapter for one slice type
type c07Type struct {
	name   string
	ctor   reflect.Value
	elem   reflect.Type
	setter string // element marker: SetX / X pair
	getter string
	kind   reflect.Kind
	hasSort bool
	// valueMap: the element is a pcommon.Value; its identity marker is kept INSIDE a map value ({"id": n}), i.e. behind a
	// pointer-bearing one-of wrapper, so that two elements sharing a wrapper (leftovers of RemoveIf re-used by CopyTo) read
	// the same id. A scalar marker would replace the wrapper and hide that.
	valueMap bool
}

func c07NewType(ctor any) *c07Type {
	cv := reflect.ValueOf(ctor)
	st := cv.Type().Out(0)
	t := &c07Type{name: st.Name(), ctor: cv}
	at, ok := st.MethodByName("At")
	if !ok {
		panic("no At on " + st.Name())
	}
	t.elem = at.Type.Out(0)
	_, t.hasSort = st.MethodByName("Sort")
	if _, ok := t.elem.MethodByName("SetEmptyMap"); ok {
		if _, ok2 := t.elem.MethodByName("Map"); ok2 {
			t.valueMap = true
			return t
		}
	}
	// pick a scalar Set/Get pair on the element as identity marker (strings preferred)
	best := 99
	for i := 0; i < t.elem.NumMethod(); i++ {
		m := t.elem.Method(i)
		if !strings.HasPrefix(m.Name, "Set") || m.Type.NumIn() != 2 || m.Type.NumOut() != 0 {
			continue
		}
		g, ok := t.elem.MethodByName(strings.TrimPrefix(m.Name, "Set"))
		if !ok || g.Type.NumIn() != 1 || g.Type.NumOut() != 1 || g.Type.Out(0) != m.Type.In(1) {
			continue
		}
		rank := 99
		switch m.Type.In(1).Kind() {
		case reflect.String:
			rank = 0
		case reflect.Int64, reflect.Uint64:
			rank = 1
		case reflect.Int32, reflect.Uint32:
			rank = 2
		case reflect.Float64:
			rank = 3
		case reflect.Array:
			if m.Type.In(1).Elem().Kind() == reflect.Uint8 && m.Type.In(1).Len() >= 4 {
				rank = 4
			}
		}
		if rank < best {
			best, t.setter, t.getter, t.kind = rank, m.Name, g.Name, m.Type.In(1).Kind()
		}
	}
	if best == 99 {
		panic("no scalar marker on element of " + st.Name())
	}
	return t
}

func (t *c07Type) mark(e reflect.Value, id int) {
	if t.valueMap {
		var m reflect.Value
		if e.MethodByName("Type").Call(nil)[0].Int() == 5 { // ValueTypeMap: keep the wrapper, as a mutation of the element would
			m = e.MethodByName("Map").Call(nil)[0]
		} else {
			m = e.MethodByName("SetEmptyMap").Call(nil)[0]
		}
		m.MethodByName("PutInt").Call([]reflect.Value{reflect.ValueOf("id"), reflect.ValueOf(int64(id))})
		return
	}
	arg := reflect.New(e.MethodByName(t.setter).Type().In(0)).Elem()
	switch t.kind {
	case reflect.String:
		arg.SetString(fmt.Sprintf("e%d", id))
	case reflect.Int64, reflect.Int32:
		arg.SetInt(int64(id))
	case reflect.Uint64, reflect.Uint32:
		arg.SetUint(uint64(id))
	case reflect.Float64:
		arg.SetFloat(float64(id))
	case reflect.Array:
		for i := 0; i < 4; i++ {
			arg.Index(i).SetUint(uint64(byte(id >> (8 * i))))
		}
	}
	e.MethodByName(t.setter).Call([]reflect.Value{arg})
}

func (t *c07Type) read(e reflect.Value) int {
	if t.valueMap {
		if e.MethodByName("Type").Call(nil)[0].Int() != 5 {
			return -1
		}
		r := e.MethodByName("Map").Call(nil)[0].MethodByName("Get").Call([]reflect.Value{reflect.ValueOf("id")})
		if !r[1].Bool() {
			return -1
		}
		return int(r[0].MethodByName("Int").Call(nil)[0].Int())
	}
	v := e.MethodByName(t.getter).Call(nil)[0]
	switch t.kind {
	case reflect.String:
		var id int
		if _, err := fmt.Sscanf(v.String(), "e%d", &id); err != nil {
			return -1
		}
		return id
	case reflect.Int64, reflect.Int32:
		return int(v.Int())
	case reflect.Uint64, reflect.Uint32:
		return int(v.Uint())
	case reflect.Float64:
		return int(v.Float())
	case reflect.Array:
		id := 0
		for i := 0; i < 4; i++ {
			id |= int(v.Index(i).Uint()) << (8 * i)
		}
		return id
	}
	return -1
}

func (t *c07Type) obs(s reflect.Value) []int {
	n := int(s.MethodByName("Len").Call(nil)[0].Int())
	r := make([]int, n)
	for i := 0; i < n; i++ {
		r[i] = t.read(s.MethodByName("At").Call([]reflect.Value{reflect.ValueOf(i)})[0])
	}
	return r
}

type c07Op struct {
	K string `json:"k"`
	A int    `json:"a"`
	B int    `json:"b"`
}

func (o c07Op) String() string {
	switch o.K {
	case "copy", "moveapp":
		return fmt.Sprintf("%s(%d->%d)", o.K, o.A, o.B)
	case "cap":
		return fmt.Sprintf("cap(%d,+%d)", o.A, o.B)
	}
	return fmt.Sprintf("%s(%d)", o.K, o.A)
}

type c07Model struct {
	ids       []int
	slack     bool // EnsureCapacity left unused capacity beyond len
	staleTail bool // RemoveIf / shorter CopyTo left old entries beyond len
	nonNil    bool // the underlying Go slice is non-nil (MoveAndAppendTo into a nil slice hands over the source's backing array)
}

const c07Mut = 1 << 20

// c07Run applies prog to fresh values. Returns signature, explanation ("" = ok).
func c07Run(t *c07Type, pool int, prog []c07Op) (sig, what string) {
	step := -1
	var cur c07Op
	var models []*c07Model
	defer func() {
		if r := recover(); r != nil {
			ctx := "none"
			if step >= 0 && (cur.K == "copy") {
				ctx = c07DestState(models[cur.B], len(models[cur.A].ids))
			}
			sig = fmt.Sprintf("panic-in-%s:dest-state=%s", cur.K, ctx)
			what = fmt.Sprintf("%s: step %d %v panicked: %v", t.name, step, cur, r)
		}
	}()
	vals := make([]reflect.Value, pool)
	models = make([]*c07Model, pool)
	for i := range vals {
		vals[i] = t.ctor.Call(nil)[0]
		models[i] = &c07Model{}
	}
	next := 1
	for si, o := range prog {
		step, cur = si, o
		s, m := vals[o.A], models[o.A]
		destState := ""
		switch o.K {
		case "app":
			e := s.MethodByName("AppendEmpty").Call(nil)[0]
			t.mark(e, next)
			m.ids = append(m.ids, next)
			m.nonNil = true
			next++
			// appending may consume slack / stale entries (conservative: flags stay)
		case "app2":
			for k := 0; k < 2; k++ {
				e := s.MethodByName("AppendEmpty").Call(nil)[0]
				t.mark(e, next)
				m.ids = append(m.ids, next)
				m.nonNil = true
				next++
			}
		case "cap":
			s.MethodByName("EnsureCapacity").Call([]reflect.Value{reflect.ValueOf(len(m.ids) + o.B)})
			if o.B > 0 {
				m.slack = true
				m.nonNil = true
			}
		case "rmfirst", "rmfirst2", "rmlast", "rmall", "rmeven":
			i := 0
			n := len(m.ids)
			pred := func(idx int) bool {
				switch o.K {
				case "rmfirst":
					return idx == 0
				case "rmfirst2": // two leading elements: two or more survivors are shifted across the new end
					return idx < 2
				case "rmlast":
					return idx == n-1
				case "rmeven":
					return idx%2 == 0
				}
				return true
			}
			fn := reflect.MakeFunc(s.MethodByName("RemoveIf").Type().In(0), func([]reflect.Value) []reflect.Value {
				r := pred(i)
				i++
				return []reflect.Value{reflect.ValueOf(r)}
			})
			s.MethodByName("RemoveIf").Call([]reflect.Value{fn})
			var keep []int
			for idx, id := range m.ids {
				if !pred(idx) {
					keep = append(keep, id)
				}
			}
			if len(keep) < len(m.ids) {
				m.staleTail = true
			}
			m.ids = keep
		case "sort":
			fn := reflect.MakeFunc(s.MethodByName("Sort").Type().In(0), func(a []reflect.Value) []reflect.Value {
				return []reflect.Value{reflect.ValueOf(t.read(a[0]) > t.read(a[1]))}
			})
			s.MethodByName("Sort").Call([]reflect.Value{fn})
			sort.SliceStable(m.ids, func(i, j int) bool { return m.ids[i] > m.ids[j] })
		case "copy":
			dm := models[o.B]
			destState = c07DestState(dm, len(m.ids))
			s.MethodByName("CopyTo").Call([]reflect.Value{vals[o.B]})
			if len(m.ids) < len(dm.ids) {
				dm.staleTail = true
			}
			dm.ids = append([]int(nil), m.ids...)
			if len(m.ids) > 0 {
				dm.nonNil = true
			}
		case "moveapp":
			dm := models[o.B]
			s.MethodByName("MoveAndAppendTo").Call([]reflect.Value{vals[o.B]})
			if !dm.nonNil {
				// "*dest.orig = *es.orig": the destination takes over the source's backing array with whatever lies beyond its length
				dm.staleTail, dm.slack, dm.nonNil = m.staleTail, m.slack, m.nonNil
			}
			dm.ids = append(dm.ids, m.ids...)
			m.ids, m.slack, m.staleTail, m.nonNil = nil, false, false, false
		}
		for i := range vals {
			if g, w := fmt.Sprint(t.obs(vals[i])), fmt.Sprint(append([]int{}, models[i].ids...)); g != w {
				k := "wrong-content-after-" + o.K
				if o.K == "copy" {
					k += ":dest-state=" + destState
				}
				return k, fmt.Sprintf("%s: after step %d %v value %d observes %s, model says %s (program %v)", t.name, si, o, i, g, w, prog)
			}
		}
		if o.K == "copy" {
			// independence: mutate every source element, the copy must not change; then restore
			src, dst := vals[o.A], vals[o.B]
			before := fmt.Sprint(t.obs(dst))
			n := len(m.ids)
			for i := 0; i < n; i++ {
				t.mark(src.MethodByName("At").Call([]reflect.Value{reflect.ValueOf(i)})[0], c07Mut+i)
			}
			if after := fmt.Sprint(t.obs(dst)); after != before {
				return "copy-not-independent-of-source:dest-state=" + destState, fmt.Sprintf("%s: after step %d %v mutating the source changed the copy: %s -> %s (program %v)", t.name, si, o, before, after, prog)
			}
			for i := 0; i < n; i++ {
				t.mark(src.MethodByName("At").Call([]reflect.Value{reflect.ValueOf(i)})[0], m.ids[i])
			}
			// independence inside the copy: mutating element i changes only element i
			for i := 0; i < n; i++ {
				t.mark(dst.MethodByName("At").Call([]reflect.Value{reflect.ValueOf(i)})[0], c07Mut)
				for j, id := range t.obs(dst) {
					if j != i && id == c07Mut {
						return "copy-elements-alias:dest-state=" + destState, fmt.Sprintf("%s: after step %d %v elements %d and %d of the copy are the same object (program %v)", t.name, si, o, i, j, prog)
					}
				}
				t.mark(dst.MethodByName("At").Call([]reflect.Value{reflect.ValueOf(i)})[0], models[o.B].ids[i])
			}
			// ... and the source is independent of the copy
			for i := 0; i < n; i++ {
				t.mark(dst.MethodByName("At").Call([]reflect.Value{reflect.ValueOf(i)})[0], c07Mut+i)
			}
			if g, w := fmt.Sprint(t.obs(src)), fmt.Sprint(append([]int{}, m.ids...)); g != w {
				return "source-not-independent-of-copy:dest-state=" + destState, fmt.Sprintf("%s: after step %d %v mutating the copy changed the source: %s, expected %s", t.name, si, o, g, w)
			}
			for i := 0; i < n; i++ {
				t.mark(dst.MethodByName("At").Call([]reflect.Value{reflect.ValueOf(i)})[0], models[o.B].ids[i])
			}
		}
	}
	return "", ""
}

// c07DestState describes the destination of a CopyTo (the anchored state of the property): relation of lengths and
// what lies beyond the destination's length.
func c07DestState(dm *c07Model, srcLen int) string {
	rel := "same-length"
	if srcLen > len(dm.ids) {
		rel = "shorter" // the destination is shorter than the source: CopyTo must create elements
	} else if srcLen < len(dm.ids) {
		rel = "longer"
	}
	if dm.staleTail {
		return rel + "+previously-filtered"
	}
	return rel
}

func c07Alphabet(t *c07Type, pool int) []c07Op {
	var a []c07Op
	for i := 0; i < pool; i++ {
		a = append(a, c07Op{"app", i, 0}, c07Op{"app2", i, 0}, c07Op{"cap", i, 0}, c07Op{"cap", i, 2}, c07Op{"rmfirst", i, 0}, c07Op{"rmlast", i, 0}, c07Op{"rmall", i, 0}, c07Op{"rmeven", i, 0})
		if t.hasSort {
			a = append(a, c07Op{"sort", i, 0})
		}
		for j := 0; j < pool; j++ {
			if i != j {
				a = append(a, c07Op{"copy", i, j}, c07Op{"moveapp", i, j})
			}
		}
	}
	return a
}

type c07Case struct {
	Type string  `json:"type"`
	Pool int     `json:"pool"`
	Prog []c07Op `json:"program"`
	RO   string  `json:"readonly_path,omitempty"`
}

func c07Main(t *testing.T, unit string, ctors []any, payloads map[string]func() (any, func() []byte)) {
	ctx := vr.Start("C07", unit)
	if ctx == nil {
		t.Skip("not driven")
	}
	defer ctx.Finish()
	var types []*c07Type
	byName := map[string]*c07Type{}
	for _, c := range ctors {
		ty := c07NewType(c)
		types = append(types, ty)
		byName[ty.name] = ty
	}
	if ctx.ReplayRaw != nil {
		var rf struct {
			Replay c07Case `json:"replay"`
		}
		if err := json.Unmarshal(ctx.ReplayRaw, &rf); err != nil {
			t.Fatal(err)
		}
		if rf.Replay.RO == "struct-copy" {
			vs, _ := c07StructCopySweep(payloads, rf.Replay.Type)
			for _, v := range vs {
				ctx.Violate(v[0], v[1], rf.Replay)
			}
			return
		}
		if rf.Replay.RO != "" {
			for _, v := range c07ReadOnlySweep(payloads, rf.Replay.Type) {
				ctx.Violate(v[0], v[1], rf.Replay)
			}
			return
		}
		sig, what := c07Run(byName[rf.Replay.Type], rf.Replay.Pool, rf.Replay.Prog)
		t.Logf("%s %s", sig, what)
		if sig != "" {
			ctx.Violate(sig+":"+rf.Replay.Type, what, rf.Replay)
		}
		return
	}
	depth := ctx.Param("depth", 4)
	depthAll := ctx.Param("depth_all", 3)
	var n int64
	for ti, ty := range types {
		d := depthAll
		if ti < ctx.Param("deep_types", 2) {
			d = depth // representative types of the package go deeper
		}
		pool := 2
		alpha := c07Alphabet(ty, pool)
		var rec func(p []c07Op, left int)
		rec = func(p []c07Op, left int) {
			if len(p) > 0 {
				ctx.R.Evals++
				ctx.R.Trans++
				sig, what := c07Run(ty, pool, p)
				hasCopy := false
				for _, o := range p {
					hasCopy = hasCopy || o.K == "copy" || o.K == "moveapp"
				}
				if hasCopy {
					ctx.Nontrivial(vr.Hash(ty.name, fmt.Sprint(p)))
				}
				if sig != "" {
					ctx.Violate(sig+":"+ty.name, what, c07Case{Type: ty.name, Pool: pool, Prog: append([]c07Op(nil), p...)})
					ctx.Outcome(ty.name + ":" + strings.SplitN(sig, ":", 2)[0])
					return // do not extend a failing program
				}
				ctx.R.Traces++
				ctx.Outcome(ty.name + ":ok")
				if ctx.R.Evals%30011 == 9 {
					ctx.Sample(map[string]any{"type": ty.name, "program": fmt.Sprint(p)})
				}
			}
			if left == 0 {
				return
			}
			for _, a := range alpha {
				if len(p) == 0 {
					n++
					if !ctx.Mine(n) {
						continue
					}
				}
				if len(p) == 1 && ctx.Expired() {
					return
				}
				rec(append(p, a), left-1)
			}
		}
		rec(nil, d)
		// NON-INITIAL start state: both slices of the pool already hold four elements (so that a filter can shift several
		// survivors over several leftovers, and a copy finds a destination with live pointers beyond its length); every program
		// of up to d-1 further operations (d-2 for the types that are not explored deeply), with "remove the first two" added
		pre := []c07Op{{"app2", 0, 0}, {"app2", 0, 0}, {"app2", 1, 0}, {"app2", 1, 0}}
		alpha = append(alpha, c07Op{"rmfirst2", 0, 0}, c07Op{"rmfirst2", 1, 0})
		dd := d - 1
		if dd > 3 {
			dd = 3
		}
		var rec2 func(p []c07Op, left int)
		rec2 = func(p []c07Op, left int) {
			if len(p) > len(pre) {
				ctx.R.Evals++
				ctx.R.Trans++
				sig, what := c07Run(ty, pool, p)
				ctx.Nontrivial(vr.Hash(ty.name, fmt.Sprint(p)))
				if sig != "" {
					ctx.Violate(sig+":"+ty.name, what, c07Case{Type: ty.name, Pool: pool, Prog: append([]c07Op(nil), p...)})
					ctx.Outcome(ty.name + ":" + strings.SplitN(sig, ":", 2)[0])
					return
				}
				ctx.R.Traces++
				ctx.Outcome(ty.name + ":ok")
			}
			if left == 0 {
				return
			}
			for _, a := range alpha {
				if len(p) == len(pre) {
					n++
					if !ctx.Mine(n) {
						continue
					}
				}
				if len(p) == len(pre)+1 && ctx.Expired() {
					return
				}
				rec2(append(append([]c07Op(nil), p...), a), left-1)
			}
		}
		rec2(pre, dd)
	}
	// read-only sweep
	if ctx.Shard == 0 {
		for name := range payloads {
			ctx.R.Evals++
			vs := c07ReadOnlySweep(payloads, name)
			for _, v := range vs {
				ctx.Violate(v[0], v[1], c07Case{Type: name, RO: "sweep"})
			}
			if len(vs) == 0 {
				ctx.R.Traces++
			}
			ctx.R.Extra["readonly_mutators_"+name] = c07ROCount
			ctx.Nontrivial(vr.Hash("ro", name))
		}
		// struct-level CopyTo between every two elements of every slice of the payload, and from / into a fresh element
		for name := range payloads {
			vs, n := c07StructCopySweep(payloads, name)
			ctx.R.Evals += int64(n)
			ctx.R.Trans += int64(n)
			ctx.R.Traces += int64(n - len(vs))
			for _, v := range vs {
				ctx.Violate(v[0], v[1], c07Case{Type: name, RO: "struct-copy"})
			}
			ctx.R.Extra["struct_copies_"+name] = n
			ctx.R.Extra["struct_copy_slices_"+name] = strings.Join(c07SCSlices, " | ")
			c07SCSlices = nil
			ctx.Nontrivial(vr.Hash("struct-copy", name))
			ctx.Outcome(fmt.Sprintf("struct-copy:%s:violations=%d", name, len(vs)))
		}
	}
	ctx.R.States = ctx.R.Evals
}

var c07ROCount int

// c07ReadOnlySweep marks the payload read-only and calls every mutator on every value reachable through getters:
// each must panic and leave the payload's encoding unchanged; readers must keep working.
func c07ReadOnlySweep(payloads map[string]func() (any, func() []byte), name string) (out [][2]string) {
	mk, ok := payloads[name]
	if !ok {
		return nil
	}
	// pass 1 on a mutable payload: which reader paths work at all (an accessor of the wrong one-of type panics by design)
	works := map[string]bool{}
	readonly := false
	root, enc := mk()
	before := string(enc())
	c07ROCount = 0
	seen := map[string]bool{}
	// the twin: a second, MUTABLE payload with the same shape but different contents (an extra entry in every map and
	// slice); it supplies the mutable other operand of two-operand mutators (ro.MoveTo(twin), ro.MoveAndAppendTo(twin)),
	// which must panic without changing EITHER side
	root2, enc2 := mk()
	c07Perturb(reflect.ValueOf(root2), 0, map[string]bool{}, "")
	before2 := string(enc2())
	var walk func(v, w reflect.Value, path string, depth int)
	walk = func(v, w reflect.Value, path string, depth int) {
		if depth > 9 {
			return
		}
		ty := v.Type()
		if w.IsValid() && w.Type() != ty {
			w = reflect.Value{}
		}
		for i := 0; i < ty.NumMethod(); i++ {
			m := ty.Method(i)
			mt := m.Type
			isMut := false
			for _, p := range []string{"Set", "Append", "Remove", "EnsureCapacity", "MoveTo", "MoveAndAppendTo", "FromRaw", "Sort", "Put", "Clear", "CopyTo"} {
				if strings.HasPrefix(m.Name, p) {
					isMut = true
				}
			}
			switch {
			case isMut && !readonly:
			case isMut:
				// build arguments: zero values; for CopyTo/MoveTo/MoveAndAppendTo the READ-ONLY value itself is the destination
				args := make([]reflect.Value, mt.NumIn()-1)
				okArgs := true
				for a := range args {
					at := mt.In(a + 1)
					switch {
					case at == ty:
						args[a] = v
					case at.Kind() == reflect.Func:
						args[a] = reflect.MakeFunc(at, func([]reflect.Value) []reflect.Value {
							outs := make([]reflect.Value, at.NumOut())
							for o := range outs {
								outs[o] = reflect.Zero(at.Out(o))
							}
							return outs
						})
					case at.Kind() == reflect.Interface || at.Kind() == reflect.Map || at.Kind() == reflect.Slice:
						args[a] = reflect.Zero(at)
					default:
						args[a] = reflect.Zero(at)
					}
				}
				if !okArgs {
					continue
				}
				if m.Name == "CopyTo" || m.Name == "MoveTo" || m.Name == "MoveAndAppendTo" {
					if mt.NumIn() != 2 || mt.In(1) != ty {
						continue
					}
				}
				// mutators that are no-ops by contract on a zero argument still have to assert mutability; count and call
				c07ROCount++
				panicked := false
				func() {
					defer func() {
						if r := recover(); r != nil {
							panicked = true
						}
					}()
					if mt.IsVariadic() {
						v.Method(i).CallSlice(args)
					} else {
						v.Method(i).Call(args)
					}
				}()
				if after := string(enc()); after != before {
					out = append(out, [2]string{"readonly-mutated:" + ty.Name() + "." + m.Name, fmt.Sprintf("%s: %s.%s on a read-only value changed the payload", name, path, m.Name)})
					before = after
				} else if !panicked {
					out = append(out, [2]string{"readonly-mutator-did-not-panic:" + ty.Name() + "." + m.Name, fmt.Sprintf("%s: %s.%s on a read-only value did not panic", name, path, m.Name)})
				}
				if m.Name == "CopyTo" && w.IsValid() && c07Usable(v) && c07Usable(w) {
					// copying OUT of a read-only value is a read ("all readers keep working"): into the mutable twin - which is
					// longer than the source everywhere, i.e. a destination with spare capacity - it must not panic, must leave
					// the read-only payload as it is and must make the destination equal to the source
					c07ROCount++
					var pan any
					func() {
						defer func() { pan = recover() }()
						v.Method(i).Call([]reflect.Value{w})
					}()
					switch after := string(enc()); {
					case pan != nil:
						out = append(out, [2]string{"readonly-source-copy-panicked:" + ty.Name(), fmt.Sprintf("%s: %s.CopyTo(mutable destination) with a read-only source panicked: %v", name, path, pan)})
					case after != before:
						out = append(out, [2]string{"readonly-mutated:" + ty.Name() + ".CopyTo", fmt.Sprintf("%s: %s.CopyTo(mutable destination) changed the read-only source", name, path)})
						before = after
					case c07Obs(w, 0) != c07Obs(v, 0):
						out = append(out, [2]string{"readonly-source-copy-differs:" + ty.Name(), fmt.Sprintf("%s: after %s.CopyTo(mutable destination) with a read-only source the destination differs from the source", name, path)})
					default:
						// the copy is the destination's own: writing IN PLACE into every primitive slice reachable from it (bytes of
						// a value, bucket counts, ...) must not show in the read-only original
						if c07Scribble(w, 0) > 0 {
							c07ROCount++
							if after := string(enc()); after != before {
								out = append(out, [2]string{"copy-of-readonly-source-shares-storage:" + ty.Name(), fmt.Sprintf("%s: %s was copied from a read-only payload into a mutable one; in-place writes into the copy changed the read-only original", name, path)})
								before = after
							}
						}
					}
					before2 = string(enc2())
				}
				if (m.Name == "MoveTo" || m.Name == "MoveAndAppendTo") && w.IsValid() {
					// the same mutator with a MUTABLE destination: it empties its (read-only) receiver, so it must panic - and
					// the destination must be what it was
					c07ROCount++
					panicked2 := false
					func() {
						defer func() {
							if r := recover(); r != nil {
								panicked2 = true
							}
						}()
						v.Method(i).Call([]reflect.Value{w})
					}()
					after, after2 := string(enc()), string(enc2())
					switch {
					case after != before:
						out = append(out, [2]string{"readonly-mutated:" + ty.Name() + "." + m.Name, fmt.Sprintf("%s: %s.%s(mutable destination) on a read-only value changed the payload", name, path, m.Name)})
						before = after
					case after2 != before2:
						out = append(out, [2]string{"readonly-rejected-mutator-changed-its-destination:" + ty.Name() + "." + m.Name, fmt.Sprintf("%s: %s.%s(mutable destination) on a read-only value panicked=%v but the destination changed", name, path, m.Name, panicked2)})
						before2 = after2
					case !panicked2:
						out = append(out, [2]string{"readonly-mutator-did-not-panic:" + ty.Name() + "." + m.Name, fmt.Sprintf("%s: %s.%s(mutable destination) on a read-only value did not panic", name, path, m.Name)})
					}
				}
			case mt.NumIn() == 1 && mt.NumOut() == 1 && mt.Out(0).Kind() == reflect.Struct && mt.Out(0).PkgPath() != "" && strings.Contains(mt.Out(0).PkgPath(), "/pdata/") && mt.Out(0).NumMethod() > 0:
				// getter returning another wrapper
				var child reflect.Value
				func() {
					defer func() {
						if r := recover(); r != nil && readonly && works[path+"."+m.Name] {
							out = append(out, [2]string{"reader-panicked:" + ty.Name() + "." + m.Name, fmt.Sprintf("%s: reader %s.%s panicked on a read-only value: %v", name, path, m.Name, r)})
						}
					}()
					child = v.Method(i).Call(nil)[0]
					if !readonly {
						works[path+"."+m.Name] = true
					}
				}()
				if child.IsValid() {
					key := child.Type().String() + "@" + path + "." + m.Name
					if !seen[key] {
						seen[key] = true
						var child2 reflect.Value
						if w.IsValid() {
							func() {
								defer func() { _ = recover() }()
								child2 = w.Method(i).Call(nil)[0]
							}()
						}
						walk(child, child2, path+"."+m.Name+"()", depth+1)
					}
				}
			case m.Name == "At" && mt.NumIn() == 2 && mt.NumOut() == 1:
				n := 0
				func() {
					defer func() { _ = recover() }()
					n = int(v.MethodByName("Len").Call(nil)[0].Int())
				}()
				for idx := 0; idx < n; idx++ {
					child := v.Method(i).Call([]reflect.Value{reflect.ValueOf(idx)})[0]
					if child.Kind() == reflect.Struct && child.NumMethod() > 0 {
						key := fmt.Sprintf("%s@%s.At(%d)", child.Type().String(), path, idx)
						if !seen[key] {
							seen[key] = true
							var child2 reflect.Value
							if w.IsValid() {
								func() {
									defer func() { _ = recover() }()
									child2 = w.Method(i).Call([]reflect.Value{reflect.ValueOf(idx)})[0]
								}()
							}
							walk(child, child2, fmt.Sprintf("%s.At(%d)", path, idx), depth+1)
						}
					}
				}
			}
		}
	}
	walk(reflect.ValueOf(root), reflect.ValueOf(root2), name, 0)
	// pass 2: the same walk on the read-only payload, now calling every mutator
	readonly = true
	seen = map[string]bool{}
	reflect.ValueOf(root).MethodByName("MarkReadOnly").Call(nil)
	walk(reflect.ValueOf(root), reflect.ValueOf(root2), name, 0)
	return out
}

// c07Scribble overwrites, in place (SetAt), every element of every primitive slice reachable from v through reader methods,
// map entries and slice elements; returns the number of elements written. Accessors of the wrong one-of alternative panic
// by design and are skipped.
func c07Scribble(v reflect.Value, depth int) (n int) {
	if depth > 12 || !v.IsValid() || v.Kind() != reflect.Struct {
		return 0
	}
	defer func() { _ = recover() }()
	ty := v.Type()
	if sa, ok := ty.MethodByName("SetAt"); ok && sa.Type.NumIn() == 3 {
		et := sa.Type.In(2)
		ln := int(v.MethodByName("Len").Call(nil)[0].Int())
		for i := 0; i < ln; i++ {
			nv := reflect.New(et).Elem()
			switch et.Kind() {
			case reflect.Uint8, reflect.Uint64, reflect.Uint32:
				nv.SetUint(0xEE)
			case reflect.Int, reflect.Int32, reflect.Int64:
				nv.SetInt(-77)
			case reflect.Float64:
				nv.SetFloat(-7.75)
			case reflect.String:
				nv.SetString("scribbled")
			default:
				return n
			}
			v.MethodByName("SetAt").Call([]reflect.Value{reflect.ValueOf(i), nv})
			n++
		}
		return n
	}
	if _, ok := ty.MethodByName("Range"); ok && strings.HasSuffix(ty.Name(), "Map") {
		rm := v.MethodByName("Range")
		ft := rm.Type().In(0)
		rm.Call([]reflect.Value{reflect.MakeFunc(ft, func(args []reflect.Value) []reflect.Value {
			n += c07Scribble(args[1], depth+1)
			return []reflect.Value{reflect.ValueOf(true)}
		})})
		return n
	}
	if at, ok := ty.MethodByName("At"); ok && at.Type.NumIn() == 2 {
		ln := int(v.MethodByName("Len").Call(nil)[0].Int())
		for i := 0; i < ln; i++ {
			func() {
				defer func() { _ = recover() }()
				n += c07Scribble(v.MethodByName("At").Call([]reflect.Value{reflect.ValueOf(i)})[0], depth+1)
			}()
		}
		return n
	}
	for i := 0; i < ty.NumMethod(); i++ {
		m := ty.Method(i)
		mt := m.Type
		if mt.NumIn() == 1 && mt.NumOut() == 1 && mt.Out(0).Kind() == reflect.Struct && strings.Contains(mt.Out(0).PkgPath(), "/pdata/") && mt.Out(0).NumMethod() > 0 && !c07IsMutatorName(m.Name) {
			func() {
				defer func() { _ = recover() }()
				n += c07Scribble(v.Method(i).Call(nil)[0], depth+1)
			}()
		}
	}
	return n
}

// c07Perturb gives every map and slice reachable from v one more entry (twin payload of the read-only sweep)
func c07Perturb(v reflect.Value, depth int, seen map[string]bool, path string) {
	if depth > 9 {
		return
	}
	ty := v.Type()
	n := 0
	if _, ok := ty.MethodByName("Len"); ok {
		func() {
			defer func() { _ = recover() }()
			n = int(v.MethodByName("Len").Call(nil)[0].Int())
		}()
	}
	for i := 0; i < ty.NumMethod(); i++ {
		m := ty.Method(i)
		mt := m.Type
		switch {
		case m.Name == "At" && mt.NumIn() == 2 && mt.NumOut() == 1:
			for idx := 0; idx < n; idx++ {
				var child reflect.Value
				func() {
					defer func() { _ = recover() }()
					child = v.Method(i).Call([]reflect.Value{reflect.ValueOf(idx)})[0]
				}()
				if child.IsValid() && child.Kind() == reflect.Struct && child.NumMethod() > 0 {
					c07Perturb(child, depth+1, seen, fmt.Sprintf("%s.At(%d)", path, idx))
				}
			}
		case mt.NumIn() == 1 && mt.NumOut() == 1 && mt.Out(0).Kind() == reflect.Struct && strings.Contains(mt.Out(0).PkgPath(), "/pdata/") && mt.Out(0).NumMethod() > 0 &&
			!strings.HasPrefix(m.Name, "Append") && !strings.HasPrefix(m.Name, "Set") && !strings.HasPrefix(m.Name, "Put") && !strings.HasPrefix(m.Name, "New"):
			key := mt.Out(0).String() + "@" + path + "." + m.Name
			if seen[key] {
				continue
			}
			seen[key] = true
			var child reflect.Value
			func() {
				defer func() { _ = recover() }()
				child = v.Method(i).Call(nil)[0]
			}()
			if child.IsValid() {
				c07Perturb(child, depth+1, seen, path+"."+m.Name+"()")
			}
		}
	}
	func() {
		defer func() { _ = recover() }()
		if pm := v.MethodByName("PutStr"); pm.IsValid() && pm.Type().NumIn() == 2 {
			pm.Call([]reflect.Value{reflect.ValueOf("zz-twin"), reflect.ValueOf("x")})
		}
	}()
	func() {
		defer func() { _ = recover() }()
		if am := v.MethodByName("AppendEmpty"); am.IsValid() && am.Type().NumIn() == 0 {
			am.Call(nil)
		}
	}()
}


// ---- struct-level CopyTo: "copying a value into any other destination ... makes the destination equal to the source"
// for the message types themselves. Every slice reachable in the (fully populated) payload supplies destinations and
// sources of its element type: each of its elements, and a fresh element (AppendEmpty: nothing set, no optional field, the
// empty alternative of every one-of). For every ordered pair (source, destination) the payload is rebuilt, the copy made,
// and the two compared through ALL their public readers, recursively.

var c07MutatorPrefixes = []string{"Set", "Append", "Remove", "Ensure", "Move", "From", "Sort", "Put", "Clear", "Copy", "Mark", "New"}

func c07IsMutatorName(n string) bool {
	for _, p := range c07MutatorPrefixes {
		if strings.HasPrefix(n, p) {
			return true
		}
	}
	return false
}

// c07Obs renders everything the public readers of v say (recursively); a reader that panics (accessor of another one-of
// alternative) is rendered as such.
func c07Obs(v reflect.Value, depth int) string {
	if depth > 24 {
		return "<deep>"
	}
	ty := v.Type()
	if m, ok := ty.MethodByName("AsRaw"); ok && m.Type.NumIn() == 1 {
		var out string
		func() {
			defer func() {
				if r := recover(); r != nil {
					out = "<panic>"
				}
			}()
			raw := v.MethodByName("AsRaw").Call(nil)[0].Interface()
			b, _ := json.Marshal(raw)
			out = fmt.Sprintf("%T:%s", raw, b)
		}()
		return out
	}
	if _, ok := ty.MethodByName("At"); ok {
		if _, ok := ty.MethodByName("Len"); ok {
			var sb strings.Builder
			func() {
				defer func() {
					if r := recover(); r != nil {
						sb.WriteString("<panic>")
					}
				}()
				n := int(v.MethodByName("Len").Call(nil)[0].Int())
				sb.WriteString("[")
				for i := 0; i < n; i++ {
					sb.WriteString(c07Obs(v.MethodByName("At").Call([]reflect.Value{reflect.ValueOf(i)})[0], depth+1))
					sb.WriteString(",")
				}
				sb.WriteString("]")
			}()
			return sb.String()
		}
	}
	var sb strings.Builder
	sb.WriteString("{")
	for i := 0; i < ty.NumMethod(); i++ {
		m := ty.Method(i)
		if m.Type.NumIn() != 1 || m.Type.NumOut() != 1 || c07IsMutatorName(m.Name) || m.Name == "IsReadOnly" {
			continue
		}
		func() {
			defer func() {
				if r := recover(); r != nil {
					sb.WriteString(m.Name + ":<panic>;")
				}
			}()
			r := v.Method(i).Call(nil)[0]
			if r.Kind() == reflect.Struct && r.NumMethod() > 0 && strings.Contains(r.Type().PkgPath(), "/pdata/") {
				sb.WriteString(m.Name + ":" + c07Obs(r, depth+1) + ";")
				return
			}
			if st, ok := r.Interface().(fmt.Stringer); ok && r.Kind() != reflect.Struct {
				sb.WriteString(fmt.Sprintf("%s:%v(%s);", m.Name, r.Interface(), st.String()))
				return
			}
			sb.WriteString(fmt.Sprintf("%s:%v;", m.Name, r.Interface()))
		}()
	}
	sb.WriteString("}")
	return sb.String()
}

// c07Slices lists the paths (as getter / At(i) steps) of every slice of message elements reachable from root.
type c07Step struct {
	M   string
	Idx int // -1: zero-argument getter
}

func c07Follow(root reflect.Value, path []c07Step) (v reflect.Value, ok bool) {
	defer func() {
		if r := recover(); r != nil {
			ok = false
		}
	}()
	v = root
	for _, s := range path {
		if s.Idx >= 0 {
			v = v.MethodByName(s.M).Call([]reflect.Value{reflect.ValueOf(s.Idx)})[0]
		} else {
			v = v.MethodByName(s.M).Call(nil)[0]
		}
	}
	return v, true
}

func c07Slices(root reflect.Value) [][]c07Step {
	var out [][]c07Step
	seen := map[string]bool{}
	var walk func(v reflect.Value, path []c07Step, depth int)
	walk = func(v reflect.Value, path []c07Step, depth int) {
		if depth > 20 {
			return
		}
		ty := v.Type()
		_, hasAt := ty.MethodByName("At")
		_, hasAppend := ty.MethodByName("AppendEmpty")
		if hasAt && hasAppend {
			n := 0
			func() {
				defer func() { _ = recover() }()
				n = int(v.MethodByName("Len").Call(nil)[0].Int())
			}()
			var el reflect.Type
			if m, ok := ty.MethodByName("At"); ok {
				el = m.Type.Out(0)
			}
			if _, ok := el.MethodByName("CopyTo"); ok && n > 0 {
				key := fmt.Sprint(path)
				if !seen[key] {
					seen[key] = true
					out = append(out, append([]c07Step(nil), path...))
				}
			}
			for i := 0; i < n; i++ {
				var c reflect.Value
				func() {
					defer func() { _ = recover() }()
					c = v.MethodByName("At").Call([]reflect.Value{reflect.ValueOf(i)})[0]
				}()
				if c.IsValid() && c.Kind() == reflect.Struct && c.NumMethod() > 0 {
					walk(c, append(append([]c07Step(nil), path...), c07Step{"At", i}), depth+1)
				}
			}
			return
		}
		for i := 0; i < ty.NumMethod(); i++ {
			m := ty.Method(i)
			mt := m.Type
			if mt.NumIn() != 1 || mt.NumOut() != 1 || c07IsMutatorName(m.Name) {
				continue
			}
			o := mt.Out(0)
			if o.Kind() != reflect.Struct || o.NumMethod() == 0 || !strings.Contains(o.PkgPath(), "/pdata/") {
				continue
			}
			var c reflect.Value
			func() {
				defer func() { _ = recover() }()
				c = v.Method(i).Call(nil)[0]
				// touch it: an accessor of another one-of alternative returns a wrapper that panics on use
				if lm, ok := o.MethodByName("Len"); ok && lm.Type.NumIn() == 1 {
					c.MethodByName("Len").Call(nil)
				}
			}()
			if c.IsValid() {
				walk(c, append(append([]c07Step(nil), path...), c07Step{m.Name, -1}), depth+1)
			}
		}
	}
	walk(root, nil, 0)
	return out
}

// c07Populate calls every single-argument primitive setter of every value reachable from v with a non-default argument,
// so that the existing elements have every plain and every OPTIONAL field set (the message alternatives of a one-of stay
// as the payload builder chose them).
// c07ZeroValues: c07Populate calls every primitive setter with the type's ZERO value - every optional field is then
// present with zero content, which a copy must preserve as "present" (it is not the same as absent)
var c07ZeroValues bool

func c07Populate(v reflect.Value, depth int) {
	if depth > 20 {
		return
	}
	ty := v.Type()
	if _, ok := ty.MethodByName("AsRaw"); ok {
		return // pcommon.Value / Map / Slice and the primitive slices: contents, not fields
	}
	if _, ok := ty.MethodByName("At"); ok {
		n := 0
		func() {
			defer func() { _ = recover() }()
			n = int(v.MethodByName("Len").Call(nil)[0].Int())
		}()
		for i := 0; i < n; i++ {
			func() {
				defer func() { _ = recover() }()
				c := v.MethodByName("At").Call([]reflect.Value{reflect.ValueOf(i)})[0]
				if c.Kind() == reflect.Struct && c.NumMethod() > 0 {
					c07Populate(c, depth+1)
				}
			}()
		}
		return
	}
	for i := 0; i < ty.NumMethod(); i++ {
		m := ty.Method(i)
		mt := m.Type
		switch {
		case strings.HasPrefix(m.Name, "Set") && !strings.HasPrefix(m.Name, "SetEmpty") && mt.NumIn() == 2 && mt.NumOut() == 0:
			at := mt.In(1)
			a := reflect.New(at).Elem()
			switch at.Kind() {
			case reflect.Bool:
				a.SetBool(!c07ZeroValues)
			case reflect.Int, reflect.Int32, reflect.Int64:
				if !c07ZeroValues {
					a.SetInt(1)
				}
			case reflect.Uint32, reflect.Uint64:
				if !c07ZeroValues {
					a.SetUint(7)
				}
			case reflect.Float64:
				if !c07ZeroValues {
					a.SetFloat(1.5)
				}
			case reflect.String:
				if !c07ZeroValues {
					a.SetString("x")
				}
			case reflect.Array:
				if at.Elem().Kind() == reflect.Uint8 && !c07ZeroValues {
					for k := 0; k < a.Len(); k++ {
						a.Index(k).SetUint(uint64(k + 1))
					}
				}
			default:
				continue
			}
			func() {
				defer func() { _ = recover() }()
				v.Method(i).Call([]reflect.Value{a})
			}()
		case mt.NumIn() == 1 && mt.NumOut() == 1 && !c07IsMutatorName(m.Name):
			o := mt.Out(0)
			if o.Kind() != reflect.Struct || o.NumMethod() == 0 || !strings.Contains(o.PkgPath(), "/pdata/") {
				continue
			}
			func() {
				defer func() { _ = recover() }()
				c07Populate(v.Method(i).Call(nil)[0], depth+1)
			}()
		}
	}
}

var c07SCSlices []string

func c07PathString(sp []c07Step) string {
	var sb strings.Builder
	for _, st := range sp {
		if st.Idx >= 0 {
			sb.WriteString(fmt.Sprintf(".At(%d)", st.Idx))
		} else {
			sb.WriteString("." + st.M + "()")
		}
	}
	return sb.String()
}

func c07StructCopySweep(payloads map[string]func() (any, func() []byte), name string) (out [][2]string, cases int) {
	for _, zero := range []bool{false, true} {
		c07ZeroValues = zero
		o, n := c07StructCopySweep1(payloads, name)
		if zero {
			for i := range o {
				o[i][0] += ":fields-present-with-zero-content"
			}
		}
		out, cases = append(out, o...), cases+n
	}
	c07ZeroValues = false
	return out, cases
}

func c07StructCopySweep1(payloads map[string]func() (any, func() []byte), name string) (out [][2]string, cases int) {
	mk, ok := payloads[name]
	if !ok {
		return nil, 0
	}
	root0, _ := mk()
	reported := map[string]bool{}
	for _, sp := range c07Slices(reflect.ValueOf(root0)) {
		s0, ok := c07Follow(reflect.ValueOf(root0), sp)
		if !ok {
			continue
		}
		n := int(s0.MethodByName("Len").Call(nil)[0].Int())
		c07SCSlices = append(c07SCSlices, fmt.Sprintf("%s%s len=%d", name, c07PathString(sp), n))
		// operands: indices 0..n-1 and n = a fresh element
		for si := 0; si <= n; si++ {
			for di := 0; di <= n; di++ {
				if si == di {
					continue
				}
				root, _ := mk()
				c07Populate(reflect.ValueOf(root), 0)
				sl, ok := c07Follow(reflect.ValueOf(root), sp)
				if !ok {
					continue
				}
				fresh := sl.MethodByName("AppendEmpty").Call(nil)[0]
				pick := func(i int) reflect.Value {
					if i == n {
						return fresh
					}
					return sl.MethodByName("At").Call([]reflect.Value{reflect.ValueOf(i)})[0]
				}
				src, dst := pick(si), pick(di)
				cases++
				want := c07Obs(src, 0)
				desc := func(i int) string {
					if i == n {
						return "a fresh element"
					}
					return fmt.Sprintf("element %d", i)
				}
				var pan any
				func() {
					defer func() { pan = recover() }()
					src.MethodByName("CopyTo").Call([]reflect.Value{dst})
				}()
				ty := src.Type().Name()
				if pan != nil {
					if !reported["p"+ty] {
						reported["p"+ty] = true
						out = append(out, [2]string{"struct-copy-panicked:" + ty, fmt.Sprintf("%s: %s: CopyTo of %s into %s panicked: %v", name, c07PathString(sp), desc(si), desc(di), pan)})
					}
					continue
				}
				if got := c07Obs(dst, 0); got != want {
					if !reported["d"+ty] {
						reported["d"+ty] = true
						out = append(out, [2]string{"struct-copy-destination-differs:" + ty, fmt.Sprintf("%s: slice %s: after CopyTo of %s into %s the destination differs from the source:\n source      %s\n destination %s", name, c07PathString(sp), desc(si), desc(di), c07Diff(want, got), c07Diff(got, want))})
					}
					continue
				}
				if after := c07Obs(src, 0); after != want {
					if !reported["s"+ty] {
						reported["s"+ty] = true
						out = append(out, [2]string{"struct-copy-changed-its-source:" + ty, fmt.Sprintf("%s: slice %s: CopyTo of %s into %s changed the source", name, c07PathString(sp), desc(si), desc(di))})
					}
				}
			}
		}
	}
	return out, cases
}

// c07Diff shows the part of a around the first position where it differs from b.
func c07Diff(a, b string) string {
	i := 0
	for i < len(a) && i < len(b) && a[i] == b[i] {
		i++
	}
	lo, hi := i-60, i+100
	if lo < 0 {
		lo = 0
	}
	if hi > len(a) {
		hi = len(a)
	}
	return "..." + a[lo:hi] + "..."
}


// c07Usable: v is a live wrapper (the accessor of another one-of alternative returns a wrapper whose every method
// panics by design): its Len, or its first plain reader, works.
func c07Usable(v reflect.Value) (ok bool) {
	defer func() {
		if r := recover(); r != nil {
			ok = false
		}
	}()
	ty := v.Type()
	if _, has := ty.MethodByName("Len"); has {
		v.MethodByName("Len").Call(nil)
		return true
	}
	for i := 0; i < ty.NumMethod(); i++ {
		m := ty.Method(i)
		if m.Type.NumIn() == 1 && m.Type.NumOut() == 1 && !c07IsMutatorName(m.Name) && m.Name != "IsReadOnly" {
			r := v.Method(i).Call(nil)[0]
			if r.Kind() == reflect.Struct && r.NumMethod() > 0 {
				if !c07Usable(r) {
					return false
				}
			}
			return true
		}
	}
	return true
}
