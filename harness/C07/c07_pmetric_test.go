//go:build verif

package pmetric

import "testing"

func c07MetricsPayload() (any, func() []byte) {
	md := NewMetrics()
	rm := md.ResourceMetrics().AppendEmpty()
	rm.Resource().Attributes().PutStr("k", "v")
	sm := rm.ScopeMetrics().AppendEmpty()
	g := sm.Metrics().AppendEmpty()
	g.SetName("g")
	dp := g.SetEmptyGauge().DataPoints().AppendEmpty()
	dp.SetIntValue(1)
	dp.Attributes().PutStr("a", "b")
	dp.Exemplars().AppendEmpty().FilteredAttributes().PutStr("e", "f")
	s := sm.Metrics().AppendEmpty()
	s.SetEmptySum().DataPoints().AppendEmpty().SetDoubleValue(2)
	h := sm.Metrics().AppendEmpty()
	hp := h.SetEmptyHistogram().DataPoints().AppendEmpty()
	hp.BucketCounts().Append(1, 2)
	hp.ExplicitBounds().Append(1.5)
	e := sm.Metrics().AppendEmpty()
	ep := e.SetEmptyExponentialHistogram().DataPoints().AppendEmpty()
	ep.Positive().BucketCounts().Append(3)
	su := sm.Metrics().AppendEmpty()
	su.SetEmptySummary().DataPoints().AppendEmpty().QuantileValues().AppendEmpty().SetQuantile(0.5)
	return md, func() []byte { b, _ := (&ProtoMarshaler{}).MarshalMetrics(md); return b }
}

func TestVerif(t *testing.T) {
	c07Main(t, "pmetric", []any{NewNumberDataPointSlice, NewExemplarSlice, NewMetricSlice, NewResourceMetricsSlice, NewScopeMetricsSlice, NewHistogramDataPointSlice,
		NewExponentialHistogramDataPointSlice, NewSummaryDataPointSlice, NewSummaryDataPointValueAtQuantileSlice},
		map[string]func() (any, func() []byte){"Metrics": c07MetricsPayload})
}
