//go:build verif

package pprofile

import "testing"

func c07ProfilesPayload() (any, func() []byte) {
	pd := NewProfiles()
	rp := pd.ResourceProfiles().AppendEmpty()
	rp.Resource().Attributes().PutStr("k", "v")
	sp := rp.ScopeProfiles().AppendEmpty()
	p := sp.Profiles().AppendEmpty()
	p.Sample().AppendEmpty().Value().Append(1)
	p.SampleType().AppendEmpty().SetTypeStrindex(1)
	p.MappingTable().AppendEmpty().SetMemoryStart(1)
	p.LocationTable().AppendEmpty().Line().AppendEmpty().SetLine(3)
	p.FunctionTable().AppendEmpty().SetNameStrindex(1)
	p.AttributeTable().AppendEmpty().SetKey("k")
	p.AttributeUnits().AppendEmpty().SetUnitStrindex(1)
	p.LinkTable().AppendEmpty()
	p.StringTable().Append("s")
	p.OriginalPayload().Append(1)
	return pd, func() []byte { b, _ := (&ProtoMarshaler{}).MarshalProfiles(pd); return b }
}

func TestVerif(t *testing.T) {
	c07Main(t, "pprofile", []any{NewSampleSlice, NewValueTypeSlice, NewProfilesSlice, NewResourceProfilesSlice, NewScopeProfilesSlice, NewMappingSlice, NewLocationSlice, NewLineSlice,
		NewFunctionSlice, NewAttributeTableSlice, NewAttributeUnitSlice, NewLinkSlice},
		map[string]func() (any, func() []byte){"Profiles": c07ProfilesPayload})
}
