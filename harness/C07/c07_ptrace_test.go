//go:build verif

package ptrace

import "testing"

func c07TracesPayload() (any, func() []byte) {
	td := NewTraces()
	rs := td.ResourceSpans().AppendEmpty()
	rs.Resource().Attributes().PutStr("k", "v")
	ss := rs.ScopeSpans().AppendEmpty()
	sp := ss.Spans().AppendEmpty()
	sp.SetName("s")
	sp.Attributes().PutEmptySlice("l").AppendEmpty().SetStr("x")
	sp.Events().AppendEmpty().Attributes().PutInt("i", 1)
	sp.Links().AppendEmpty().TraceState().FromRaw("a=b")
	sp.TraceState().FromRaw("c=d")
	return td, func() []byte { b, _ := (&ProtoMarshaler{}).MarshalTraces(td); return b }
}

func TestVerif(t *testing.T) {
	c07Main(t, "ptrace", []any{NewSpanSlice, NewSpanEventSlice, NewSpanLinkSlice, NewResourceSpansSlice, NewScopeSpansSlice},
		map[string]func() (any, func() []byte){"Traces": c07TracesPayload})
}
