//go:build verif

package pcommon

// C07 (primitive slices): all programs up to the depth bound over a pool of two slices of each primitive slice type
// (ByteSlice, Float64Slice, Int32Slice, Int64Slice, IntSlice, StringSlice, UInt64Slice), against a plain Go slice per pool
// slot. Capacity is part of the alphabet (EnsureCapacity, FromRaw of an empty slice that owns a backing array), because an
// empty slice with capacity is where a copy can silently share storage with its source.

import (
	"fmt"
)

type c07pSlice[T any, S any] interface {
	AsRaw() []T
	FromRaw([]T)
	Len() int
	At(int) T
	SetAt(int, T)
	EnsureCapacity(int)
	Append(...T)
	MoveTo(S)
	CopyTo(S)
}

var c07pOps = []string{"app1", "app23", "ensure4", "setat0", "fromraw-empty-cap", "fromraw2", "fromrawnil", "asraw-mutate", "fromraw-mutate-raw"}

func c07pRun[T comparable, S c07pSlice[T, S]](name string, newS func() S, mk func(int) T, pool int, prog []c07vOp) (sig, what string) {
	step := -1
	var cur c07vOp
	defer func() {
		if r := recover(); r != nil {
			sig, what = "prim-panic-in-"+cur.K+":"+name, fmt.Sprintf("%s program %v: step %d %v panicked: %v", name, prog, step, cur, r)
		}
	}()
	vals := make([]S, pool)
	model := make([][]T, pool)
	for i := range vals {
		vals[i] = newS()
	}
	for si, o := range prog {
		step, cur = si, o
		v := vals[o.A]
		switch o.K {
		case "app1":
			v.Append(mk(1))
			model[o.A] = append(model[o.A], mk(1))
		case "app23":
			v.Append(mk(2), mk(3))
			model[o.A] = append(model[o.A], mk(2), mk(3))
		case "ensure4":
			v.EnsureCapacity(4)
		case "setat0":
			if v.Len() == 0 {
				return "", ""
			}
			v.SetAt(0, mk(7))
			model[o.A][0] = mk(7)
		case "fromraw-empty-cap":
			v.FromRaw(make([]T, 0, 4))
			model[o.A] = nil
		case "fromraw2":
			v.FromRaw([]T{mk(5), mk(6)})
			model[o.A] = []T{mk(5), mk(6)}
		case "fromrawnil":
			v.FromRaw(nil)
			model[o.A] = nil
		case "asraw-mutate":
			// what AsRaw returns belongs to the caller
			raw := v.AsRaw()
			if len(raw) == 0 {
				raw = append(raw, mk(9))
			} else {
				raw[0] = mk(9)
				raw = append(raw, mk(9))
			}
			_ = raw
		case "fromraw-mutate-raw":
			// what FromRaw was given still belongs to the caller
			raw := make([]T, 2, 4)
			raw[0], raw[1] = mk(5), mk(6)
			v.FromRaw(raw)
			raw[0] = mk(9)
			_ = append(raw, mk(9))
			model[o.A] = []T{mk(5), mk(6)}
		case "copy":
			v.CopyTo(vals[o.B])
			model[o.B] = append([]T(nil), model[o.A]...)
		case "move":
			v.MoveTo(vals[o.B])
			if o.A != o.B {
				model[o.B] = model[o.A]
				model[o.A] = nil
			}
		}
		for i := range vals {
			g := vals[i].AsRaw()
			same := len(g) == len(model[i]) && vals[i].Len() == len(model[i])
			for k := 0; same && k < len(g); k++ {
				same = g[k] == model[i][k] && vals[i].At(k) == model[i][k]
			}
			if !same {
				return "prim-differs-from-model-after-" + o.K + ":" + name, fmt.Sprintf("%s program %v: after step %d %v slice %d is %v, the model says %v", name, prog, si, o, i, g, model[i])
			}
		}
	}
	return "", ""
}

// c07pTypes: one runner per primitive slice type
var c07pTypes = map[string]func(pool int, prog []c07vOp) (string, string){
	"ByteSlice": func(p int, pr []c07vOp) (string, string) {
		return c07pRun[byte, ByteSlice]("ByteSlice", NewByteSlice, func(i int) byte { return byte(i) }, p, pr)
	},
	"Float64Slice": func(p int, pr []c07vOp) (string, string) {
		return c07pRun[float64, Float64Slice]("Float64Slice", NewFloat64Slice, func(i int) float64 { return float64(i) + 0.5 }, p, pr)
	},
	"Int32Slice": func(p int, pr []c07vOp) (string, string) {
		return c07pRun[int32, Int32Slice]("Int32Slice", NewInt32Slice, func(i int) int32 { return int32(i) }, p, pr)
	},
	"Int64Slice": func(p int, pr []c07vOp) (string, string) {
		return c07pRun[int64, Int64Slice]("Int64Slice", NewInt64Slice, func(i int) int64 { return int64(i) }, p, pr)
	},
	"IntSlice": func(p int, pr []c07vOp) (string, string) {
		return c07pRun[int, IntSlice]("IntSlice", NewIntSlice, func(i int) int { return i }, p, pr)
	},
	"StringSlice": func(p int, pr []c07vOp) (string, string) {
		return c07pRun[string, StringSlice]("StringSlice", NewStringSlice, func(i int) string { return fmt.Sprint("s", i) }, p, pr)
	},
	"UInt64Slice": func(p int, pr []c07vOp) (string, string) {
		return c07pRun[uint64, UInt64Slice]("UInt64Slice", NewUInt64Slice, func(i int) uint64 { return uint64(i) }, p, pr)
	},
}
