//go:build verif

package pcommon

// C07 (values and maps): all programs up to a depth bound of public Value / Map operations over a small pool, against a
// plain-Go reference model (any / map[string]any / []any). Because every pool value has its own model value, any aliasing
// between a copy and its source (or between two pool values) shows up as a disagreement after a later mutation.

import (
	"encoding/json"
	"fmt"
	"reflect"
	"strings"
	"testing"

	"VERIF/vr"
)

type c07vOp struct {
	K string `json:"k"`
	A int    `json:"a"`
	B int    `json:"b"`
}

func (o c07vOp) String() string {
	if o.K == "copy" || o.K == "move" {
		return fmt.Sprintf("%s(%d->%d)", o.K, o.A, o.B)
	}
	return fmt.Sprintf("%s(%d)", o.K, o.A)
}

func c07vClone(v any) any {
	switch x := v.(type) {
	case map[string]any:
		n := map[string]any{}
		for k, e := range x {
			n[k] = c07vClone(e)
		}
		return n
	case []any:
		n := make([]any, len(x))
		for i, e := range x {
			n[i] = c07vClone(e)
		}
		return n
	case []byte:
		return append([]byte{}, x...)
	}
	return v
}

func c07vJ(v any) string { b, _ := json.Marshal(v); return fmt.Sprintf("%T:%s", v, b) }

var c07vValueOps = []string{"setstr", "setint1", "setint2", "setdbl", "setbool", "setbytes", "bytesapp", "setmap", "mapput", "mapputint2", "mapremove", "setslice", "sliceapp", "sliceset", "fromrawmap", "fromrawnil"}

// c07vRunValues: pool of Values.
func c07vRunValues(pool int, prog []c07vOp) (sig, what string) {
	step := -1
	var cur c07vOp
	defer func() {
		if r := recover(); r != nil {
			sig, what = "value-panic-in-"+cur.K, fmt.Sprintf("Value program %v: step %d %v panicked: %v", prog, step, cur, r)
		}
	}()
	vals := make([]Value, pool)
	model := make([]any, pool)
	for i := range vals {
		vals[i] = NewValueEmpty()
	}
	for si, o := range prog {
		step, cur = si, o
		v := vals[o.A]
		switch o.K {
		case "setstr":
			v.SetStr("s")
			model[o.A] = "s"
		case "setint1":
			v.SetInt(1)
			model[o.A] = int64(1)
		case "setint2":
			v.SetInt(2)
			model[o.A] = int64(2)
		case "setdbl":
			v.SetDouble(1.5)
			model[o.A] = 1.5
		case "setbool":
			v.SetBool(true)
			model[o.A] = true
		case "setbytes":
			v.SetEmptyBytes().Append(1)
			model[o.A] = []byte{1}
		case "bytesapp":
			if v.Type() != ValueTypeBytes {
				return "", ""
			}
			v.Bytes().Append(9)
			model[o.A] = append(model[o.A].([]byte), 9)
		case "setmap":
			v.SetEmptyMap().PutInt("k", 1)
			model[o.A] = map[string]any{"k": int64(1)}
		case "mapput":
			if v.Type() != ValueTypeMap {
				return "", ""
			}
			v.Map().PutStr("j", "x")
			model[o.A].(map[string]any)["j"] = "x"
		case "mapputint2":
			if v.Type() != ValueTypeMap {
				return "", ""
			}
			v.Map().PutInt("k", 2) // overwrites an existing int entry in place
			model[o.A].(map[string]any)["k"] = int64(2)
		case "mapremove":
			if v.Type() != ValueTypeMap {
				return "", ""
			}
			v.Map().Remove("k")
			delete(model[o.A].(map[string]any), "k")
		case "setslice":
			v.SetEmptySlice().AppendEmpty().SetInt(1)
			model[o.A] = []any{int64(1)}
		case "sliceapp":
			if v.Type() != ValueTypeSlice {
				return "", ""
			}
			v.Slice().AppendEmpty().SetStr("e")
			model[o.A] = append(model[o.A].([]any), "e")
		case "sliceset":
			if v.Type() != ValueTypeSlice || v.Slice().Len() == 0 {
				return "", ""
			}
			v.Slice().At(0).SetInt(5)
			model[o.A].([]any)[0] = int64(5)
		case "fromrawmap":
			if err := v.FromRaw(map[string]any{"r": []any{int64(3), "t"}}); err != nil {
				return "value-fromraw-error", err.Error()
			}
			model[o.A] = map[string]any{"r": []any{int64(3), "t"}}
		case "fromrawnil":
			_ = v.FromRaw(nil)
			model[o.A] = nil
		case "copy":
			v.CopyTo(vals[o.B])
			model[o.B] = c07vClone(model[o.A])
		case "move":
			v.MoveTo(vals[o.B])
			model[o.B] = model[o.A]
			model[o.A] = nil
		}
		for i := range vals {
			if g, w := c07vJ(vals[i].AsRaw()), c07vJ(model[i]); g != w {
				return "value-differs-from-model-after-" + o.K, fmt.Sprintf("Value program %v: after step %d %v value %d is %s, the model says %s", prog, si, o, i, g, w)
			}
		}
	}
	return "", ""
}

var c07vMapOps = []string{"putint1", "putint2", "putstr", "putb", "putmap", "put2maps", "removem", "nestedput", "remove", "removeif", "removeif-set", "removeif-moveout", "clear", "ensurecap", "fromraw"}

func c07vRunMaps(pool int, prog []c07vOp) (sig, what string) {
	step := -1
	var cur c07vOp
	defer func() {
		if r := recover(); r != nil {
			sig, what = "map-panic-in-"+cur.K, fmt.Sprintf("Map program %v: step %d %v panicked: %v", prog, step, cur, r)
		}
	}()
	maps := make([]Map, pool)
	model := make([]map[string]any, pool)
	for i := range maps {
		maps[i] = NewMap()
		model[i] = map[string]any{}
	}
	for si, o := range prog {
		step, cur = si, o
		m, mm := maps[o.A], model[o.A]
		switch o.K {
		case "putint1":
			m.PutInt("a", 1)
			mm["a"] = int64(1)
		case "putint2":
			m.PutInt("a", 2)
			mm["a"] = int64(2)
		case "putstr":
			m.PutStr("a", "s")
			mm["a"] = "s"
		case "putb":
			m.PutBool("b", true)
			mm["b"] = true
		case "putmap":
			m.PutEmptyMap("m").PutInt("x", 1)
			mm["m"] = map[string]any{"x": int64(1)}
		case "put2maps":
			// two map-valued entries with different contents (entries whose one-of wrapper is a pointer)
			m.PutEmptyMap("m").PutInt("x", 1)
			m.PutEmptyMap("n").PutInt("y", 2)
			mm["m"] = map[string]any{"x": int64(1)}
			mm["n"] = map[string]any{"y": int64(2)}
		case "removem":
			m.Remove("m")
			delete(mm, "m")
		case "nestedput":
			v, ok := m.Get("m")
			if !ok || v.Type() != ValueTypeMap {
				return "", ""
			}
			v.Map().PutInt("x", 9)
			mm["m"].(map[string]any)["x"] = int64(9)
		case "remove":
			m.Remove("a")
			delete(mm, "a")
		case "removeif":
			m.RemoveIf(func(k string, _ Value) bool { return k != "b" })
			for k := range mm {
				if k != "b" {
					delete(mm, k)
				}
			}
		case "removeif-set":
			// a predicate may work on the entries it keeps (the split helpers of the batch processor and the exporter helper
			// use RemoveIf that way on their slices): it removes "m" and overwrites every other entry's value
			m.RemoveIf(func(k string, v Value) bool {
				if k == "m" {
					return true
				}
				v.SetStr("T:" + k)
				return false
			})
			delete(mm, "m")
			for k := range mm {
				mm[k] = "T:" + k
			}
		case "removeif-moveout":
			// the predicate moves every value out of the map and keeps the (now empty) entries; what was moved out belongs
			// to its new owner alone
			var out []Value
			m.RemoveIf(func(_ string, v Value) bool {
				x := NewValueEmpty()
				v.MoveTo(x)
				out = append(out, x)
				return false
			})
			for k := range mm {
				mm[k] = nil
			}
			for _, x := range out {
				if x.Type() == ValueTypeMap {
					x.Map().PutInt("moved-out", 1)
				}
			}
		case "clear":
			m.Clear()
			model[o.A] = map[string]any{}
		case "ensurecap":
			m.EnsureCapacity(m.Len() + 2)
		case "fromraw":
			if err := m.FromRaw(map[string]any{"a": int64(7), "z": []any{"q"}}); err != nil {
				return "map-fromraw-error", err.Error()
			}
			model[o.A] = map[string]any{"a": int64(7), "z": []any{"q"}}
		case "copy":
			m.CopyTo(maps[o.B])
			model[o.B] = c07vClone(mm).(map[string]any)
		case "move":
			m.MoveTo(maps[o.B])
			model[o.B] = mm
			model[o.A] = map[string]any{}
		}
		for i := range maps {
			if g, w := maps[i].AsRaw(), model[i]; !reflect.DeepEqual(c07vNorm(g), c07vNorm(w)) {
				return "map-differs-from-model-after-" + o.K, fmt.Sprintf("Map program %v: after step %d %v map %d is %s, the model says %s", prog, si, o, i, c07vJ(g), c07vJ(w))
			}
			if maps[i].Len() != len(model[i]) {
				return "map-len-differs-after-" + o.K, fmt.Sprintf("Map program %v: after step %d %v map %d has Len %d, the model %d (duplicate key?)", prog, si, o, i, maps[i].Len(), len(model[i]))
			}
		}
	}
	return "", ""
}

func c07vNorm(v any) any {
	var x any
	b, _ := json.Marshal(v)
	_ = json.Unmarshal(b, &x)
	return x
}

type c07vCase struct {
	Kind string   `json:"kind"` // values | maps
	Pool int      `json:"pool"`
	Prog []c07vOp `json:"program"`
}

func TestVerifValues(t *testing.T) {
	ctx := vr.Start("C07", "pcommon-values")
	if ctx == nil {
		t.Skip("not driven")
	}
	defer ctx.Finish()
	run := func(c c07vCase) (string, string) {
		if c.Kind == "maps" {
			return c07vRunMaps(c.Pool, c.Prog)
		}
		if f, ok := c07pTypes[strings.TrimPrefix(c.Kind, "prim:")]; ok {
			return f(c.Pool, c.Prog)
		}
		return c07vRunValues(c.Pool, c.Prog)
	}
	if ctx.ReplayRaw != nil {
		var rf struct {
			Replay c07vCase `json:"replay"`
		}
		if err := json.Unmarshal(ctx.ReplayRaw, &rf); err != nil {
			t.Fatal(err)
		}
		sig, what := run(rf.Replay)
		t.Logf("%s %s", sig, what)
		if sig != "" {
			ctx.Violate(sig, what, rf.Replay)
		}
		return
	}
	depth := ctx.Param("vdepth", 4)
	var n int64
	kinds := []string{"values", "maps"}
	for _, t := range []string{"ByteSlice", "Float64Slice", "Int32Slice", "Int64Slice", "IntSlice", "StringSlice", "UInt64Slice"} {
		kinds = append(kinds, "prim:"+t)
	}
	for _, kind := range kinds {
		pool := 2
		ops := c07vValueOps
		if kind == "maps" {
			ops = c07vMapOps
		}
		if strings.HasPrefix(kind, "prim:") {
			ops = c07pOps
		}
		var alpha []c07vOp
		for a := 0; a < pool; a++ {
			for _, k := range ops {
				alpha = append(alpha, c07vOp{k, a, 0})
			}
			for b := 0; b < pool; b++ {
				if a != b {
					alpha = append(alpha, c07vOp{"copy", a, b}, c07vOp{"move", a, b})
				}
			}
		}
		var rec func(p []c07vOp, left int)
		rec = func(p []c07vOp, left int) {
			if len(p) > 0 {
				ctx.R.Evals++
				ctx.R.Trans++
				sig, what := run(c07vCase{kind, pool, p})
				hasCopy := false
				for _, o := range p {
					hasCopy = hasCopy || o.K == "copy" || o.K == "move"
				}
				if hasCopy {
					ctx.Nontrivial(vr.Hash(kind, fmt.Sprint(p)))
				}
				if sig != "" {
					ctx.Violate(sig, what, c07vCase{kind, pool, append([]c07vOp(nil), p...)})
					ctx.Outcome(kind + ":" + strings.SplitN(sig, "-after-", 2)[0])
					return
				}
				ctx.R.Traces++
				ctx.Outcome(kind + ":ok")
				if ctx.R.Evals%50021 == 9 {
					ctx.Sample(map[string]any{"kind": kind, "program": fmt.Sprint(p)})
				}
			}
			if left == 0 {
				return
			}
			for _, a := range alpha {
				if len(p) == 0 {
					n++
					if !ctx.Mine(n) {
						continue
					}
				}
				rec(append(p, a), left-1)
			}
		}
		rec(nil, depth)
	}
	ctx.R.States = ctx.R.Evals
}
