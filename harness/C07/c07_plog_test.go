//go:build verif

package plog

import "testing"

func c07LogsPayload() (any, func() []byte) {
	ld := NewLogs()
	rl := ld.ResourceLogs().AppendEmpty()
	rl.Resource().Attributes().PutStr("k", "v")
	rl.Resource().Attributes().PutEmptyMap("m").PutEmptySlice("s").AppendEmpty().SetInt(1)
	rl.Resource().Attributes().PutEmptyBytes("b").Append(1, 2)
	sl := rl.ScopeLogs().AppendEmpty()
	sl.Scope().SetName("n")
	lr := sl.LogRecords().AppendEmpty()
	lr.Body().SetEmptyMap().PutStr("a", "b")
	lr.Attributes().PutStr("x", "y")
	return ld, func() []byte { b, _ := (&ProtoMarshaler{}).MarshalLogs(ld); return b }
}

func TestVerif(t *testing.T) {
	c07Main(t, "plog", []any{NewLogRecordSlice, NewResourceLogsSlice, NewScopeLogsSlice},
		map[string]func() (any, func() []byte){"Logs": c07LogsPayload})
}
