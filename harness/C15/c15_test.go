//go:build verif

package e2e

// C15 — OTLP exporter -> OTLP receiver preserves data and the meaning of failures.
// Finite grid over loopback, enumerated completely: transport/encoding {gRPC, HTTP-proto, HTTP-JSON} x compression x signal
// {logs, traces, metrics} x payload x consumer outcome {nil, plain error, permanent error, each of the 16 non-OK gRPC codes
// with and without RetryInfo} x auth {off, accepting, rejecting}, plus malformed HTTP requests sent with a raw client.
// Oracle: payload equality; sender sees success iff the consumer accepted; classification tables coded from the OTLP
// specification; malformed / unauthenticated requests get client-error statuses and never reach the consumer.

import (
	"bytes"
	"compress/gzip"
	"compress/zlib"
	"context"
	"encoding/json"
	"io"
	"strconv"

	"github.com/klauspost/compress/zstd"
	"github.com/pierrec/lz4/v4"

	"errors"
	"fmt"
	"net"
	"net/http"
	"regexp"
	"strings"
	"testing"
	"time"

	"google.golang.org/genproto/googleapis/rpc/errdetails"
	spb "google.golang.org/genproto/googleapis/rpc/status"
	"google.golang.org/grpc/codes"
	"google.golang.org/grpc/status"
	"google.golang.org/protobuf/types/known/anypb"
	"google.golang.org/protobuf/types/known/durationpb"

	"go.opentelemetry.io/collector/component"
	"go.opentelemetry.io/collector/config/configauth"
	"go.opentelemetry.io/collector/config/configcompression"
	"go.opentelemetry.io/collector/config/confighttp"
	"go.opentelemetry.io/collector/config/configtls"
	"go.opentelemetry.io/collector/consumer"
	"go.opentelemetry.io/collector/consumer/consumererror"
	"go.opentelemetry.io/collector/consumer/xconsumer"
	"go.opentelemetry.io/collector/exporter/exportertest"
	"go.opentelemetry.io/collector/exporter/otlpexporter"
	"go.opentelemetry.io/collector/exporter/otlphttpexporter"
	"go.opentelemetry.io/collector/exporter/xexporter"
	"go.opentelemetry.io/collector/extension/extensionauth/extensionauthtest"
	"go.opentelemetry.io/collector/pdata/pcommon"
	"go.opentelemetry.io/collector/pdata/plog"
	"go.opentelemetry.io/collector/pdata/pmetric"
	"go.opentelemetry.io/collector/pdata/pprofile"
	"go.opentelemetry.io/collector/pdata/ptrace"
	"go.opentelemetry.io/collector/receiver/otlpreceiver"
	"go.opentelemetry.io/collector/receiver/receivertest"
	"go.opentelemetry.io/collector/receiver/xreceiver"

	"VERIF/vr"
)

func c15FreeAddr() string {
	l, _ := net.Listen("tcp", "127.0.0.1:0")
	defer l.Close()
	return l.Addr().String()
}

type c15Host struct {
	ext map[component.ID]component.Component
}

func (h c15Host) GetExtensions() map[component.ID]component.Component { return h.ext }

type c15Outcome struct {
	Name      string
	err       error
	grpcClass string // ok | permanent | retry | throttle:<d>
	httpClass string
	// on the wire (OTLP/HTTP): the status code the receiver must answer with and whether Retry-After must be present
	httpStatus int
	retryAfter bool
}

func c15HTTPStatus(c codes.Code) int {
	switch c {
	case codes.Canceled, codes.DeadlineExceeded, codes.Aborted, codes.OutOfRange, codes.Unavailable, codes.DataLoss:
		return 503
	case codes.ResourceExhausted:
		return 429
	case codes.InvalidArgument:
		return 400
	case codes.Unauthenticated:
		return 401
	case codes.PermissionDenied:
		return 403
	case codes.Unimplemented:
		return 404
	}
	return 500
}

func c15Retryable(c codes.Code) bool {
	switch c {
	case codes.Canceled, codes.DeadlineExceeded, codes.Aborted, codes.OutOfRange, codes.Unavailable, codes.DataLoss:
		return true
	}
	return false
}

// OTLP specification, "OTLP/HTTP Response / Failures" and the gRPC->HTTP mapping the receiver must apply; then the class the
// SENDER must derive from that HTTP status (429/502/503/504 retryable, Retry-After honoured).
func c15HTTPClass(c codes.Code, delay time.Duration) string {
	var hs int
	switch c {
	case codes.Canceled, codes.DeadlineExceeded, codes.Aborted, codes.OutOfRange, codes.Unavailable, codes.DataLoss:
		hs = 503
	case codes.ResourceExhausted:
		hs = 429
	case codes.InvalidArgument:
		hs = 400
	case codes.Unauthenticated:
		hs = 401
	case codes.PermissionDenied:
		hs = 403
	case codes.Unimplemented:
		hs = 404
	default:
		hs = 500
	}
	switch hs {
	case 429, 503:
		if delay > 0 {
			return fmt.Sprintf("throttle:%v", delay)
		}
		return "retry"
	case 502, 504:
		return "retry"
	}
	return "permanent"
}

func c15Outcomes() []c15Outcome {
	out := []c15Outcome{
		{"nil", nil, "ok", "ok", 200, false},
		{"plain-error", errors.New("boom"), "retry", "retry", 503, false},
		{"permanent-error", consumererror.NewPermanent(errors.New("perm")), "permanent", "permanent", 500, false},
		// a permanent error is permanent whatever its cause chain holds (a downstream call that gave up on ITS context)
		{"permanent-error-wrapping-deadline-exceeded", consumererror.NewPermanent(fmt.Errorf("downstream: %w", context.DeadlineExceeded)), "permanent", "permanent", 500, false},
		{"permanent-error-wrapping-canceled", consumererror.NewPermanent(fmt.Errorf("downstream: %w", context.Canceled)), "permanent", "permanent", 500, false},
		{"wrapped-permanent-error", fmt.Errorf("stage: %w", consumererror.NewPermanent(errors.New("perm"))), "permanent", "permanent", 500, false},
	}
	for c := codes.Canceled; c <= codes.Unauthenticated; c++ {
		for _, d := range []time.Duration{0, 2 * time.Second} {
			st := status.New(c, "x")
			if d > 0 {
				st, _ = st.WithDetails(&errdetails.RetryInfo{RetryDelay: durationpb.New(d)})
			}
			g := "permanent"
			switch {
			case c15Retryable(c) && d > 0:
				g = fmt.Sprintf("throttle:%v", d)
			case c15Retryable(c):
				g = "retry"
			case c == codes.ResourceExhausted && d > 0:
				g = fmt.Sprintf("throttle:%v", d) // RESOURCE_EXHAUSTED is retryable only when the server signals recovery with RetryInfo
			}
			hs := c15HTTPStatus(c)
			ra := d > 0 && (hs == 429 || hs == 503)
			out = append(out, c15Outcome{fmt.Sprintf("%v/retry-delay=%v", c, d), st.Err(), g, c15HTTPClass(c, d), hs, ra})
			// the same status inside a permanent error (what an OTLP exporter returns for a non-retryable reply in a
			// collector-to-collector chain): "a consumer error carrying an explicit gRPC status is reported with that status"
			out = append(out, c15Outcome{fmt.Sprintf("permanent+%v/retry-delay=%v", c, d), consumererror.NewPermanent(st.Err()), g, c15HTTPClass(c, d), hs, ra})
		}
	}
	// a requested delay that is not a whole number of seconds: gRPC carries it exactly; the HTTP Retry-After header holds
	// whole seconds, rounded either way - but the delay is honoured
	for _, c := range []codes.Code{codes.Unavailable, codes.ResourceExhausted} {
		d := 2500 * time.Millisecond
		st, _ := status.New(c, "x").WithDetails(&errdetails.RetryInfo{RetryDelay: durationpb.New(d)})
		out = append(out, c15Outcome{fmt.Sprintf("%v/retry-delay=%v", c, d), st.Err(), fmt.Sprintf("throttle:%v", d), "throttle:2s|throttle:3s", c15HTTPStatus(c), true})
	}
	// RetryInfo among OTHER status details (a backend's quota / debug message forwarded verbatim): a well-known detail type
	// and one whose message type is not linked into this binary (gRPC carries details as opaque Any values, so that is legal),
	// before and after the RetryInfo. The requested delay is the same requested delay.
	for _, c := range []codes.Code{codes.Unavailable, codes.ResourceExhausted, codes.Aborted} {
		d := 2 * time.Second
		ri, _ := anypb.New(&errdetails.RetryInfo{RetryDelay: durationpb.New(d)})
		ei, _ := anypb.New(&errdetails.ErrorInfo{Reason: "quota", Domain: "backend.example"})
		unk := &anypb.Any{TypeUrl: "type.googleapis.com/vendor.example.QuotaDetail", Value: []byte{0x0a, 0x03, 'a', 'b', 'c'}}
		for name, details := range map[string][]*anypb.Any{
			"known-detail-first": {ei, ri}, "known-detail-last": {ri, ei},
			"unlinked-detail-first": {unk, ri}, "unlinked-detail-last": {ri, unk}, "unlinked-and-known-first": {unk, ei, ri},
		} {
			st := status.FromProto(&spb.Status{Code: int32(c), Message: "x", Details: details})
			g := fmt.Sprintf("throttle:%v", d)
			hs := c15HTTPStatus(c)
			out = append(out, c15Outcome{fmt.Sprintf("%v/retry-delay=%v/%s", c, d, name), st.Err(), g, c15HTTPClass(c, d), hs, hs == 429 || hs == 503})
		}
	}
	return out
}

// c15ClassIn: want may list alternatives ("a|b") where the specification leaves a choice (rounding of a delay that is not a
// whole number of seconds into the integer Retry-After header)
func c15ClassIn(got, want string) bool {
	for _, w := range strings.Split(want, "|") {
		if got == w {
			return true
		}
	}
	return false
}

var c15ThrottleRe = regexp.MustCompile(`Throttle \(([^)]+)\)`)

func c15Classify(err error) string {
	switch {
	case err == nil:
		return "ok"
	case consumererror.IsPermanent(err):
		return "permanent"
	}
	if m := c15ThrottleRe.FindStringSubmatch(err.Error()); m != nil {
		if d, e := time.ParseDuration(m[1]); e == nil {
			if d == 0 {
				return "retry" // a zero throttle delay is an ordinary retryable error
			}
			return fmt.Sprintf("throttle:%v", d)
		}
	}
	return "retry"
}

func c15Attrs(m pcommon.Map, k int) {
	m.PutStr("s", "é\"x")
	if k == 2 { // a large payload: several compression blocks/windows, several HTTP/2 frames
		m.PutStr("big", c15Big)
	}
	if k > 0 {
		m.PutInt("i", 1<<53+1)
		m.PutDouble("d", 1.5)
		m.PutBool("b", true)
		m.PutEmptyBytes("by").Append(0, 255)
		m.PutEmptyMap("m").PutEmptySlice("l").AppendEmpty().SetStr("x")
	}
}

// c15Big: 600 KiB of text that compresses badly (a fixed linear congruential sequence)
var c15Big = func() string {
	b := make([]byte, 600<<10)
	x := uint32(12345)
	for i := range b {
		x = x*1664525 + 1013904223
		b[i] = "abcdefghijklmnopqrstuvwxyzABCDEFGHIJKLMNOPQRSTUVWXYZ0123456789+/"[x>>26]
	}
	return string(b)
}()

type c15Sig struct {
	name string
	// send builds payload variant k, sends it through exporter exp, returns the JSON observation of what was sent
	send func(exp any, k int) (string, error)
}

type c15World struct {
	cur      error
	gotJSON  []string
	gaddr    string
	haddr    string
	shutdown []func()
}

func (w *c15World) stop() {
	for i := len(w.shutdown) - 1; i >= 0; i-- {
		w.shutdown[i]()
	}
}

func c15StartReceiver(auth string) (*c15World, error) {
	ctx := context.Background()
	w := &c15World{gaddr: c15FreeAddr(), haddr: c15FreeAddr()}
	rf := otlpreceiver.NewFactory()
	rcfg := rf.CreateDefaultConfig().(*otlpreceiver.Config)
	rcfg.GRPC.NetAddr.Endpoint = w.gaddr
	rcfg.HTTP.ServerConfig.Endpoint = w.haddr
	host := c15Host{ext: map[component.ID]component.Component{}}
	if auth != "off" {
		id := component.MustNewID("authx")
		if auth == "accept" {
			host.ext[id] = extensionauthtest.NewNopServer()
		} else {
			host.ext[id] = extensionauthtest.NewErr(errors.New("not allowed"))
		}
		rcfg.GRPC.Auth = &configauth.Authentication{AuthenticatorID: id}
		rcfg.HTTP.ServerConfig.Auth = &confighttp.AuthConfig{Authentication: configauth.Authentication{AuthenticatorID: id}}
	}
	set := receivertest.NewNopSettings(rf.Type())
	sinkL, _ := consumer.NewLogs(func(_ context.Context, ld plog.Logs) error {
		b, _ := (&plog.JSONMarshaler{}).MarshalLogs(ld)
		w.gotJSON = append(w.gotJSON, string(b))
		return w.cur
	})
	sinkT, _ := consumer.NewTraces(func(_ context.Context, td ptrace.Traces) error {
		b, _ := (&ptrace.JSONMarshaler{}).MarshalTraces(td)
		w.gotJSON = append(w.gotJSON, string(b))
		return w.cur
	})
	sinkM, _ := consumer.NewMetrics(func(_ context.Context, md pmetric.Metrics) error {
		b, _ := (&pmetric.JSONMarshaler{}).MarshalMetrics(md)
		w.gotJSON = append(w.gotJSON, string(b))
		return w.cur
	})
	sinkP, _ := xconsumer.NewProfiles(func(_ context.Context, pd pprofile.Profiles) error {
		b, _ := (&pprofile.JSONMarshaler{}).MarshalProfiles(pd)
		w.gotJSON = append(w.gotJSON, string(b))
		return w.cur
	})
	rp, err := rf.(xreceiver.Factory).CreateProfiles(ctx, set, rcfg, sinkP)
	if err != nil {
		return nil, err
	}
	rl, err := rf.CreateLogs(ctx, set, rcfg, sinkL)
	if err != nil {
		return nil, err
	}
	rt, err := rf.CreateTraces(ctx, set, rcfg, sinkT)
	if err != nil {
		return nil, err
	}
	rm, err := rf.CreateMetrics(ctx, set, rcfg, sinkM)
	if err != nil {
		return nil, err
	}
	for _, r := range []component.Component{rl, rt, rm, rp} {
		if err := r.Start(ctx, host); err != nil {
			return nil, err
		}
		r := r
		w.shutdown = append(w.shutdown, func() { _ = r.Shutdown(ctx) })
	}
	return w, nil
}

type c15Sender struct {
	name string
	http bool
	// levelOnly: a sender that differs from another one only in its compression level; it carries the success cases only
	levelOnly bool
	logs      consumer.Logs
	trcs      consumer.Traces
	mets      consumer.Metrics
	prof      xconsumer.Profiles
}

// c15Levels: explicit compression levels for the HTTP exporter (the gRPC client has no level setting), on top of the default
var c15Levels = map[configcompression.Type][]configcompression.Level{"zstd": {3, 11}, "gzip": {9}}

func c15Senders(w *c15World, comps []configcompression.Type, skipped *[]string) []c15Sender {
	ctx := context.Background()
	var out []c15Sender
	host := c15Host{ext: map[component.ID]component.Component{}}
	for _, comp := range comps {
		func() {
			gf := otlpexporter.NewFactory()
			gc := gf.CreateDefaultConfig().(*otlpexporter.Config)
			gc.ClientConfig.Endpoint = w.gaddr
			gc.ClientConfig.TLSSetting = configtls.ClientConfig{Insecure: true}
			gc.ClientConfig.Compression = comp
			gc.RetryConfig.Enabled = false
			gc.QueueConfig.Enabled = false
			set := exportertest.NewNopSettings(gf.Type())
			l, e1 := gf.CreateLogs(ctx, set, gc)
			tr, e2 := gf.CreateTraces(ctx, set, gc)
			m, e3 := gf.CreateMetrics(ctx, set, gc)
			pr, e4 := gf.(xexporter.Factory).CreateProfiles(ctx, set, gc)
			if e1 != nil || e2 != nil || e3 != nil || e4 != nil {
				*skipped = append(*skipped, "grpc/"+string(comp)+": create failed")
				return
			}
			for _, c := range []component.Component{l, tr, m, pr} {
				if err := c.Start(ctx, host); err != nil {
					*skipped = append(*skipped, fmt.Sprintf("grpc/%s: %v", comp, err))
					return
				}
				c := c
				w.shutdown = append(w.shutdown, func() { _ = c.Shutdown(ctx) })
			}
			out = append(out, c15Sender{"grpc/" + string(comp), false, false, l, tr, m, pr})
		}()
		for _, enc := range []otlphttpexporter.EncodingType{otlphttpexporter.EncodingProto, otlphttpexporter.EncodingJSON} {
			for _, level := range append([]configcompression.Level{0}, c15Levels[comp]...) {
				if level != 0 && enc != otlphttpexporter.EncodingProto {
					continue
				}
				func() {
					hf := otlphttpexporter.NewFactory()
					hc := hf.CreateDefaultConfig().(*otlphttpexporter.Config)
					hc.ClientConfig.Endpoint = "http://" + w.haddr
					hc.ClientConfig.Compression = comp
					lname := ""
					if level != 0 {
						hc.ClientConfig.CompressionParams = configcompression.CompressionParams{Level: level}
						lname = fmt.Sprintf("-level%d", level)
					}
					hc.Encoding = enc
					hc.RetryConfig.Enabled = false
					hc.QueueConfig.Enabled = false
					set := exportertest.NewNopSettings(hf.Type())
					l, e1 := hf.CreateLogs(ctx, set, hc)
					tr, e2 := hf.CreateTraces(ctx, set, hc)
					m, e3 := hf.CreateMetrics(ctx, set, hc)
					pr, e4 := hf.(xexporter.Factory).CreateProfiles(ctx, set, hc)
					if e1 != nil || e2 != nil || e3 != nil || e4 != nil {
						*skipped = append(*skipped, "http-"+string(enc)+"/"+string(comp)+": create failed")
						return
					}
					for _, c := range []component.Component{l, tr, m, pr} {
						if err := c.Start(ctx, host); err != nil {
							*skipped = append(*skipped, fmt.Sprintf("http-%s/%s: %v", enc, comp, err))
							return
						}
						c := c
						w.shutdown = append(w.shutdown, func() { _ = c.Shutdown(ctx) })
					}
					out = append(out, c15Sender{"http-" + string(enc) + "/" + string(comp) + lname, true, level != 0, l, tr, m, pr})
				}()
			}
		}
	}
	return out
}

func c15Send(s c15Sender, signal string, k int) (string, error) {
	ctx := context.Background()
	switch signal {
	case "logs":
		ld := plog.NewLogs()
		for r := 0; r <= k%2; r++ {
			rl := ld.ResourceLogs().AppendEmpty()
			c15Attrs(rl.Resource().Attributes(), k)
			rl.SetSchemaUrl("rs")
			lr := rl.ScopeLogs().AppendEmpty().LogRecords().AppendEmpty()
			lr.Body().SetStr("hello")
			lr.SetSeverityText("INFO")
			lr.SetSeverityNumber(plog.SeverityNumberInfo)
			lr.SetEventName("ev")
			c15Attrs(lr.Attributes(), k)
		}
		b, _ := (&plog.JSONMarshaler{}).MarshalLogs(ld)
		return string(b), s.logs.ConsumeLogs(ctx, ld)
	case "traces":
		td := ptrace.NewTraces()
		for r := 0; r <= k%2; r++ {
			rs := td.ResourceSpans().AppendEmpty()
			c15Attrs(rs.Resource().Attributes(), k)
			sp := rs.ScopeSpans().AppendEmpty().Spans().AppendEmpty()
			sp.SetName("op")
			sp.SetKind(ptrace.SpanKindServer)
			sp.SetTraceID(pcommon.TraceID([16]byte{1, 2, 3}))
			sp.SetSpanID(pcommon.SpanID([8]byte{4, 5}))
			sp.Events().AppendEmpty().SetName("e")
			sp.Status().SetCode(ptrace.StatusCodeError)
		}
		b, _ := (&ptrace.JSONMarshaler{}).MarshalTraces(td)
		return string(b), s.trcs.ConsumeTraces(ctx, td)
	case "profiles":
		pd := pprofile.NewProfiles()
		for r := 0; r <= k%2; r++ {
			rp := pd.ResourceProfiles().AppendEmpty()
			c15Attrs(rp.Resource().Attributes(), k)
			rp.SetSchemaUrl("rs")
			pf := rp.ScopeProfiles().AppendEmpty().Profiles().AppendEmpty()
			pf.SetProfileID(pprofile.ProfileID([16]byte{9, 8, 7}))
			pf.SetOriginalPayloadFormat("fmt")
			pf.OriginalPayload().Append(1, 2, 255)
			sm := pf.Sample().AppendEmpty()
			sm.SetLocationsStartIndex(1)
			sm.Value().Append(3, -4)
			pf.StringTable().Append("", "a")
		}
		b, _ := (&pprofile.JSONMarshaler{}).MarshalProfiles(pd)
		return string(b), s.prof.ConsumeProfiles(ctx, pd)
	default:
		md := pmetric.NewMetrics()
		for r := 0; r <= k%2; r++ {
			rm := md.ResourceMetrics().AppendEmpty()
			c15Attrs(rm.Resource().Attributes(), k)
			sm := rm.ScopeMetrics().AppendEmpty()
			g := sm.Metrics().AppendEmpty()
			g.SetName("g")
			g.SetEmptyGauge().DataPoints().AppendEmpty().SetDoubleValue(1.25)
			h := sm.Metrics().AppendEmpty()
			h.SetName("h")
			hp := h.SetEmptyExponentialHistogram().DataPoints().AppendEmpty()
			hp.SetZeroThreshold(0.5)
			hp.Positive().BucketCounts().Append(1, 2)
			su := sm.Metrics().AppendEmpty()
			su.SetName("s")
			sd := su.SetEmptySum()
			sd.SetIsMonotonic(true)
			sd.SetAggregationTemporality(pmetric.AggregationTemporalityDelta)
			sd.DataPoints().AppendEmpty().SetIntValue(-1)
		}
		b, _ := (&pmetric.JSONMarshaler{}).MarshalMetrics(md)
		return string(b), s.mets.ConsumeMetrics(ctx, md)
	}
}

// c15SendEmpty sends a request without items: completely empty, or (shaped) with a resource and a scope that hold nothing
func c15SendEmpty(s c15Sender, signal string, shaped bool) error {
	ctx := context.Background()
	switch signal {
	case "logs":
		ld := plog.NewLogs()
		if shaped {
			rl := ld.ResourceLogs().AppendEmpty()
			rl.Resource().Attributes().PutStr("k", "v")
			rl.ScopeLogs().AppendEmpty().Scope().SetName("s")
			ld.ResourceLogs().AppendEmpty()
		}
		return s.logs.ConsumeLogs(ctx, ld)
	case "traces":
		td := ptrace.NewTraces()
		if shaped {
			rs := td.ResourceSpans().AppendEmpty()
			rs.Resource().Attributes().PutStr("k", "v")
			rs.ScopeSpans().AppendEmpty().Scope().SetName("s")
			td.ResourceSpans().AppendEmpty()
		}
		return s.trcs.ConsumeTraces(ctx, td)
	case "profiles":
		pd := pprofile.NewProfiles()
		if shaped {
			rp := pd.ResourceProfiles().AppendEmpty()
			rp.Resource().Attributes().PutStr("k", "v")
			rp.ScopeProfiles().AppendEmpty().Scope().SetName("s")
			pd.ResourceProfiles().AppendEmpty()
		}
		return s.prof.ConsumeProfiles(ctx, pd)
	}
	md := pmetric.NewMetrics()
	if shaped {
		rm := md.ResourceMetrics().AppendEmpty()
		rm.Resource().Attributes().PutStr("k", "v")
		sm := rm.ScopeMetrics().AppendEmpty()
		sm.Scope().SetName("s")
		sm.Metrics().AppendEmpty().SetName("metric-without-data-points")
		md.ResourceMetrics().AppendEmpty()
	}
	return s.mets.ConsumeMetrics(ctx, md)
}

type c15Case struct {
	Auth    string `json:"auth"`
	Sender  string `json:"sender"`
	Signal  string `json:"signal"`
	Payload int    `json:"payload"`
	Outcome string `json:"consumer_outcome"`
	Raw     string `json:"raw_request,omitempty"`
}

func c15RunCase(w *c15World, senders []c15Sender, outcomes []c15Outcome, c c15Case) (string, string) {
	desc := fmt.Sprintf("%+v", c)
	if c.Raw != "" {
		return c15Raw(w, c)
	}
	var s *c15Sender
	for i := range senders {
		if senders[i].name == c.Sender {
			s = &senders[i]
		}
	}
	if s == nil {
		return "", ""
	}
	tr := "grpc"
	if s.http {
		tr = "http"
	}
	if c.Outcome == "empty-request" || c.Outcome == "no-items-request" {
		shaped := c.Outcome == "no-items-request"
		w.cur, w.gotJSON = errors.New("must not be called"), nil
		if c.Auth == "reject" {
			if err := c15SendEmpty(*s, c.Signal, shaped); len(w.gotJSON) != 0 {
				return "unauthenticated-reached-consumer:" + tr, fmt.Sprintf("%s err=%v", desc, err)
			}
			return "", ""
		}
		if err := c15SendEmpty(*s, c.Signal, shaped); err != nil || len(w.gotJSON) != 0 {
			return c.Outcome + ":" + tr, fmt.Sprintf("%s: a request without items must be acknowledged without invoking the consumer: err=%v consumer calls=%d", desc, err, len(w.gotJSON))
		}
		return "", ""
	}
	var o *c15Outcome
	for i := range outcomes {
		if outcomes[i].Name == c.Outcome {
			o = &outcomes[i]
		}
	}
	w.cur, w.gotJSON = o.err, nil
	sent, err := c15Send(*s, c.Signal, c.Payload)
	if c.Auth == "reject" {
		if len(w.gotJSON) != 0 {
			return "unauthenticated-reached-consumer:" + tr, desc
		}
		if err == nil {
			return "unauthenticated-acknowledged:" + tr, desc
		}
		if !consumererror.IsPermanent(err) {
			return "unauthenticated-not-a-client-error:" + tr, fmt.Sprintf("%s: err=%v", desc, err)
		}
		return "", ""
	}
	if len(w.gotJSON) != 1 {
		return "consumer-invocations:" + tr, fmt.Sprintf("%s: the consumer was invoked %d times", desc, len(w.gotJSON))
	}
	if w.gotJSON[0] != sent {
		return "payload-differs:" + tr + ":" + c.Signal, fmt.Sprintf("%s: sent %s received %s", desc, sent, w.gotJSON[0])
	}
	want := o.grpcClass
	if s.http {
		want = o.httpClass
	}
	if g := c15Classify(err); !c15ClassIn(g, want) {
		return fmt.Sprintf("classification:%s:%s:got=%s,spec=%s", tr, strings.SplitN(o.Name, "/", 2)[0], strings.SplitN(g, ":", 2)[0], strings.SplitN(want, ":", 2)[0]), fmt.Sprintf("%s: consumer outcome %s was seen by the sender as %q (err=%v); the OTLP specification prescribes %q", desc, o.Name, g, err, want)
	}
	return "", ""
}

// c15Compressed: a two-resource request of the signal, compressed with a flush between the two resources - so that some
// strict prefix of the stream decodes (up to the missing end of stream) to a WELL-FORMED one-resource request. Only
// self-delimiting formats are used (the end of the stream is marked, so every strict prefix is detectably malformed).
func c15Compressed(alg, signal string) []byte {
	var one, two []byte
	if signal == "traces" {
		td := ptrace.NewTraces()
		td.ResourceSpans().AppendEmpty().ScopeSpans().AppendEmpty().Spans().AppendEmpty().SetName("x")
		one, _ = (&ptrace.ProtoMarshaler{}).MarshalTraces(td)
		td.ResourceSpans().AppendEmpty().ScopeSpans().AppendEmpty().Spans().AppendEmpty().SetName("second resource")
		two, _ = (&ptrace.ProtoMarshaler{}).MarshalTraces(td)
	} else {
		ld := plog.NewLogs()
		ld.ResourceLogs().AppendEmpty().ScopeLogs().AppendEmpty().LogRecords().AppendEmpty().Body().SetStr("x")
		one, _ = (&plog.ProtoMarshaler{}).MarshalLogs(ld)
		ld.ResourceLogs().AppendEmpty().ScopeLogs().AppendEmpty().LogRecords().AppendEmpty().Body().SetStr("second resource")
		two, _ = (&plog.ProtoMarshaler{}).MarshalLogs(ld)
	}
	if !bytes.HasPrefix(two, one) {
		panic("harness: the one-resource encoding is not a prefix of the two-resource one")
	}
	var buf bytes.Buffer
	var wr interface {
		io.WriteCloser
		Flush() error
	}
	switch alg {
	case "gzip":
		wr = gzip.NewWriter(&buf)
	case "zlib", "deflate":
		wr = zlib.NewWriter(&buf)
	case "zstd":
		zw, _ := zstd.NewWriter(&buf, zstd.WithEncoderConcurrency(1))
		wr = zw
	case "lz4":
		wr = lz4.NewWriter(&buf)
	default:
		panic("harness: " + alg)
	}
	_, _ = wr.Write(one)
	_ = wr.Flush()
	_, _ = wr.Write(two[len(one):])
	_ = wr.Close()
	return buf.Bytes()
}

// lz4 is not in the server's default decoder list
var c15ServerHasLz4 = false

func c15Raw(w *c15World, c c15Case) (string, string) {
	w.cur, w.gotJSON = nil, nil
	url := "http://" + w.haddr + "/v1/" + c.Signal
	if c.Signal == "profiles" {
		url = "http://" + w.haddr + "/v1development/profiles"
	}
	ld := plog.NewLogs()
	ld.ResourceLogs().AppendEmpty().ScopeLogs().AppendEmpty().LogRecords().AppendEmpty().Body().SetStr("x")
	good, _ := (&plog.ProtoMarshaler{}).MarshalLogs(ld)
	method, ct, ce, body := http.MethodPost, "application/x-protobuf", "", good
	switch c.Raw {
	case "garbage-protobuf":
		body = []byte{0xff, 0xff, 0xff, 0xff, 0x01}
	case "truncated-protobuf":
		body = good[:len(good)-2]
	case "garbage-json":
		ct, body = "application/json", []byte(`{"resourceLogs":[{`)
	case "wrong-content-type":
		ct = "text/plain"
	case "no-content-type":
		ct = ""
	case "method-get":
		method, body = http.MethodGet, nil
	case "method-put":
		method = http.MethodPut
	case "unknown-content-encoding":
		ce = "br-unknown"
	case "corrupt-gzip":
		ce, body = "gzip", []byte{0x1f, 0x8b, 0x00, 0x01}
	case "empty-request-protobuf":
		body = []byte{}
	default:
		if f := strings.Split(c.Raw, ":"); f[0] == "truncated-stream" {
			// truncated-stream:<alg>:<n> - the first n bytes of the compressed two-resource request
			n, _ := strconv.Atoi(f[2])
			ce, body = f[1], c15Compressed(f[1], c.Signal)[:n]
		}
	case "empty-request-json":
		ct, body = "application/json", []byte(`{}`)
	}
	w.cur = errors.New("must not be called")
	var wire *c15Outcome
	if strings.HasPrefix(c.Raw, "wire:") {
		// a VALID request answered according to the consumer's outcome: the status code and Retry-After header on the wire
		for i, o := range c15Outcomes() {
			if o.Name == strings.TrimPrefix(c.Raw, "wire:") {
				oo := c15Outcomes()[i]
				wire = &oo
			}
		}
		if wire == nil {
			return "harness", "unknown outcome " + c.Raw
		}
		w.cur = wire.err
		if c.Signal == "traces" {
			td := ptrace.NewTraces()
			td.ResourceSpans().AppendEmpty().ScopeSpans().AppendEmpty().Spans().AppendEmpty().SetName("x")
			body, _ = (&ptrace.ProtoMarshaler{}).MarshalTraces(td)
		}
	}
	req, _ := http.NewRequest(method, url, bytes.NewReader(body))
	if ct != "" {
		req.Header.Set("Content-Type", ct)
	}
	if ce != "" {
		req.Header.Set("Content-Encoding", ce)
	}
	resp, err := http.DefaultClient.Do(req)
	if err != nil {
		return "raw-client-error", fmt.Sprintf("%+v: %v", c, err)
	}
	resp.Body.Close()
	if wire != nil {
		if resp.StatusCode != wire.httpStatus {
			return fmt.Sprintf("wire-status:%s:got=%d,spec=%d", strings.SplitN(wire.Name, "/", 2)[0], resp.StatusCode, wire.httpStatus), fmt.Sprintf("%+v: consumer outcome %s answered with HTTP %d, the OTLP specification's mapping prescribes %d", c, wire.Name, resp.StatusCode, wire.httpStatus)
		}
		if has := resp.Header.Get("Retry-After") != ""; has != wire.retryAfter {
			return fmt.Sprintf("wire-retry-after:%s:got=%v,spec=%v", strings.SplitN(wire.Name, "/", 2)[0], has, wire.retryAfter), fmt.Sprintf("%+v: consumer outcome %s: Retry-After header present=%v, expected %v (status %d)", c, wire.Name, has, wire.retryAfter, resp.StatusCode)
		}
		return "", ""
	}
	if strings.HasPrefix(c.Raw, "empty-request") {
		if resp.StatusCode/100 != 2 || len(w.gotJSON) != 0 {
			return "empty-request:raw", fmt.Sprintf("%+v: a request without items must be acknowledged without invoking the consumer: status=%d consumer calls=%d", c, resp.StatusCode, len(w.gotJSON))
		}
		return "", ""
	}
	kind := c.Raw
	if f := strings.Split(kind, ":"); f[0] == "truncated-stream" {
		kind = f[0] + ":" + f[1]
	}
	if resp.StatusCode/100 != 4 {
		return "malformed-not-client-error:" + kind, fmt.Sprintf("%+v: status %d", c, resp.StatusCode)
	}
	if len(w.gotJSON) != 0 {
		return "malformed-reached-consumer:" + kind, fmt.Sprintf("%+v", c)
	}
	return "", ""
}

func TestVerif(t *testing.T) {
	ctx := vr.Start("C15", "otlp")
	if ctx == nil {
		t.Skip("not driven")
	}
	defer ctx.Finish()
	comps := []configcompression.Type{"none", "gzip", "zstd", "snappy"}
	if !ctx.Quick() {
		comps = append(comps, "zlib", "deflate", "lz4")
	}
	outcomes := c15Outcomes()
	var replay *c15Case
	if ctx.ReplayRaw != nil {
		var rf struct {
			Replay c15Case `json:"replay"`
		}
		if err := json.Unmarshal(ctx.ReplayRaw, &rf); err != nil {
			t.Fatal(err)
		}
		replay = &rf.Replay
	}
	var skipped []string
	var n int64
	for _, auth := range []string{"off", "accept", "reject"} {
		if replay != nil && replay.Auth != auth {
			continue
		}
		w, err := c15StartReceiver(auth)
		for try := 0; err != nil && try < 5; try++ {
			// the two free ports are picked and released before the receiver binds them: another process may take one in between
			time.Sleep(50 * time.Millisecond)
			w, err = c15StartReceiver(auth)
		}
		if err != nil {
			ctx.Infra("receiver (auth=%s): %v", auth, err)
			continue
		}
		senders := c15Senders(w, comps, &skipped)
		run := func(c c15Case) {
			if replay != nil {
				if *replay != c {
					return
				}
			} else {
				n++
				if !ctx.Mine(n) {
					return
				}
			}
			ctx.R.Evals++
			ctx.R.Trans++
			ctx.Nontrivial(vr.Hash(fmt.Sprint(c)))
			sig, what := c15RunCase(w, senders, outcomes, c)
			if sig != "" {
				ctx.Violate(sig, what, c)
				ctx.Outcome(strings.SplitN(sig, ":", 2)[0])
			} else {
				ctx.R.Traces++
				ctx.Outcome("agrees:" + auth)
			}
			if ctx.R.Evals%401 == 5 {
				ctx.Sample(c)
			}
		}
		for _, s := range senders {
			for _, sig := range []string{"logs", "traces", "metrics", "profiles"} {
				for _, o := range outcomes {
					if auth != "off" && o.Name != "nil" && o.Name != "plain-error" {
						continue
					}
					if s.levelOnly && (o.Name != "nil" || auth != "off") {
						continue
					}
					for k := 0; k < 3; k++ {
						if k == 1 && o.Name != "nil" && o.Name != "permanent-error" {
							continue
						}
						if k == 2 && (o.Name != "nil" || auth != "off") { // the large payload: delivered equal, whatever the compression
							continue
						}
						run(c15Case{Auth: auth, Sender: s.name, Signal: sig, Payload: k, Outcome: o.Name})
					}
				}
				if !s.levelOnly {
					run(c15Case{Auth: auth, Sender: s.name, Signal: sig, Outcome: "empty-request"})
					run(c15Case{Auth: auth, Sender: s.name, Signal: sig, Outcome: "no-items-request"})
				}
			}
		}
		if auth == "off" {
			for _, sig := range []string{"logs", "traces", "metrics", "profiles"} {
				for _, raw := range []string{"garbage-protobuf", "truncated-protobuf", "garbage-json", "wrong-content-type", "no-content-type", "method-get", "method-put", "unknown-content-encoding", "corrupt-gzip", "empty-request-protobuf", "empty-request-json"} {
					run(c15Case{Auth: auth, Signal: sig, Raw: raw})
				}
			}
			for _, sig := range []string{"logs", "traces"} {
				for _, o := range outcomes {
					run(c15Case{Auth: auth, Signal: sig, Raw: "wire:" + o.Name})
				}
			}
			// "every malformed request body": every strict, non-empty prefix of a compressed request, for every compression
			// whose stream format marks its own end - a cut stream is malformed wherever the cut falls (also where the
			// bytes decoded so far happen to be a well-formed shorter request)
			for _, sig := range []string{"logs", "traces"} {
				for _, alg := range []string{"gzip", "zlib", "deflate", "zstd", "lz4"} {
					if alg == "lz4" && !c15ServerHasLz4 {
						continue
					}
					full := len(c15Compressed(alg, sig))
					for n := 1; n < full; n++ {
						run(c15Case{Auth: auth, Signal: sig, Raw: fmt.Sprintf("truncated-stream:%s:%d", alg, n)})
					}
				}
			}
		}
		w.stop()
	}
	if len(skipped) > 0 {
		ctx.R.Extra["uncovered_senders"] = strings.Join(skipped, "; ")
	}
	ctx.R.States = ctx.R.Evals
}
