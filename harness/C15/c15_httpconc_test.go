//go:build verif

package otlpreceiver

// C15, concurrent requests on the HTTP receiver path — "Telemetry ... reaches the receiver's next consumer equal to what
// was sent" must also hold when requests overlap. Two (three in thorough) requests with distinct payloads are handled by
// the REAL handler functions (handleLogs / handleTraces: content type, body read, decode, Export, response) as threads
// under the controlled scheduler; shared helpers behind sync primitives (pools, locks) are scheduling points
// (vs.PoolPoints), and so is the consumer call. All interleavings within the deviation bound.
// Oracle: the consumer receives exactly the multiset of payloads that was sent, every request is answered 200.

import (
	"bytes"
	"context"
	"encoding/json"
	"fmt"
	"net/http"
	"net/http/httptest"
	"sort"
	"strings"
	"testing"

	"go.opentelemetry.io/collector/consumer"
	"go.opentelemetry.io/collector/pdata/plog"
	"go.opentelemetry.io/collector/pdata/ptrace"
	"go.opentelemetry.io/collector/receiver/otlpreceiver/internal/logs"
	"go.opentelemetry.io/collector/receiver/otlpreceiver/internal/trace"
	"go.opentelemetry.io/collector/receiver/receiverhelper"
	"go.opentelemetry.io/collector/receiver/receivertest"

	"VERIF/vr"
	"VERIF/vs"
)

type c15hCase struct {
	Signal   string `json:"signal"`
	Requests int    `json:"concurrent_requests"`
	JSON     bool   `json:"json_encoding"`
}

type c15hObs struct {
	got      []string
	status   []int
	finished bool
}

func c15hPayload(signal string, i int) (body []byte, js []byte, want string) {
	// payloads of different lengths, so that a buffer shared between requests is visibly torn
	txt := fmt.Sprintf("payload-%d-%s", i, strings.Repeat(string(rune('a'+i)), 10+25*i))
	if signal == "logs" {
		ld := plog.NewLogs()
		ld.ResourceLogs().AppendEmpty().ScopeLogs().AppendEmpty().LogRecords().AppendEmpty().Body().SetStr(txt)
		body, _ = (&plog.ProtoMarshaler{}).MarshalLogs(ld)
		js, _ = (&plog.JSONMarshaler{}).MarshalLogs(ld)
		return body, js, string(js)
	}
	td := ptrace.NewTraces()
	td.ResourceSpans().AppendEmpty().ScopeSpans().AppendEmpty().Spans().AppendEmpty().SetName(txt)
	body, _ = (&ptrace.ProtoMarshaler{}).MarshalTraces(td)
	js, _ = (&ptrace.JSONMarshaler{}).MarshalTraces(td)
	return body, js, string(js)
}

func c15hBody(c *c15hCase, o *c15hObs, want *[]string) func() {
	return func() {
		*o = c15hObs{}
		*want = nil
		vs.PoolPoints = true
		set := receivertest.NewNopSettings(receivertest.NopType)
		obs, err := receiverhelper.NewObsReport(receiverhelper.ObsReportSettings{ReceiverID: set.ID, Transport: "http", ReceiverCreateSettings: set})
		if err != nil {
			panic(err)
		}
		sinkL, _ := consumer.NewLogs(func(_ context.Context, ld plog.Logs) error {
			vs.Point()
			b, _ := (&plog.JSONMarshaler{}).MarshalLogs(ld)
			o.got = append(o.got, string(b))
			return nil
		})
		sinkT, _ := consumer.NewTraces(func(_ context.Context, td ptrace.Traces) error {
			vs.Point()
			b, _ := (&ptrace.JSONMarshaler{}).MarshalTraces(td)
			o.got = append(o.got, string(b))
			return nil
		})
		lr, tr := logs.New(sinkL, obs), trace.New(sinkT, obs)
		var wg vs.WaitGroup
		for i := 0; i < c.Requests; i++ {
			pb, js, w := c15hPayload(c.Signal, i)
			*want = append(*want, w)
			body, ct := pb, "application/x-protobuf"
			if c.JSON {
				body, ct = js, "application/json"
			}
			wg.Add(1)
			vs.GoNamed(fmt.Sprintf("request%d", i+1), func() {
				defer wg.Done()
				req := httptest.NewRequest(http.MethodPost, "/v1/"+c.Signal, bytes.NewReader(body))
				req.Header.Set("Content-Type", ct)
				rec := httptest.NewRecorder()
				if c.Signal == "logs" {
					handleLogs(rec, req, lr)
				} else {
					handleTraces(rec, req, tr)
				}
				o.status = append(o.status, rec.Code)
			})
		}
		wg.Wait()
		o.finished = true
	}
}

func c15hVerdict(c *c15hCase, o *c15hObs, want []string, s *vs.Sched) (string, string) {
	if v := s.Verdict(); v != "" {
		if s.Deadlock {
			return "http-concurrent-deadlock:" + s.DeadlockSig(), fmt.Sprintf("%+v: %s", *c, v)
		}
		return "http-concurrent-panic:" + strings.SplitN(fmt.Sprint(s.Panic), "\n", 2)[0], fmt.Sprintf("%+v: %s\n%s", *c, v, s.PanicStack)
	}
	if !o.finished {
		return "unfinished", fmt.Sprintf("%+v", *c)
	}
	for _, st := range o.status {
		if st != http.StatusOK {
			return "http-concurrent-request-failed:" + c.Signal, fmt.Sprintf("%+v: a valid request was answered %d (statuses %v)", *c, st, o.status)
		}
	}
	g, w := append([]string(nil), o.got...), append([]string(nil), want...)
	sort.Strings(g)
	sort.Strings(w)
	if fmt.Sprint(g) != fmt.Sprint(w) {
		return "http-concurrent-payload-differs:" + c.Signal, fmt.Sprintf("%+v: the consumer received %d payloads %.300q, sent were %.300q", *c, len(g), g, w)
	}
	return "", ""
}

type c15hReplay struct {
	Case    *c15hCase `json:"case"`
	Choices []int     `json:"choices"`
}

func TestVerifHTTPConc(t *testing.T) {
	ctx := vr.Start("C15", "http-concurrent")
	if ctx == nil {
		t.Skip("not driven")
	}
	defer ctx.Finish()
	if ctx.ReplayRaw != nil {
		var rf struct {
			Replay c15hReplay `json:"replay"`
		}
		if err := json.Unmarshal(ctx.ReplayRaw, &rf); err != nil {
			t.Fatal(err)
		}
		var o c15hObs
		var want []string
		s := vs.Run(rf.Replay.Choices, c15hBody(rf.Replay.Case, &o, &want))
		sig, what := c15hVerdict(rf.Replay.Case, &o, want, s)
		t.Logf("%s %s", sig, what)
		if sig != "" {
			ctx.Violate(sig, what, rf.Replay)
		}
		return
	}
	bound := ctx.Param("bound", 2)
	nreq := ctx.Param("requests", 2)
	var nodes int64
	for _, sigName := range []string{"logs", "traces"} {
		for _, js := range []bool{false, true} {
			for r := 2; r <= nreq; r++ {
				c := &c15hCase{Signal: sigName, Requests: r, JSON: js}
				var o c15hObs
				var want []string
				st := vs.Explore(vs.Opts{Bound: bound, Shard: ctx.Shard, Shards: ctx.Shards, Expired: ctx.Expired}, c15hBody(c, &o, &want), func(s *vs.Sched, owned bool) bool {
					sig, what := c15hVerdict(c, &o, want, s)
					if owned {
						ctx.R.Evals++
						ctx.R.Traces++
						ctx.Outcome(fmt.Sprintf("%s:json=%v:delivered=%d", sigName, js, len(o.got)))
						if sig != "" {
							ctx.Violate(sig, what, c15hReplay{c, s.Choices()})
						}
					}
					return sig == ""
				})
				for _, x := range st.Infra {
					ctx.Infra("%+v: %s", *c, x)
				}
				if st.Capped {
					ctx.Cap("bound not completed")
				}
				ctx.R.Trans += st.Steps
				nodes += st.Nodes
				ctx.Nontrivial(vr.Hash(fmt.Sprint(*c)))
			}
		}
	}
	ctx.R.States = nodes
	ctx.R.Extra["bound_completed"] = bound
}
