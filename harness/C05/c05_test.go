//go:build verif

package internal

// C05 — retry resends only the retryable remainder, within limits, never after a verdict.
// Engine E2 on E1 machinery: the real retrySender (wired by the real NewBaseExporter) runs as one scheduled thread on
// a virtual clock; every backend outcome and every wake-up of every back-off wait is an enumerated environment answer.
// Oracle: an independent reference model written from the property text.

import (
	"context"
	"encoding/json"
	"errors"
	"fmt"
	"github.com/cenkalti/backoff/v5"
	"strings"
	"testing"
	"time"

	"go.opentelemetry.io/collector/component"
	"go.opentelemetry.io/collector/config/configretry"
	"go.opentelemetry.io/collector/consumer/consumererror"
	"go.opentelemetry.io/collector/exporter/exporterhelper/internal/experr"
	"go.opentelemetry.io/collector/exporter/exporterhelper/internal/request"
	"go.opentelemetry.io/collector/exporter/exportertest"
	"go.opentelemetry.io/collector/pipeline"

	"VERIF/vr"
	"VERIF/vs"
)

type c05Req struct{ items []int }

func (r *c05Req) ItemsCount() int { return len(r.items) }
func (r *c05Req) MergeSplit(context.Context, int, request.SizerType, request.Request) ([]request.Request, error) {
	return []request.Request{r}, nil
}

type c05Partial struct {
	rem   *c05Req
	delay time.Duration
}

func (c05Partial) Error() string { return "partial failure" }
func (r *c05Req) OnError(err error) request.Request {
	var p c05Partial
	if errors.As(err, &p) {
		return p.rem
	}
	return r
}

// virtual-deadline context: Deadline() is virtual; Done() is closed by a virtual timer or by the harness (cancel).
type c05Ctx struct {
	context.Context
	dl    time.Time
	hasDl bool
	done  chan struct{}
	err   error
}

func (c *c05Ctx) Deadline() (time.Time, bool) { return c.dl, c.hasDl }
func (c *c05Ctx) Done() <-chan struct{}       { return c.done }
func (c *c05Ctx) Err() error                  { return c.err }
func (c *c05Ctx) end(err error) {
	if c.err == nil {
		c.err = err
		close(c.done)
	}
}

var c05Draws = []float64{0, 0.999999}

var c05Outcomes = []string{"ok", "transient", "permanent", "wrapped-permanent", "joined-permanent", "throttle0", "throttle1", "throttle10", "partial", "partial-throttle10", "attempt-expired", "slow-transient"}

// an attempt normally takes no virtual time; the "slow-transient" one takes this long before it fails (a backend that hangs
// until some per-attempt timeout): the elapsed-time budget and the deadline count from the moment the request was taken
const c05Slow = 2 * time.Second

// shutdown during an attempt: in the quick tier only in the configurations without randomisation
var c05ShutEverywhere bool
var c05Wakes = []string{"timer", "shutdown", "cancel"}

type c05Cfg struct {
	Enabled    bool          `json:"enabled"`
	Initial    time.Duration `json:"initial"`
	Mult       float64       `json:"multiplier"`
	MaxIv      time.Duration `json:"max_interval"`
	MaxElapsed time.Duration `json:"max_elapsed"`
	RF         float64       `json:"randomization"`
	Deadline   time.Duration `json:"deadline"` // 0 = none
	// AttemptTimeout: the exporter helper's per-attempt timeout (timeout sender; its context deadline lives on the virtual
	// clock). With it the backend has one more answer, "slow-ok": the call succeeds, but only after the attempt's deadline
	// has passed (a push function that does not watch its context) - a success is a success, nothing is sent again
	AttemptTimeout time.Duration `json:"attempt_timeout,omitempty"`
}

func (c c05Cfg) backoff() configretry.BackOffConfig {
	return configretry.BackOffConfig{Enabled: c.Enabled, InitialInterval: c.Initial, Multiplier: c.Mult, MaxInterval: c.MaxIv,
		MaxElapsedTime: c.MaxElapsed, RandomizationFactor: c.RF}
}

type c05Attempt struct {
	At    time.Duration
	Items string
}

type c05Res struct {
	attempts  []c05Attempt
	outs      []string
	wakes     []string
	delays    []time.Duration // armed back-off delay observed at each wait
	class     string
	errText   string
	lateSend  bool   // a backend call after Send returned
	shutAt    int    // index of the attempt DURING which the exporter was shut down (-1: not during an attempt)
	shut      bool   // the exporter was shut down during the first request
	attempts2 int    // attempts of the second request (sent after shutdown, always failing transiently)
	class2    string // how its Send ended
	returned  bool
}

// every permanent backend error wraps this sentinel, so that the harness recognises "permanent" by itself (errors.Is walks
// single and multiple wrapping alike) instead of asking the implementation's own IsPermanent
var errC05Perm = errors.New("perm")

func c05Classify(err error) string {
	switch {
	case err == nil:
		return "nil"
	case experr.IsShutdownErr(err):
		return "shutdown"
	case errors.Is(err, errC05Perm):
		return "permanent"
	default:
		return "other"
	}
}

func c05Body(cfg c05Cfg, maxAttempts int, res *c05Res) func() {
	return func() {
		// the random draw of the randomised back-off interval is an environment answer: its extremes (and the middle in the
		// thorough tier) are enumerated
		backoff.VerifRand = func(rf float64) float64 {
			if rf == 0 {
				return 0.5
			}
			return c05Draws[vs.ChooseFree(len(c05Draws))]
		}
		*res = c05Res{shutAt: -1}
		var be *BaseExporter
		t0 := vs.Now()
		pusher := func(_ context.Context, r request.Request) error {
			if vs.Killed() {
				return nil
			}
			if res.returned {
				res.lateSend = true
			}
			req := r.(*c05Req)
			if len(req.items) == 1 && req.items[0] == 9 {
				// the second request, sent after the exporter was shut down: it always fails transiently
				res.attempts2++
				if res.attempts2 > 25 {
					return nil // a retry loop that ignores the shutdown would never end: the count above is the verdict
				}
				return errors.New("transient")
			}
			res.attempts = append(res.attempts, c05Attempt{vs.Now().Sub(t0), fmt.Sprint(req.items)})
			o := "ok"
			if len(res.attempts) < maxAttempts {
				outs := c05Outcomes
				if cfg.AttemptTimeout > 0 {
					outs = append(append([]string(nil), c05Outcomes...), "slow-ok")
				}
				o = outs[vs.ChooseFree(len(outs))]
			}
			res.outs = append(res.outs, o)
			// "with shutdown arriving at any point": also while an attempt is under way - whatever that attempt then answers
			// is its verdict (a success is a success, a permanent error is final), only a retryable failure ends shutdown-classified
			if !res.shut && (cfg.RF == 0 || c05ShutEverywhere) && vs.ChooseFree(2) == 1 {
				_ = be.Shutdown(context.Background())
				res.shut = true
				res.shutAt = len(res.attempts) - 1
			}
			switch o {
			case "transient":
				return errors.New("transient")
			case "slow-ok":
				// the only timer armed during an attempt is the attempt's own deadline: it passes while the call is under way
				vs.Advance(cfg.AttemptTimeout + time.Second)
				if dl, ok := vs.NextDeadline(); ok && !dl.After(vs.Now()) {
					vs.FireNext()
				}
				return nil
			case "slow-transient":
				vs.Advance(c05Slow) // no timer is armed while an attempt is in progress
				return errors.New("transient after a long call")
			case "attempt-expired":
				// "context expiry" as a backend outcome: the ATTEMPT's own context (per-attempt timeout) ran out, the request's
				// context is alive - an ordinary transient failure
				return fmt.Errorf("backend call: %w", context.DeadlineExceeded)
			case "permanent":
				return consumererror.NewPermanent(errC05Perm)
			case "wrapped-permanent":
				return fmt.Errorf("wrapped: %w", consumererror.NewPermanent(errC05Perm))
			case "joined-permanent":
				// an aggregated error (errors.Join / multierr / two %w) with a permanent member, wrapped once more
				return fmt.Errorf("aggregated: %w", errors.Join(errors.New("transient"), consumererror.NewPermanent(errC05Perm)))
			case "throttle0":
				return NewThrottleRetry(errors.New("throttled"), 0)
			case "throttle1":
				return NewThrottleRetry(errors.New("throttled"), time.Second)
			case "throttle10":
				return NewThrottleRetry(errors.New("throttled"), 10*time.Second)
			case "partial", "partial-throttle10":
				if len(req.items) > 1 {
					var e error = c05Partial{rem: &c05Req{req.items[1:]}}
					if o == "partial-throttle10" {
						e = NewThrottleRetry(e, 10*time.Second)
					}
					return e
				}
				if o == "partial-throttle10" {
					return NewThrottleRetry(errors.New("transient"), 10*time.Second)
				}
				return errors.New("transient")
			}
			return nil
		}
		var err error
		be, err = NewBaseExporter(exportertest.NewNopSettings(component.MustNewType("x")), pipeline.SignalTraces, pusher,
			WithRetry(cfg.backoff()), WithTimeout(TimeoutConfig{Timeout: cfg.AttemptTimeout}))
		if err != nil {
			panic(err)
		}
		if err := be.Start(context.Background(), nil); err != nil {
			panic(err)
		}
		ctx := &c05Ctx{Context: context.Background(), done: make(chan struct{})}
		if cfg.Deadline > 0 {
			ctx.dl, ctx.hasDl = vs.Now().Add(cfg.Deadline), true
		}
		finished := false
		vs.GoDaemon("wake-env", func() { // decides what ends each back-off wait
			for {
				vs.Block(func() bool { return vs.PendingTimer() || finished })
				if finished {
					return
				}
				if res.shut { // shut down during an attempt: every later wait simply runs out
					vs.FireNext()
					continue
				}
				dl, _ := vs.NextDeadline()
				res.delays = append(res.delays, dl.Sub(vs.Now()))
				w := c05Wakes[vs.ChooseFree(len(c05Wakes))]
				res.wakes = append(res.wakes, w)
				switch w {
				case "timer":
					vs.FireNext()
				case "shutdown":
					_ = be.Shutdown(context.Background())
					res.shut = true
					// from here on every wait simply runs out (a correct retry sender does not wait at all any more)
					for {
						vs.Block(func() bool { return vs.PendingTimer() || finished })
						if finished {
							return
						}
						vs.FireNext()
					}
				case "cancel":
					ctx.end(context.Canceled)
					vs.Block(func() bool { return finished })
					return
				}
			}
		})
		serr := be.Send(ctx, &c05Req{[]int{1, 2, 3}})
		res.returned = true
		res.class = c05Classify(serr)
		if serr != nil {
			res.errText = serr.Error()
		}
		if res.shut {
			// "retried if and only if ... the exporter is not shutting down": shutdown is a state, not an event - a request that
			// fails AFTER it must not be retried either, and ends with a shutdown-classified error
			res.returned = false
			serr2 := be.Send(context.Background(), &c05Req{[]int{9}})
			res.returned = true
			res.class2 = c05Classify(serr2)
		}
		finished = true
	}
}

// c05Ref is the reference model, written from the property statement. It replays the environment answers (outcomes,
// wake-ups) and, when randomisation is on, the observed delays (checked against the envelope, then used for its clock).
// It returns the expected attempts and final class, or a disagreement text.
func c05Ref(cfg c05Cfg, res *c05Res) string {
	t := time.Duration(0)
	iv := cfg.Initial
	items := []int{1, 2, 3}
	wi := 0
	var exp []c05Attempt
	finish := func(class string) string {
		if len(exp) != len(res.attempts) {
			return fmt.Sprintf("attempts: model expects %d %v, implementation made %d %v (expected final %s, got %s)", len(exp), exp, len(res.attempts), res.attempts, class, res.class)
		}
		for i := range exp {
			if exp[i] != res.attempts[i] {
				return fmt.Sprintf("attempt %d: model expects %v, implementation %v", i, exp[i], res.attempts[i])
			}
		}
		if class != "?" && class != res.class {
			return fmt.Sprintf("final result class: model %s, implementation %s (%s)", class, res.class, res.errText)
		}
		return ""
	}
	for i := 0; ; i++ {
		exp = append(exp, c05Attempt{t, fmt.Sprint(items)})
		if i >= len(res.outs) {
			return finish("?") + " [model wanted another attempt]"
		}
		o := res.outs[i]
		var throttle time.Duration = -1
		if o == "slow-transient" {
			t += c05Slow // the failure is known this much later; the next attempt's fit is judged from then
		}
		switch o {
		case "ok", "slow-ok":
			return finish("nil")
		case "permanent", "wrapped-permanent", "joined-permanent":
			return finish("permanent") // never retried
		case "throttle0":
			throttle = 0
		case "throttle1":
			throttle = time.Second
		case "throttle10":
			throttle = 10 * time.Second
		case "partial-throttle10":
			throttle = 10 * time.Second
		}
		if !cfg.Enabled {
			return finish("other") // retrying disabled: the error is returned as is
		}
		if strings.HasPrefix(o, "partial") && len(items) > 1 {
			items = items[1:] // only the undelivered subset is resent
		}
		// back-off envelope for this wait
		lo := time.Duration(float64(iv) * (1 - cfg.RF))
		hi := time.Duration(float64(iv) * (1 + cfg.RF))
		niv := time.Duration(float64(iv) * cfg.Mult)
		if niv > cfg.MaxIv || float64(iv) >= float64(cfg.MaxIv)/cfg.Mult {
			niv = cfg.MaxIv
		}
		iv = niv
		if throttle > lo {
			lo = throttle
		}
		if throttle > hi {
			hi = throttle
		}
		// does the next attempt still fit? (decided with the envelope; ambiguous when it straddles a limit)
		limit := time.Duration(-1)
		if cfg.MaxElapsed > 0 {
			limit = cfg.MaxElapsed
		}
		if cfg.Deadline > 0 && (limit < 0 || cfg.Deadline < limit) {
			limit = cfg.Deadline
		}
		waited := wi < len(res.wakes)
		if res.shutAt >= 0 && i >= res.shutAt {
			// the exporter was shut down while this attempt was under way: no retry; shutdown-classified (unless the next
			// attempt would not have fitted anyway, which the implementation may notice first)
			if limit >= 0 && t+lo > limit {
				return finish("other")
			}
			if limit >= 0 && t+hi > limit {
				return finish("?")
			}
			return finish("shutdown")
		}
		if limit >= 0 {
			switch {
			case t+lo > limit:
				if waited && len(res.attempts) > len(exp) {
					return fmt.Sprintf("retry scheduled although the next attempt (t=%v + wait>=%v) cannot fit the budget/deadline %v", t, lo, limit)
				}
				return finish("other")
			case t+hi > limit && !waited:
				return finish("other") // legal either way; the implementation chose to stop
			}
		}
		if !waited {
			return finish("?") + fmt.Sprintf(" [model expected a back-off wait after attempt %d, implementation stopped: %s/%s]", i, res.class, res.errText)
		}
		d := res.delays[wi]
		if d < lo || d > hi {
			return fmt.Sprintf("wait %d after outcome %s: armed delay %v outside the envelope [%v, %v] (throttle %v)", wi, o, d, lo, hi, throttle)
		}
		w := res.wakes[wi]
		wi++
		switch w {
		case "timer":
			t += d
		case "shutdown":
			return finish("shutdown") // interrupted by shutdown: shutdown-classified, so a persistent queue keeps the request
		case "cancel":
			return finish("other")
		}
	}
}

type c05Replay struct {
	Cfg         c05Cfg `json:"config"`
	MaxAttempts int    `json:"max_attempts"`
	Choices     []int  `json:"choices"`
}

func c05Verdict(cfg c05Cfg, res *c05Res, s *vs.Sched) (string, string) {
	if v := s.Verdict(); v != "" {
		return strings.SplitN(v, ":", 2)[0], v
	}
	if res.lateSend {
		return "attempt-after-return", "backend called after Send returned"
	}
	if d := c05Ref(cfg, res); d != "" {
		kind := strings.SplitN(d, ":", 2)[0]
		if i := strings.IndexByte(kind, ' '); i > 0 {
			kind = kind[:i]
		}
		return "model-disagreement:" + kind, fmt.Sprintf("%s | config=%+v outcomes=%v wakes=%v delays=%v attempts=%v final=%s", d, cfg, res.outs, res.wakes, res.delays, res.attempts, res.class)
	}
	if res.shut {
		want := "shutdown"
		if !cfg.Enabled {
			want = "other" // retrying is disabled: the failure is returned as it is
		}
		if res.attempts2 != 1 || res.class2 != want {
			return "retried-after-shutdown", fmt.Sprintf("config=%+v: a request sent after the exporter was shut down (always failing transiently) was attempted %d times and ended as %q; expected 1 attempt and %q", cfg, res.attempts2, res.class2, want)
		}
	}
	return "", ""
}

func TestVerif(t *testing.T) {
	ctx := vr.Start("C05", "retry")
	if ctx == nil {
		t.Skip("not driven")
	}
	defer ctx.Finish()
	if ctx.Param("draws", 2) == 3 {
		c05Draws = []float64{0, 0.5, 0.999999}
		c05ShutEverywhere = true
	}
	if ctx.ReplayRaw != nil {
		var rf struct {
			Replay c05Replay `json:"replay"`
		}
		if err := json.Unmarshal(ctx.ReplayRaw, &rf); err != nil {
			t.Fatal(err)
		}
		var res c05Res
		s := vs.Run(rf.Replay.Choices, c05Body(rf.Replay.Cfg, rf.Replay.MaxAttempts, &res))
		sig, what := c05Verdict(rf.Replay.Cfg, &res, s)
		t.Logf("outcomes=%v wakes=%v delays=%v attempts=%v class=%s err=%s", res.outs, res.wakes, res.delays, res.attempts, res.class, res.errText)
		if sig != "" {
			ctx.Violate(sig, what, rf.Replay)
		}
		return
	}
	maxAttempts := ctx.Param("attempts", 4)
	var cfgs []c05Cfg
	for _, en := range []bool{true, false} {
		for _, ini := range []time.Duration{time.Second, 0} {
			for _, mult := range []float64{2, 1} {
				for _, maxIv := range []time.Duration{4 * time.Second, time.Second} {
					for _, me := range []time.Duration{0, 5 * time.Second} {
						for _, rf := range []float64{0, 0.5} {
							for _, dl := range []time.Duration{0, 3 * time.Second} {
								if !en && (ini == 0 || mult == 1 || maxIv == time.Second || me != 0 || rf != 0) {
									continue // disabled: the other settings are irrelevant, keep one representative (+deadline)
								}
								cfgs = append(cfgs, c05Cfg{en, ini, mult, maxIv, me, rf, dl, 0})
								if rf == 0 && dl == 0 && mult == 2 && maxIv == 4*time.Second {
									// with the per-attempt timeout (a subset of the grid: the timeout does not interact with the
									// randomisation, the request deadline or the interval growth)
									cfgs = append(cfgs, c05Cfg{en, ini, mult, maxIv, me, rf, dl, 2 * time.Second})
								}
							}
						}
					}
				}
			}
		}
	}
	ctx.R.Extra["configs"] = len(cfgs)
	ctx.R.Extra["max_attempts"] = maxAttempts
	var nodes int64
	for ci, cfg := range cfgs {
		if ctx.Expired() {
			break
		}
		cfg := cfg
		var res c05Res
		st := vs.Explore(vs.Opts{Bound: 0, Shard: ctx.Shard, Shards: ctx.Shards, ShardDepth: 2, Expired: ctx.Expired}, c05Body(cfg, maxAttempts, &res), func(s *vs.Sched, owned bool) bool {
			sig, what := c05Verdict(cfg, &res, s)
			if owned {
				ctx.R.Evals++
				ctx.R.Traces++
				ctx.Outcome(fmt.Sprintf("%s/attempts=%d", res.class, len(res.attempts)))
				if len(res.attempts) > 1 || len(res.wakes) > 0 {
					ctx.Nontrivial(vr.Hash(ci, res.outs, res.wakes))
				}
				if sig != "" {
					ctx.Violate(sig, what, c05Replay{cfg, maxAttempts, s.Choices()})
				}
				if ctx.R.Evals%20011 == 7 {
					ctx.Sample(map[string]any{"config": cfg, "outcomes": res.outs, "wakes": res.wakes, "attempts": fmt.Sprint(res.attempts), "final": res.class})
				}
			}
			return true
		})
		for _, x := range st.Infra {
			ctx.Infra("config %d: %s", ci, x)
		}
		if st.Capped {
			ctx.Cap("time budget")
		}
		ctx.R.Trans += st.Steps
		nodes += st.Nodes
	}
	ctx.R.States = nodes
}
