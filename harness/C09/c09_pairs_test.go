//go:build verif

package graph

// C09 (unit connector-pairs) - "a connector is instantiated once per (source signal, destination signal) pair it is used
// for" and "a connector in a pipeline for which it has no supported counterpart pipeline is rejected", over ALL sixteen
// ordered pairs of the four signals (traces, metrics, logs, profiles): for every connector factory that supports exactly
// one pair or exactly two pairs (136 factories, built with the public xconnector options) and every USED pair (a pipeline
// of the source signal exporting to the connector, a pipeline of the destination signal receiving from it), the real
// graph.Build accepts the configuration iff the used pair is supported, and then creates exactly one connector instance,
// through the create function of exactly that pair.

import (
	"context"
	"encoding/json"
	"fmt"
	"sort"
	"strings"
	"testing"

	"go.opentelemetry.io/collector/component"
	"go.opentelemetry.io/collector/component/componentstatus"
	"go.opentelemetry.io/collector/component/componenttest"
	"go.opentelemetry.io/collector/connector"
	"go.opentelemetry.io/collector/connector/xconnector"
	"go.opentelemetry.io/collector/consumer"
	"go.opentelemetry.io/collector/consumer/xconsumer"
	"go.opentelemetry.io/collector/exporter"
	"go.opentelemetry.io/collector/exporter/xexporter"
	"go.opentelemetry.io/collector/pdata/plog"
	"go.opentelemetry.io/collector/pdata/pmetric"
	"go.opentelemetry.io/collector/pdata/pprofile"
	"go.opentelemetry.io/collector/pdata/ptrace"
	"go.opentelemetry.io/collector/pipeline"
	"go.opentelemetry.io/collector/pipeline/xpipeline"
	"go.opentelemetry.io/collector/receiver"
	"go.opentelemetry.io/collector/receiver/xreceiver"
	"go.opentelemetry.io/collector/service/internal/builders"
	"go.opentelemetry.io/collector/service/pipelines"

	"VERIF/vr"
)

var pSigs = []pipeline.Signal{pipeline.SignalTraces, pipeline.SignalMetrics, pipeline.SignalLogs, xpipeline.SignalProfiles}

// pComp implements every consumer interface; one type serves as receiver, exporter and connector of any signal
type pComp struct {
	component.StartFunc
	component.ShutdownFunc
}

func (pComp) Capabilities() consumer.Capabilities                               { return consumer.Capabilities{} }
func (pComp) ConsumeTraces(context.Context, ptrace.Traces) error              { return nil }
func (pComp) ConsumeMetrics(context.Context, pmetric.Metrics) error           { return nil }
func (pComp) ConsumeLogs(context.Context, plog.Logs) error                    { return nil }
func (pComp) ConsumeProfiles(context.Context, pprofile.Profiles) error        { return nil }

type pCase struct {
	Supported [][2]int `json:"supported_pairs"` // indices into pSigs: (from, to)
	Used      [2]int   `json:"used_pair"`
}

func pName(p [2]int) string { return pSigs[p[0]].String() + ">" + pSigs[p[1]].String() }

func pRun(c pCase) (string, string) {
	st := component.StabilityLevelStable
	cfg := func() component.Config { return &struct{}{} }
	typ := component.MustNewType("vv")
	var created []string
	mk := func(k string) pComp { created = append(created, k); return pComp{} }
	rf := xreceiver.NewFactory(typ, cfg,
		xreceiver.WithTraces(func(context.Context, receiver.Settings, component.Config, consumer.Traces) (receiver.Traces, error) { return pComp{}, nil }, st),
		xreceiver.WithMetrics(func(context.Context, receiver.Settings, component.Config, consumer.Metrics) (receiver.Metrics, error) { return pComp{}, nil }, st),
		xreceiver.WithLogs(func(context.Context, receiver.Settings, component.Config, consumer.Logs) (receiver.Logs, error) { return pComp{}, nil }, st),
		xreceiver.WithProfiles(func(context.Context, receiver.Settings, component.Config, xconsumer.Profiles) (xreceiver.Profiles, error) { return pComp{}, nil }, st))
	ef := xexporter.NewFactory(typ, cfg,
		xexporter.WithTraces(func(context.Context, exporter.Settings, component.Config) (exporter.Traces, error) { return pComp{}, nil }, st),
		xexporter.WithMetrics(func(context.Context, exporter.Settings, component.Config) (exporter.Metrics, error) { return pComp{}, nil }, st),
		xexporter.WithLogs(func(context.Context, exporter.Settings, component.Config) (exporter.Logs, error) { return pComp{}, nil }, st),
		xexporter.WithProfiles(func(context.Context, exporter.Settings, component.Config) (xexporter.Profiles, error) { return pComp{}, nil }, st))
	var copts []xconnector.FactoryOption
	for _, p := range c.Supported {
		k := pName(p)
		switch p {
		case [2]int{0, 0}:
			copts = append(copts, xconnector.WithTracesToTraces(func(context.Context, connector.Settings, component.Config, consumer.Traces) (connector.Traces, error) { return mk(k), nil }, st))
		case [2]int{0, 1}:
			copts = append(copts, xconnector.WithTracesToMetrics(func(context.Context, connector.Settings, component.Config, consumer.Metrics) (connector.Traces, error) { return mk(k), nil }, st))
		case [2]int{0, 2}:
			copts = append(copts, xconnector.WithTracesToLogs(func(context.Context, connector.Settings, component.Config, consumer.Logs) (connector.Traces, error) { return mk(k), nil }, st))
		case [2]int{0, 3}:
			copts = append(copts, xconnector.WithTracesToProfiles(func(context.Context, connector.Settings, component.Config, xconsumer.Profiles) (connector.Traces, error) { return mk(k), nil }, st))
		case [2]int{1, 0}:
			copts = append(copts, xconnector.WithMetricsToTraces(func(context.Context, connector.Settings, component.Config, consumer.Traces) (connector.Metrics, error) { return mk(k), nil }, st))
		case [2]int{1, 1}:
			copts = append(copts, xconnector.WithMetricsToMetrics(func(context.Context, connector.Settings, component.Config, consumer.Metrics) (connector.Metrics, error) { return mk(k), nil }, st))
		case [2]int{1, 2}:
			copts = append(copts, xconnector.WithMetricsToLogs(func(context.Context, connector.Settings, component.Config, consumer.Logs) (connector.Metrics, error) { return mk(k), nil }, st))
		case [2]int{1, 3}:
			copts = append(copts, xconnector.WithMetricsToProfiles(func(context.Context, connector.Settings, component.Config, xconsumer.Profiles) (connector.Metrics, error) { return mk(k), nil }, st))
		case [2]int{2, 0}:
			copts = append(copts, xconnector.WithLogsToTraces(func(context.Context, connector.Settings, component.Config, consumer.Traces) (connector.Logs, error) { return mk(k), nil }, st))
		case [2]int{2, 1}:
			copts = append(copts, xconnector.WithLogsToMetrics(func(context.Context, connector.Settings, component.Config, consumer.Metrics) (connector.Logs, error) { return mk(k), nil }, st))
		case [2]int{2, 2}:
			copts = append(copts, xconnector.WithLogsToLogs(func(context.Context, connector.Settings, component.Config, consumer.Logs) (connector.Logs, error) { return mk(k), nil }, st))
		case [2]int{2, 3}:
			copts = append(copts, xconnector.WithLogsToProfiles(func(context.Context, connector.Settings, component.Config, xconsumer.Profiles) (connector.Logs, error) { return mk(k), nil }, st))
		case [2]int{3, 0}:
			copts = append(copts, xconnector.WithProfilesToTraces(func(context.Context, connector.Settings, component.Config, consumer.Traces) (xconnector.Profiles, error) { return mk(k), nil }, st))
		case [2]int{3, 1}:
			copts = append(copts, xconnector.WithProfilesToMetrics(func(context.Context, connector.Settings, component.Config, consumer.Metrics) (xconnector.Profiles, error) { return mk(k), nil }, st))
		case [2]int{3, 2}:
			copts = append(copts, xconnector.WithProfilesToLogs(func(context.Context, connector.Settings, component.Config, consumer.Logs) (xconnector.Profiles, error) { return mk(k), nil }, st))
		case [2]int{3, 3}:
			copts = append(copts, xconnector.WithProfilesToProfiles(func(context.Context, connector.Settings, component.Config, xconsumer.Profiles) (xconnector.Profiles, error) { return mk(k), nil }, st))
		}
	}
	cf := xconnector.NewFactory(typ, cfg, copts...)
	id := func(n string) component.ID { return component.NewIDWithName(typ, n) }
	one := map[component.ID]component.Config{id("r"): &struct{}{}, id("e"): &struct{}{}}
	conns := map[component.ID]component.Config{id("c"): &struct{}{}}
	pc := pipelines.Config{
		pipeline.NewIDWithName(pSigs[c.Used[0]], "in"):  {Receivers: []component.ID{id("r")}, Exporters: []component.ID{id("c")}},
		pipeline.NewIDWithName(pSigs[c.Used[1]], "out"): {Receivers: []component.ID{id("c")}, Exporters: []component.ID{id("e")}},
	}
	var err error
	func() {
		defer func() {
			if r := recover(); r != nil {
				err = fmt.Errorf("Build PANICKED: %v", r)
			}
		}()
		_, err = Build(context.Background(), Settings{
			Telemetry: componenttest.NewNopTelemetrySettings(), BuildInfo: component.NewDefaultBuildInfo(),
			ReceiverBuilder: builders.NewReceiver(one, map[component.Type]receiver.Factory{typ: rf}), ProcessorBuilder: builders.NewProcessor(nil, nil),
			ExporterBuilder: builders.NewExporter(one, map[component.Type]exporter.Factory{typ: ef}), ConnectorBuilder: builders.NewConnector(conns, map[component.Type]connector.Factory{typ: cf}),
			PipelineConfigs: pc, ReportStatus: func(*componentstatus.InstanceID, *componentstatus.Event) {},
		})
	}()
	supported := false
	var names []string
	for _, p := range c.Supported {
		supported = supported || p == c.Used
		names = append(names, pName(p))
	}
	desc := fmt.Sprintf("connector supporting exactly %v, used %s", names, pName(c.Used))
	switch {
	case supported && err != nil:
		return "supported-pair-rejected", desc + ": " + err.Error()
	case !supported && err == nil:
		return "unsupported-pair-accepted", desc + ": Build accepted it (connector instances created: " + fmt.Sprint(created) + ")"
	case !supported && strings.Contains(err.Error(), "PANICKED"):
		return "unsupported-pair-panic", desc + ": " + err.Error()
	case supported:
		sort.Strings(created)
		if fmt.Sprint(created) != fmt.Sprint([]string{pName(c.Used)}) {
			return "connector-instances-differ", fmt.Sprintf("%s: created through %v, expected exactly one instance through %s", desc, created, pName(c.Used))
		}
	}
	return "", ""
}

func TestVerifPairs(t *testing.T) {
	ctx := vr.Start("C09", "connector-pairs")
	if ctx == nil {
		t.Skip("not driven")
	}
	defer ctx.Finish()
	if ctx.ReplayRaw != nil {
		var rf struct {
			Replay pCase `json:"replay"`
		}
		if err := json.Unmarshal(ctx.ReplayRaw, &rf); err != nil {
			t.Fatal(err)
		}
		sig, what := pRun(rf.Replay)
		t.Logf("%s %s", sig, what)
		if sig != "" {
			ctx.Violate(sig, what, rf.Replay)
		}
		return
	}
	var pairs [][2]int
	for f := 0; f < 4; f++ {
		for to := 0; to < 4; to++ {
			pairs = append(pairs, [2]int{f, to})
		}
	}
	var sets [][][2]int
	for i, p := range pairs {
		sets = append(sets, [][2]int{p})
		for _, q := range pairs[i+1:] {
			sets = append(sets, [][2]int{p, q})
		}
	}
	var n int64
	for _, s := range sets {
		for _, u := range pairs {
			n++
			if !ctx.Mine(n) {
				continue
			}
			c := pCase{Supported: s, Used: u}
			ctx.R.Evals++
			ctx.R.Trans++
			ctx.Nontrivial(vr.Hash(fmt.Sprint(s), fmt.Sprint(u)))
			sig, what := pRun(c)
			if sig != "" {
				ctx.Violate(sig+":"+pName(u), what, c)
				ctx.Outcome(sig)
			} else {
				ctx.R.Traces++
				ctx.Outcome("as-predicted")
			}
		}
	}
	ctx.R.States = ctx.R.Evals
}
