//go:build verif

package graph

// C09 — built pipeline graph routes data exactly as configured; C10 — components start downstream-first, stop upstream-first,
// each exactly once (also under start/shutdown failures). One harness, two modes (param prop=C09|C10).
// Engine E2: ALL service topologies of a small universe (3 pipelines over 2 signals; receiver, 2 processors in either order,
// 2 exporters, a connector usable as exporter and/or receiver in every pipeline => chains, fan-in, fan-out, cross-signal
// edges and cycles) are built by the real graph.Build; the oracle is an independent reachability computation on the
// configuration plus an instance census, and for C10 a partial-order / exactly-once census under every failure position.

import (
	"context"
	"encoding/json"
	"fmt"
	"os"
	"sort"
	"strings"
	"testing"

	"gonum.org/v1/gonum/graph/topo"

	"go.opentelemetry.io/collector/component"
	"go.opentelemetry.io/collector/component/componentstatus"
	"go.opentelemetry.io/collector/component/componenttest"
	"go.opentelemetry.io/collector/connector"
	"go.opentelemetry.io/collector/consumer"
	"go.opentelemetry.io/collector/exporter"
	"go.opentelemetry.io/collector/pdata/plog"
	"go.opentelemetry.io/collector/pdata/ptrace"
	"go.opentelemetry.io/collector/pipeline"
	"go.opentelemetry.io/collector/processor"
	"go.opentelemetry.io/collector/receiver"
	"go.opentelemetry.io/collector/service/internal/builders"
	"go.opentelemetry.io/collector/service/internal/status"
	"go.opentelemetry.io/collector/service/pipelines"

	"VERIF/vr"
	"VERIF/vs"
)

type gWorld struct {
	events    []string // "create K", "start K", "stop K"
	recvT     map[string]consumer.Traces
	recvL     map[string]consumer.Logs
	got       map[string][]string // exporter key -> stamps of received payloads
	later     map[string][]func() string // exporter key -> re-reads the stamp of each payload it was given
	creates   map[string]int
	failStart map[string]bool
	failStop  map[string]bool
	statuses  map[string][]componentstatus.Status
}

var gW *gWorld

type gComp struct {
	key string
	mut bool
}

// gMutate (C09 data-flow, second pass): the processors declare MutatesData and stamp the payload they are given IN PLACE,
// so that a fan-out point that hands one object to a mutating branch and to another branch shows in what the other
// branch's exporter receives
var gMutate bool

func (c *gComp) Start(context.Context, component.Host) error {
	gW.events = append(gW.events, "start "+c.key)
	if gW.failStart[c.key] {
		return fmt.Errorf("start of %s failed", c.key)
	}
	return nil
}
func (c *gComp) Shutdown(context.Context) error {
	gW.events = append(gW.events, "stop "+c.key)
	if gW.failStop[c.key] {
		return fmt.Errorf("stop of %s failed", c.key)
	}
	return nil
}
func (c *gComp) Capabilities() consumer.Capabilities { return consumer.Capabilities{MutatesData: c.mut} }

func gMk(key string) *gComp {
	gW.creates[key]++
	gW.events = append(gW.events, "create "+key)
	return &gComp{key: key}
}

func gStampT(td ptrace.Traces) string {
	if td.ResourceSpans().Len() == 0 {
		return ""
	}
	v, _ := td.ResourceSpans().At(0).Resource().Attributes().Get("path")
	return v.Str()
}
func gAddT(td ptrace.Traces, s string) ptrace.Traces {
	n := ptrace.NewTraces()
	td.CopyTo(n)
	if n.ResourceSpans().Len() == 0 {
		n.ResourceSpans().AppendEmpty()
	}
	n.ResourceSpans().At(0).Resource().Attributes().PutStr("path", gStampT(td)+s)
	return n
}
func gPutT(td ptrace.Traces, s string) ptrace.Traces {
	if td.ResourceSpans().Len() == 0 {
		td.ResourceSpans().AppendEmpty()
	}
	td.ResourceSpans().At(0).Resource().Attributes().PutStr("path", gStampT(td)+s)
	return td
}
func gPutL(ld plog.Logs, s string) plog.Logs {
	if ld.ResourceLogs().Len() == 0 {
		ld.ResourceLogs().AppendEmpty()
	}
	ld.ResourceLogs().At(0).Resource().Attributes().PutStr("path", gStampL(ld)+s)
	return ld
}
func gStampL(ld plog.Logs) string {
	if ld.ResourceLogs().Len() == 0 {
		return ""
	}
	v, _ := ld.ResourceLogs().At(0).Resource().Attributes().Get("path")
	return v.Str()
}
func gAddL(ld plog.Logs, s string) plog.Logs {
	n := plog.NewLogs()
	ld.CopyTo(n)
	if n.ResourceLogs().Len() == 0 {
		n.ResourceLogs().AppendEmpty()
	}
	n.ResourceLogs().At(0).Resource().Attributes().PutStr("path", gStampL(ld)+s)
	return n
}

var gT = component.MustNewType("vv")

// gDirs: the (source signal, destination signal) pairs the connector factory supports; nil = all four. A connector may be
// asymmetric (traces->logs without logs->traces), and "no supported counterpart pipeline" is judged per direction.
var gDirs map[[2]string]bool

func gDirOK(from, to string) bool { return gDirs == nil || gDirs[[2]string{from, to}] }

var gDirSets = [][][2]string{
	nil, // all
	{{"traces", "logs"}},
	{{"logs", "traces"}},
	{{"traces", "traces"}, {"traces", "logs"}},
	{{"logs", "logs"}, {"logs", "traces"}},
	{{"traces", "traces"}, {"logs", "logs"}},
}

func gSetDirs(i int) {
	gDirs = nil
	if i > 0 {
		gDirs = map[[2]string]bool{}
		for _, d := range gDirSets[i] {
			gDirs[d] = true
		}
	}
}

type gTC struct {
	*gComp
	consumer.ConsumeTracesFunc
}
type gLC struct {
	*gComp
	consumer.ConsumeLogsFunc
}

func gFactories() (map[component.Type]receiver.Factory, map[component.Type]processor.Factory, map[component.Type]exporter.Factory, map[component.Type]connector.Factory) {
	st := component.StabilityLevelStable
	cfg := func() component.Config { return &struct{}{} }
	rf := receiver.NewFactory(gT, cfg,
		receiver.WithTraces(func(_ context.Context, s receiver.Settings, _ component.Config, n consumer.Traces) (receiver.Traces, error) {
			k := "recv/traces/" + s.ID.String()
			gW.recvT[k] = n
			return gMk(k), nil
		}, st),
		receiver.WithLogs(func(_ context.Context, s receiver.Settings, _ component.Config, n consumer.Logs) (receiver.Logs, error) {
			k := "recv/logs/" + s.ID.String()
			gW.recvL[k] = n
			return gMk(k), nil
		}, st))
	pf := processor.NewFactory(gT, cfg,
		processor.WithTraces(func(_ context.Context, s processor.Settings, _ component.Config, n consumer.Traces) (processor.Traces, error) {
			c := gMk("proc/traces/" + s.ID.String())
			id := s.ID.Name()
			if gMutate {
				c.mut = true
				return gTC{c, func(ctx context.Context, td ptrace.Traces) error { return n.ConsumeTraces(ctx, gPutT(td, ">"+id)) }}, nil
			}
			return gTC{c, func(ctx context.Context, td ptrace.Traces) error { return n.ConsumeTraces(ctx, gAddT(td, ">"+id)) }}, nil
		}, st),
		processor.WithLogs(func(_ context.Context, s processor.Settings, _ component.Config, n consumer.Logs) (processor.Logs, error) {
			c := gMk("proc/logs/" + s.ID.String())
			id := s.ID.Name()
			if gMutate {
				c.mut = true
				return gLC{c, func(ctx context.Context, ld plog.Logs) error { return n.ConsumeLogs(ctx, gPutL(ld, ">"+id)) }}, nil
			}
			return gLC{c, func(ctx context.Context, ld plog.Logs) error { return n.ConsumeLogs(ctx, gAddL(ld, ">"+id)) }}, nil
		}, st))
	ef := exporter.NewFactory(gT, cfg,
		exporter.WithTraces(func(_ context.Context, s exporter.Settings, _ component.Config) (exporter.Traces, error) {
			k := "exp/traces/" + s.ID.String()
			return gTC{gMk(k), func(_ context.Context, td ptrace.Traces) error {
				gW.got[k] = append(gW.got[k], gStampT(td))
				gW.later[k] = append(gW.later[k], func() string { return gStampT(td) })
				return nil
			}}, nil
		}, st),
		exporter.WithLogs(func(_ context.Context, s exporter.Settings, _ component.Config) (exporter.Logs, error) {
			k := "exp/logs/" + s.ID.String()
			return gLC{gMk(k), func(_ context.Context, ld plog.Logs) error {
				gW.got[k] = append(gW.got[k], gStampL(ld))
				gW.later[k] = append(gW.later[k], func() string { return gStampL(ld) })
				return nil
			}}, nil
		}, st))
	// the connectors are ROUTER-AWARE: whatever the number of pipelines they feed, the graph hands them the router of the
	// destination signal, and they pick their destination(s) through it (all of them: the reference model forwards to all)
	routeT := func(n consumer.Traces) (consumer.Traces, error) {
		r, ok := n.(connector.TracesRouterAndConsumer)
		if !ok {
			return nil, fmt.Errorf("the consumer handed to the connector is a %T, not a connector.TracesRouterAndConsumer", n)
		}
		return r.Consumer(r.PipelineIDs()...)
	}
	routeL := func(n consumer.Logs) (consumer.Logs, error) {
		r, ok := n.(connector.LogsRouterAndConsumer)
		if !ok {
			return nil, fmt.Errorf("the consumer handed to the connector is a %T, not a connector.LogsRouterAndConsumer", n)
		}
		return r.Consumer(r.PipelineIDs()...)
	}
	var copts []connector.FactoryOption
	if gDirOK("traces", "traces") {
		copts = append(copts, connector.WithTracesToTraces(func(_ context.Context, s connector.Settings, _ component.Config, n0 consumer.Traces) (connector.Traces, error) {
			n, err := routeT(n0)
			if err != nil {
				return nil, err
			}
			return gTC{gMk("conn/traces>traces/" + s.ID.String()), func(ctx context.Context, td ptrace.Traces) error { return n.ConsumeTraces(ctx, gAddT(td, ">"+s.ID.Name())) }}, nil
		}, st))
	}
	if gDirOK("traces", "logs") {
		copts = append(copts, connector.WithTracesToLogs(func(_ context.Context, s connector.Settings, _ component.Config, n0 consumer.Logs) (connector.Traces, error) {
			n, err := routeL(n0)
			if err != nil {
				return nil, err
			}
			return gTC{gMk("conn/traces>logs/" + s.ID.String()), func(ctx context.Context, td ptrace.Traces) error {
				return n.ConsumeLogs(ctx, gAddL(plog.NewLogs(), gStampT(td)+">"+s.ID.Name()))
			}}, nil
		}, st))
	}
	if gDirOK("logs", "traces") {
		copts = append(copts, connector.WithLogsToTraces(func(_ context.Context, s connector.Settings, _ component.Config, n0 consumer.Traces) (connector.Logs, error) {
			n, err := routeT(n0)
			if err != nil {
				return nil, err
			}
			return gLC{gMk("conn/logs>traces/" + s.ID.String()), func(ctx context.Context, ld plog.Logs) error {
				return n.ConsumeTraces(ctx, gAddT(ptrace.NewTraces(), gStampL(ld)+">"+s.ID.Name()))
			}}, nil
		}, st))
	}
	if gDirOK("logs", "logs") {
		copts = append(copts, connector.WithLogsToLogs(func(_ context.Context, s connector.Settings, _ component.Config, n0 consumer.Logs) (connector.Logs, error) {
			n, err := routeL(n0)
			if err != nil {
				return nil, err
			}
			return gLC{gMk("conn/logs>logs/" + s.ID.String()), func(ctx context.Context, ld plog.Logs) error { return n.ConsumeLogs(ctx, gAddL(ld, ">"+s.ID.Name())) }}, nil
		}, st))
	}
	cf := connector.NewFactory(gT, cfg, copts...)
	return map[component.Type]receiver.Factory{gT: rf}, map[component.Type]processor.Factory{gT: pf}, map[component.Type]exporter.Factory{gT: ef}, map[component.Type]connector.Factory{gT: cf}
}

// pipeline option: 0 = absent
type gPipe struct {
	Present bool     `json:"present"`
	RecvR   bool     `json:"recv_r1"`
	RecvC   bool     `json:"recv_connector"`
	Procs   []string `json:"processors"`
	ExpE1   bool     `json:"exp_e1"`
	ExpE2   bool     `json:"exp_e2"`
	ExpC    bool     `json:"exp_connector"`
	// a second connector "d" (its own instance of the same factory): configurations with two connectors
	RecvD bool `json:"recv_connector_d,omitempty"`
	ExpD  bool `json:"exp_connector_d,omitempty"`
	ConnFirst    bool `json:"connector_listed_first_in_receivers,omitempty"`
	ConnFirstExp bool `json:"connector_listed_first_in_exporters,omitempty"`
}

type gCfg [3]gPipe

var gPids = []pipeline.ID{pipeline.NewID(pipeline.SignalTraces), pipeline.NewIDWithName(pipeline.SignalTraces, "b"), pipeline.NewID(pipeline.SignalLogs)}

var gLongChains bool

func gOptions(withE2, expOrder bool) []gPipe {
	out := []gPipe{{}}
	// processor lists: none, one, two in both orders, three (a chain has a first, a middle and a last link) and - C09's
	// data-flow oracle only - three in a second order and four
	procs := [][]string{nil, {"p1"}, {"p1", "P1"}, {"P1", "p1"}, {"p1", "P1", "p3"}}
	if gLongChains {
		procs = append(procs, []string{"p3", "p1", "P1"}, []string{"p1", "P1", "p3", "p4"})
	}
	for _, r := range [][2]bool{{true, false}, {false, true}, {true, true}} {
		for e := 1; e < 8; e++ {
			if !withE2 && e&2 != 0 {
				continue
			}
			for _, p := range procs {
				out = append(out, gPipe{Present: true, RecvR: r[0], RecvC: r[1], Procs: p, ExpE1: e&1 != 0, ExpE2: e&2 != 0, ExpC: e&4 != 0})
				// the position of the connector inside the receivers / exporters list (lists are ordered in the configuration)
				if r[0] && r[1] {
					out = append(out, gPipe{Present: true, RecvR: true, RecvC: true, Procs: p, ExpE1: e&1 != 0, ExpE2: e&2 != 0, ExpC: e&4 != 0, ConnFirst: true})
				}
				if expOrder && e&4 != 0 && e&3 != 0 {
					out = append(out, gPipe{Present: true, RecvR: r[0], RecvC: r[1], Procs: p, ExpE1: e&1 != 0, ExpE2: e&2 != 0, ExpC: true, ConnFirstExp: true})
				}
			}
		}
	}
	return out
}

func gID(name string) component.ID { return component.NewIDWithName(gT, name) }

// processor ids are shared between pipelines in C09 mode (census: one instance per pipeline) and pipeline-specific in C10
// mode (stable keys for failure injection)
func gProcID(mode string, pi int, name string) component.ID {
	if mode == "C10" {
		return gID(fmt.Sprintf("%sx%d", name, pi))
	}
	return gID(name)
}

// gBuild: a panic inside Build is Build rejecting the configuration in the worst way; it is reported as its error
func gBuild(cfg gCfg, mode string) (g *Graph, err error) {
	defer func() {
		if r := recover(); r != nil {
			g, err = nil, fmt.Errorf("Build PANICKED: %v", r)
		}
	}()
	return gBuild0(cfg, mode)
}

func gBuild0(cfg gCfg, mode string) (*Graph, error) {
	gW = &gWorld{recvT: map[string]consumer.Traces{}, recvL: map[string]consumer.Logs{}, got: map[string][]string{}, later: map[string][]func() string{}, creates: map[string]int{},
		failStart: map[string]bool{}, failStop: map[string]bool{}, statuses: map[string][]componentstatus.Status{}}
	rf, pf, ef, cf := gFactories()
	one := map[component.ID]component.Config{}
	for _, n := range []string{"r1", "e1", "e2", "p1", "P1", "p3", "p4"} {
		one[gID(n)] = &struct{}{}
	}
	for pi := range cfg {
		for _, n := range []string{"p1", "P1", "p3", "p4"} {
			one[gProcID("C10", pi, n)] = &struct{}{}
		}
	}
	pc := pipelines.Config{}
	usesD := false
	for i, p := range cfg {
		if !p.Present {
			continue
		}
		x := &pipelines.PipelineConfig{}
		if p.RecvC && p.ConnFirst {
			x.Receivers = append(x.Receivers, gID("c"))
		}
		if p.RecvR {
			x.Receivers = append(x.Receivers, gID("r1"))
		}
		if p.RecvC && !p.ConnFirst {
			x.Receivers = append(x.Receivers, gID("c"))
		}
		if p.RecvD {
			x.Receivers = append(x.Receivers, gID("d"))
			usesD = true
		}
		if p.ExpC && p.ConnFirstExp {
			x.Exporters = append(x.Exporters, gID("c"))
		}
		for _, pr := range p.Procs {
			x.Processors = append(x.Processors, gProcID(mode, i, pr))
		}
		if p.ExpE1 {
			x.Exporters = append(x.Exporters, gID("e1"))
		}
		if p.ExpE2 {
			x.Exporters = append(x.Exporters, gID("e2"))
		}
		if p.ExpC && !p.ConnFirstExp {
			x.Exporters = append(x.Exporters, gID("c"))
		}
		if p.ExpD {
			x.Exporters = append(x.Exporters, gID("d"))
			usesD = true
		}
		pc[gPids[i]] = x
	}
	conns := map[component.ID]component.Config{gID("c"): &struct{}{}}
	if usesD {
		conns[gID("d")] = &struct{}{}
	}
	return Build(context.Background(), Settings{
		Telemetry: componenttest.NewNopTelemetrySettings(), BuildInfo: component.NewDefaultBuildInfo(),
		ReceiverBuilder: builders.NewReceiver(one, rf), ProcessorBuilder: builders.NewProcessor(one, pf),
		ExporterBuilder: builders.NewExporter(one, ef), ConnectorBuilder: builders.NewConnector(conns, cf),
		PipelineConfigs: pc, ReportStatus: func(*componentstatus.InstanceID, *componentstatus.Event) {},
	})
}

// reference: plain reachability on the CONFIGURATION
func gReference(cfg gCfg, mode string) (expectErr string, want map[string][]string, census map[string]int, edges [][2]string) {
	// per connector: the pipelines that use it as an exporter / as a receiver
	conns := []string{"c", "d"}
	asExp, asRecv := map[string][]int{}, map[string][]int{}
	for i, p := range cfg {
		if !p.Present {
			continue
		}
		if p.ExpC {
			asExp["c"] = append(asExp["c"], i)
		}
		if p.RecvC {
			asRecv["c"] = append(asRecv["c"], i)
		}
		if p.ExpD {
			asExp["d"] = append(asExp["d"], i)
		}
		if p.RecvD {
			asRecv["d"] = append(asRecv["d"], i)
		}
	}
	sigOf := func(i int) string { return gPids[i].Signal().String() }
	// every use as exporter needs a pipeline that receives from THAT connector in a supported direction, and vice versa
	for _, cn := range conns {
		for _, i := range asExp[cn] {
			ok := false
			for _, j := range asRecv[cn] {
				ok = ok || gDirOK(sigOf(i), sigOf(j))
			}
			if !ok {
				return "connector", nil, nil, nil
			}
		}
		for _, j := range asRecv[cn] {
			ok := false
			for _, i := range asExp[cn] {
				ok = ok || gDirOK(sigOf(i), sigOf(j))
			}
			if !ok {
				return "connector", nil, nil, nil
			}
		}
	}
	type hop struct {
		to int
		cn string
	}
	adj := map[int][]hop{}
	for _, cn := range conns {
		for _, i := range asExp[cn] {
			for _, j := range asRecv[cn] {
				if gDirOK(sigOf(i), sigOf(j)) {
					adj[i] = append(adj[i], hop{j, cn})
				}
			}
		}
	}
	state := map[int]int{}
	var cyc func(i int) bool
	cyc = func(i int) bool {
		state[i] = 1
		for _, h := range adj[i] {
			if state[h.to] == 1 || (state[h.to] == 0 && cyc(h.to)) {
				return true
			}
		}
		state[i] = 2
		return false
	}
	for i := range cfg {
		if cfg[i].Present && state[i] == 0 && cyc(i) {
			return "cycle", nil, nil, nil
		}
	}
	want = map[string][]string{}
	var walk func(i int, stamp string)
	walk = func(i int, stamp string) {
		p := cfg[i]
		for _, pr := range p.Procs {
			stamp += ">" + gProcID(mode, i, pr).Name()
		}
		sig := gPids[i].Signal().String()
		if p.ExpE1 {
			want["exp/"+sig+"/vv/e1"] = append(want["exp/"+sig+"/vv/e1"], stamp)
		}
		if p.ExpE2 {
			want["exp/"+sig+"/vv/e2"] = append(want["exp/"+sig+"/vv/e2"], stamp)
		}
		for _, h := range adj[i] {
			walk(h.to, stamp+">"+h.cn)
		}
	}
	for _, sig := range []pipeline.Signal{pipeline.SignalTraces, pipeline.SignalLogs} {
		for i, p := range cfg {
			if p.Present && p.RecvR && gPids[i].Signal() == sig {
				walk(i, "in")
			}
		}
	}
	// census: one receiver/exporter per (signal, id); one processor per (pipeline, id); one connector per (id, from, to)
	census = map[string]int{}
	for i, p := range cfg {
		if !p.Present {
			continue
		}
		sig := gPids[i].Signal().String()
		var ups, downs []string
		if p.RecvR {
			census["recv/"+sig+"/vv/r1"] = 1
			ups = append(ups, "recv/"+sig+"/vv/r1")
		}
		if p.ExpE1 {
			census["exp/"+sig+"/vv/e1"] = 1
			downs = append(downs, "exp/"+sig+"/vv/e1")
		}
		if p.ExpE2 {
			census["exp/"+sig+"/vv/e2"] = 1
			downs = append(downs, "exp/"+sig+"/vv/e2")
		}
		for _, h := range adj[i] {
			k := "conn/" + sig + ">" + gPids[h.to].Signal().String() + "/vv/" + h.cn
			census[k] = 1
			downs = append(downs, k)
		}
		for _, cn := range conns {
			uses := (cn == "c" && p.RecvC) || (cn == "d" && p.RecvD)
			if !uses {
				continue
			}
			for _, j := range asExp[cn] {
				if gDirOK(sigOf(j), sig) {
					ups = append(ups, "conn/"+gPids[j].Signal().String()+">"+sig+"/vv/"+cn)
				}
			}
		}
		chain := []string{}
		for _, pr := range p.Procs {
			k := "proc/" + sig + "/" + gProcID(mode, i, pr).String()
			census[k]++
			chain = append(chain, k)
		}
		// data edges (only meaningful with unique processor keys, i.e. in C10 mode)
		first, last := downs, ups
		if len(chain) > 0 {
			first, last = []string{chain[0]}, []string{chain[len(chain)-1]}
			for c := 0; c+1 < len(chain); c++ {
				edges = append(edges, [2]string{chain[c], chain[c+1]})
			}
			for _, d := range downs {
				edges = append(edges, [2]string{last[0], d})
			}
		}
		for _, u := range ups {
			for _, f := range first {
				edges = append(edges, [2]string{u, f})
			}
		}
	}
	return "", want, census, edges
}

type gCase struct {
	Dirs      int      `json:"connector_direction_set,omitempty"` // index into gDirSets (0 = all four directions)
	Mode      string   `json:"mode"`
	Cfg       gCfg     `json:"config"`
	FailStart []string `json:"fail_start,omitempty"`
	FailStop  []string `json:"fail_stop,omitempty"`
	Mutate    bool     `json:"mutating_processors,omitempty"`
	// MapOrder: the iteration order of the graph builder's maps (pipelines, connectors, signal sets) - "" = ascending by key
	// rendering, "reversed" = descending. In the real code it is random per process; here it is an enumerated answer.
	MapOrder string `json:"map_iteration_order,omitempty"`
}

func gSetMapOrder(o string) {
	vs.MapOrder = nil
	if o == "reversed" {
		vs.MapOrder = vs.MapOrderReversed
	}
}

func gDesc(cfg gCfg) string {
	var l []string
	for i, p := range cfg {
		if !p.Present {
			continue
		}
		var r, e []string
		if p.RecvR {
			r = append(r, "r1")
		}
		if p.RecvC {
			r = append(r, "c")
		}
		if p.RecvD {
			r = append(r, "d")
		}
		if p.ExpD {
			e = append(e, "d")
		}
		if p.ExpE1 {
			e = append(e, "e1")
		}
		if p.ExpE2 {
			e = append(e, "e2")
		}
		if p.ExpC {
			e = append(e, "c")
		}
		l = append(l, fmt.Sprintf("%s{recv=%v proc=%v exp=%v}", gPids[i].String(), r, p.Procs, e))
	}
	return strings.Join(l, " ")
}

// gRouting: C09 oracle for one configuration.
// gRouting: the C09 oracle; a configuration that is accepted and has a processor is judged a second time with processors
// that declare MutatesData and modify their input in place.
func gRouting(cfg gCfg) (string, string) {
	sig, what := gRoutingM(cfg, false)
	if sig != "" {
		return sig, what
	}
	hasProc := false
	for _, p := range cfg {
		hasProc = hasProc || (p.Present && len(p.Procs) > 0)
	}
	if e, _, _, _ := gReference(cfg, "C09"); e != "" || !hasProc {
		return "", ""
	}
	return gRoutingM(cfg, true)
}

func gRoutingM(cfg gCfg, mutate bool) (string, string) {
	gMutate = mutate
	defer func() { gMutate = false }()
	desc := gDesc(cfg)
	if mutate {
		desc += " [processors mutate in place]"
	}
	g, err := gBuild(cfg, "C09")
	wantErr, want, census, _ := gReference(cfg, "C09")
	if wantErr != "" {
		if err == nil {
			return "invalid-config-accepted:" + wantErr, desc + ": Build accepted a configuration whose connector usage is invalid (" + wantErr + ")"
		}
		if !strings.Contains(err.Error(), wantErr) && !(wantErr == "connector" && strings.Contains(err.Error(), "not used")) {
			return "rejection-message:" + wantErr, desc + ": rejected, but the error does not describe the problem (" + wantErr + "): " + err.Error()
		}
		for _, e := range gW.events {
			if strings.HasPrefix(e, "start ") {
				return "started-despite-rejection", desc + ": a component was started although Build failed: " + e
			}
		}
		return "", ""
	}
	if err != nil {
		return "valid-config-rejected", desc + ": " + err.Error()
	}
	host := &Host{Reporter: status.NewReporter(func(*componentstatus.InstanceID, *componentstatus.Event) {}, func(error) {})}
	if err := g.StartAll(context.Background(), host); err != nil {
		return "startall-error", desc + ": " + err.Error()
	}
	for _, nx := range gW.recvT {
		_ = nx.ConsumeTraces(context.Background(), gAddT(ptrace.NewTraces(), "in"))
	}
	for _, nx := range gW.recvL {
		_ = nx.ConsumeLogs(context.Background(), gAddL(plog.NewLogs(), "in"))
	}
	if err := g.ShutdownAll(context.Background(), host.Reporter); err != nil {
		return "shutdownall-error", desc + ": " + err.Error()
	}
	for k, w := range want {
		sort.Strings(w)
		gk := append([]string{}, gW.got[k]...)
		sort.Strings(gk)
		if fmt.Sprint(gk) != fmt.Sprint(w) {
			return "routing-differs", fmt.Sprintf("%s: exporter %s received %v, the configuration prescribes %v", desc, k, gk, w)
		}
		// what an exporter was given stays what it was given (another branch must not reach it afterwards)
		for i, f := range gW.later[k] {
			if now := f(); now != gW.got[k][i] {
				return "delivered-data-changed-afterwards", fmt.Sprintf("%s: the payload exporter %s received as %q reads %q after the flow ended", desc, k, gW.got[k][i], now)
			}
		}
	}
	for k := range gW.got {
		if _, ok := want[k]; !ok {
			return "unexpected-delivery", desc + ": exporter " + k + " received data it is not connected to"
		}
	}
	for k, c := range census {
		if gW.creates[k] != c {
			return "instance-census", fmt.Sprintf("%s: component %s instantiated %d times, expected %d", desc, k, gW.creates[k], c)
		}
	}
	for k, c := range gW.creates {
		if census[k] == 0 {
			return "instance-census", fmt.Sprintf("%s: unexpected component %s instantiated %d times", desc, k, c)
		}
	}
	return "", ""
}

// gLifecycle: C10 oracle for one configuration and one failure plan.
func gLifecycle(cfg gCfg, failStart, failStop []string) (string, string) {
	desc := gDesc(cfg)
	g, err := gBuild(cfg, "C10")
	if err != nil {
		return "", "" // invalid configurations are C09's business
	}
	for _, k := range failStart {
		gW.failStart[k] = true
	}
	for _, k := range failStop {
		gW.failStop[k] = true
	}
	_, _, census, edges := gReference(cfg, "C10")
	host := &Host{Reporter: status.NewReporter(func(*componentstatus.InstanceID, *componentstatus.Event) {}, func(error) {})}
	errStart := g.StartAll(context.Background(), host)
	errStop := g.ShutdownAll(context.Background(), host.Reporter)
	starts, stops := map[string]int{}, map[string]int{}
	pos := map[string]int{}
	for i, e := range gW.events {
		f := strings.SplitN(e, " ", 2)
		switch f[0] {
		case "start":
			starts[f[1]]++
			pos["start "+f[1]] = i
		case "stop":
			stops[f[1]]++
			pos["stop "+f[1]] = i
		}
	}
	d := fmt.Sprintf("%s failStart=%v failStop=%v", desc, failStart, failStop)
	startFailed := false
	for _, k := range failStart {
		if starts[k] > 0 {
			startFailed = true
		}
	}
	if (errStart != nil) != startFailed {
		return "startall-error-mismatch", fmt.Sprintf("%s: StartAll returned %v although a start failure was injected=%v", d, errStart, startFailed)
	}
	if errStart != nil {
		found := false
		for _, k := range failStart {
			if strings.Contains(errStart.Error(), "start of "+k+" failed") {
				found = true
			}
		}
		if !found {
			return "startall-error-text", fmt.Sprintf("%s: StartAll returned %v, not the component's error", d, errStart)
		}
	}
	for _, k := range failStop {
		if stops[k] > 0 && (errStop == nil || !strings.Contains(errStop.Error(), "stop of "+k+" failed")) {
			return "shutdown-error-not-reported", fmt.Sprintf("%s: ShutdownAll returned %v, the failure of %s is not reported", d, errStop, k)
		}
	}
	if len(failStop) == 0 && errStop != nil {
		return "shutdown-error-spurious", fmt.Sprintf("%s: ShutdownAll returned %v", d, errStop)
	}
	for k := range census {
		if starts[k] > 1 {
			return "started-more-than-once", d + ": " + k
		}
		if stops[k] != 1 {
			return "not-shut-down-exactly-once", fmt.Sprintf("%s: %s shut down %d times", d, k, stops[k])
		}
		if !startFailed && starts[k] != 1 {
			return "not-started", d + ": " + k
		}
	}
	for _, e := range edges {
		u, v := e[0], e[1]
		if census[u] == 0 || census[v] == 0 {
			return "harness-edge-unknown", d + ": " + u + " -> " + v
		}
		if starts[u] == 1 && (starts[v] != 1 || pos["start "+v] > pos["start "+u]) {
			return "started-before-downstream", fmt.Sprintf("%s: %s was started before %s, which it sends data to", d, u, v)
		}
		if pos["stop "+v] < pos["stop "+u] {
			return "stopped-before-upstream", fmt.Sprintf("%s: %s was shut down before %s, which sends data to it", d, v, u)
		}
	}
	return "", ""
}

func TestVerif(t *testing.T) {
	prop := "C09"
	if strings.Contains(os.Getenv("VERIF_PARAMS"), "prop=C10") {
		prop = "C10"
	}
	ctx := vr.Start(prop, "graph")
	if ctx == nil {
		t.Skip("not driven")
	}
	defer ctx.Finish()
	// own the sorts' tie-breaking (randomised map iteration in the real code): canonical first candidate, see C10/service
	topo.VerifPick = func(int) int { return 0 }
	if ctx.ReplayRaw != nil {
		var rf struct {
			Replay gCase `json:"replay"`
		}
		if err := json.Unmarshal(ctx.ReplayRaw, &rf); err != nil {
			t.Fatal(err)
		}
		var sig, what string
		gSetDirs(rf.Replay.Dirs)
		gSetMapOrder(rf.Replay.MapOrder)
		if rf.Replay.Mode == "C10" {
			sig, what = gLifecycle(rf.Replay.Cfg, rf.Replay.FailStart, rf.Replay.FailStop)
		} else {
			if rf.Replay.Mutate {
				sig, what = gRoutingM(rf.Replay.Cfg, true)
			} else {
				sig, what = gRouting(rf.Replay.Cfg)
			}
		}
		t.Logf("%s %s", sig, what)
		if sig != "" {
			ctx.Violate(sig, what, rf.Replay)
		}
		return
	}
	gLongChains = prop == "C09"
	opts := gOptions(ctx.Param("e2", 0) == 1, ctx.Param("exp_order", 0) == 1)
	ctx.R.Extra["pipeline_options"] = len(opts)
	var n int64
	pairs := ctx.Param("pairs", 0) == 1
	// asymmetric connector factories (C09 only): the topologies without processors (processors do not interact with the
	// direction filter) under every direction set of gDirSets
	var noProc []gPipe
	for _, o := range opts {
		if len(o.Procs) == 0 {
			noProc = append(noProc, o)
		}
	}
	for di := range gDirSets {
	if di > 0 && prop != "C09" {
		break
	}
	gSetDirs(di)
	dopts := opts
	if di > 0 {
		dopts = noProc
	}
	for _, a := range dopts {
		for _, b := range dopts {
			for _, c := range dopts {
				cfg := gCfg{a, b, c}
				if !a.Present && !b.Present && !c.Present {
					continue
				}
				n++
				if !ctx.Mine(n) {
					continue
				}
				if n%256 == 0 && ctx.Expired() {
					return
				}
				// the builder's map iteration order: both orders occur across the universe (alternating by configuration index);
				// the two-connector sweep below runs every configuration under both
				mo := ""
				if n%2 == 1 {
					mo = "reversed"
				}
				gSetMapOrder(mo)
				if prop == "C09" {
					ctx.R.Evals++
					ctx.R.Trans++
					sig, what := gRouting(cfg)
					ctx.Nontrivial(vr.Hash(di, fmt.Sprint(cfg)))
					if sig != "" {
						ctx.Violate(sig, what, gCase{Mode: "C09", Cfg: cfg, Dirs: di, MapOrder: mo, Mutate: strings.Contains(what, "[processors mutate in place]")})
						ctx.Outcome(strings.SplitN(sig, ":", 2)[0])
					} else {
						ctx.R.Traces++
						if e, _, _, _ := gReference(cfg, "C09"); e != "" {
							ctx.Outcome("rejected-as-predicted:" + e)
						} else {
							ctx.Outcome("routed-as-predicted")
						}
					}
					if ctx.R.Evals%3001 == 7 {
						ctx.Sample(gDesc(cfg))
					}
					continue
				}
				// C10: every single failure position (and every pair in thorough)
				if e, _, census, _ := gReference(cfg, "C10"); e == "" {
					var keys []string
					for k := range census {
						keys = append(keys, k)
					}
					sort.Strings(keys)
					plans := [][2][]string{{nil, nil}}
					for _, k := range keys {
						plans = append(plans, [2][]string{{k}, nil}, [2][]string{nil, {k}})
					}
					if !pairs {
						// quick tier: two components failing in Shutdown - every pair for small topologies, three pairs otherwise
						// ("a shutdown failure is reported but does not stop the remaining shutdowns": every failure is reported)
						if len(keys) <= 5 {
							for i, k1 := range keys {
								for _, k2 := range keys[i+1:] {
									plans = append(plans, [2][]string{nil, {k1, k2}})
								}
							}
						} else {
							last := len(keys) - 1
							plans = append(plans, [2][]string{nil, {keys[0], keys[last]}}, [2][]string{nil, {keys[0], keys[1]}}, [2][]string{nil, {keys[last-1], keys[last]}})
						}
					}
					if pairs {
						for i, k1 := range keys {
							for _, k2 := range keys {
								plans = append(plans, [2][]string{{k1}, {k2}})
							}
							for _, k2 := range keys[i+1:] {
								plans = append(plans, [2][]string{nil, {k1, k2}})
							}
						}
					}
					for _, pl := range plans {
						ctx.R.Evals++
						ctx.R.Trans++
						sig, what := gLifecycle(cfg, pl[0], pl[1])
						ctx.Nontrivial(vr.Hash(fmt.Sprint(cfg), fmt.Sprint(pl)))
						if sig != "" {
							ctx.Violate(sig, what, gCase{Mode: "C10", Cfg: cfg, FailStart: pl[0], FailStop: pl[1], MapOrder: mo})
							ctx.Outcome(sig)
						} else {
							ctx.R.Traces++
							ctx.Outcome(fmt.Sprintf("ordered:start-fail=%d,stop-fail=%d", len(pl[0]), len(pl[1])))
						}
						if ctx.R.Evals%9001 == 7 {
							ctx.Sample(map[string]any{"config": gDesc(cfg), "fail_start": pl[0], "fail_stop": pl[1]})
						}
					}
				}
			}
		}
	}
	}
	// two connectors (C09): every pipeline lists any non-empty subset of {r1, c, d} as receivers and of {e1, c, d} as
	// exporters, no processors; direction sets "all" and "traces->logs only"; BOTH map iteration orders for every one
	if prop == "C09" {
		var two []gPipe
		two = append(two, gPipe{})
		for r := 1; r < 8; r++ {
			for e := 1; e < 8; e++ {
				two = append(two, gPipe{Present: true, RecvR: r&1 != 0, RecvC: r&2 != 0, RecvD: r&4 != 0, ExpE1: e&1 != 0, ExpC: e&2 != 0, ExpD: e&4 != 0})
			}
		}
		ctx.R.Extra["two_connector_pipeline_options"] = len(two)
		for _, di := range []int{0, 1} {
			gSetDirs(di)
			for _, a := range two {
				for _, b := range two {
					for _, c := range two {
						cfg := gCfg{a, b, c}
						if !(a.RecvD || a.ExpD || b.RecvD || b.ExpD || c.RecvD || c.ExpD) {
							continue // no use of the second connector: part of the sweep above
						}
						n++
						if !ctx.Mine(n) {
							continue
						}
						if n%256 == 0 && ctx.Expired() {
							ctx.Cap("two-connector sweep not completed")
							return
						}
						for _, mo := range []string{"", "reversed"} {
							gSetMapOrder(mo)
							ctx.R.Evals++
							ctx.R.Trans++
							sig, what := gRouting(cfg)
							ctx.Nontrivial(vr.Hash(di, mo, fmt.Sprint(cfg)))
							if sig != "" {
								ctx.Violate(sig, what, gCase{Mode: "C09", Cfg: cfg, Dirs: di, MapOrder: mo})
								ctx.Outcome(strings.SplitN(sig, ":", 2)[0])
							} else {
								ctx.R.Traces++
								if e, _, _, _ := gReference(cfg, "C09"); e != "" {
									ctx.Outcome("rejected-as-predicted:" + e)
								} else {
									ctx.Outcome("routed-as-predicted")
								}
							}
						}
					}
				}
			}
		}
	}
	gSetMapOrder("")
	gSetDirs(0)
	ctx.R.States = ctx.R.Evals
}
