//go:build verif

package connector

// C09 (unit router-concurrent) - the connector routers under concurrent use. A router-aware connector resolves
// Consumer(ids...) per batch, from whatever goroutines its upstream calls it on: two (three) threads resolve different
// destination sets through ONE router at the same time and send a stamped payload; every destination must receive
// exactly the payloads addressed to it. The router code has no synchronisation operation of its own, so the controlled
// scheduler has nothing to interleave here (every execution is sequentially correct by construction); what decides this
// unit is its RACE PASS: the same bodies in a -race binary with the scheduler's hand-off hidden from the detector, where
// any state the router shares between two lookups shows as a data race between two sites of the router.

import (
	"context"
	"encoding/json"
	"fmt"
	"sort"
	"strings"
	"testing"

	"go.opentelemetry.io/collector/consumer"
	"go.opentelemetry.io/collector/pdata/plog"
	"go.opentelemetry.io/collector/pdata/pmetric"
	"go.opentelemetry.io/collector/pdata/ptrace"
	"go.opentelemetry.io/collector/pipeline"

	"VERIF/vr"
	"VERIF/vs"
)

type c09rCase struct {
	Signal  string     `json:"signal"`
	Threads [][]string `json:"threads"` // per thread: the pipeline names it routes one payload to
}

type c09rObs struct {
	got      map[string][]string // pipeline name -> stamps received
	errs     []string
	finished bool
}

func c09rBody(c *c09rCase, o *c09rObs) func() {
	return func() {
		*o = c09rObs{got: map[string][]string{}}
		names := []string{"left", "right", "mid"}
		id := func(sig pipeline.Signal, n string) pipeline.ID { return pipeline.NewIDWithName(sig, n) }
		var send func(t int, dests []string) error
		switch c.Signal {
		case "traces":
			cm := map[pipeline.ID]consumer.Traces{}
			for _, n := range names {
				n := n
				cm[id(pipeline.SignalTraces, n)], _ = consumer.NewTraces(func(_ context.Context, td ptrace.Traces) error {
					v, _ := td.ResourceSpans().At(0).Resource().Attributes().Get("stamp")
					o.got[n] = append(o.got[n], v.Str())
					return nil
				})
			}
			r := NewTracesRouter(cm)
			send = func(t int, dests []string) error {
				var ids []pipeline.ID
				for _, d := range dests {
					ids = append(ids, id(pipeline.SignalTraces, d))
				}
				cons, err := r.Consumer(ids...)
				if err != nil {
					return err
				}
				td := ptrace.NewTraces()
				td.ResourceSpans().AppendEmpty().Resource().Attributes().PutStr("stamp", fmt.Sprintf("t%d", t))
				return cons.ConsumeTraces(context.Background(), td)
			}
		case "metrics":
			cm := map[pipeline.ID]consumer.Metrics{}
			for _, n := range names {
				n := n
				cm[id(pipeline.SignalMetrics, n)], _ = consumer.NewMetrics(func(_ context.Context, md pmetric.Metrics) error {
					v, _ := md.ResourceMetrics().At(0).Resource().Attributes().Get("stamp")
					o.got[n] = append(o.got[n], v.Str())
					return nil
				})
			}
			r := NewMetricsRouter(cm)
			send = func(t int, dests []string) error {
				var ids []pipeline.ID
				for _, d := range dests {
					ids = append(ids, id(pipeline.SignalMetrics, d))
				}
				cons, err := r.Consumer(ids...)
				if err != nil {
					return err
				}
				md := pmetric.NewMetrics()
				md.ResourceMetrics().AppendEmpty().Resource().Attributes().PutStr("stamp", fmt.Sprintf("t%d", t))
				return cons.ConsumeMetrics(context.Background(), md)
			}
		default:
			cm := map[pipeline.ID]consumer.Logs{}
			for _, n := range names {
				n := n
				cm[id(pipeline.SignalLogs, n)], _ = consumer.NewLogs(func(_ context.Context, ld plog.Logs) error {
					v, _ := ld.ResourceLogs().At(0).Resource().Attributes().Get("stamp")
					o.got[n] = append(o.got[n], v.Str())
					return nil
				})
			}
			r := NewLogsRouter(cm)
			send = func(t int, dests []string) error {
				var ids []pipeline.ID
				for _, d := range dests {
					ids = append(ids, id(pipeline.SignalLogs, d))
				}
				cons, err := r.Consumer(ids...)
				if err != nil {
					return err
				}
				ld := plog.NewLogs()
				ld.ResourceLogs().AppendEmpty().Resource().Attributes().PutStr("stamp", fmt.Sprintf("t%d", t))
				return cons.ConsumeLogs(context.Background(), ld)
			}
		}
		var wg vs.WaitGroup
		for t, dests := range c.Threads {
			t, dests := t, dests
			wg.Add(1)
			vs.GoNamed(fmt.Sprintf("emitter%d", t), func() {
				defer wg.Done()
				vs.Point()
				if err := send(t, dests); err != nil {
					o.errs = append(o.errs, err.Error())
				}
			})
		}
		wg.Wait()
		o.finished = true
	}
}

func c09rVerdict(c *c09rCase, o *c09rObs, s *vs.Sched) (string, string) {
	if v := s.Verdict(); v != "" {
		if s.Deadlock {
			return "router-concurrent-deadlock:" + s.DeadlockSig(), fmt.Sprintf("%+v: %s", *c, v)
		}
		return "router-concurrent:" + c.Signal + ":" + strings.SplitN(fmt.Sprint(s.Panic), "\n", 2)[0], fmt.Sprintf("%+v: %s\n%s", *c, v, s.PanicStack)
	}
	if !o.finished {
		return "unfinished", fmt.Sprintf("%+v", *c)
	}
	if len(o.errs) > 0 {
		return "router-concurrent-error:" + c.Signal, fmt.Sprintf("%+v: %v", *c, o.errs)
	}
	want := map[string][]string{}
	for t, dests := range c.Threads {
		for _, d := range dests {
			want[d] = append(want[d], fmt.Sprintf("t%d", t))
		}
	}
	for _, n := range []string{"left", "right", "mid"} {
		g := append([]string(nil), o.got[n]...)
		sort.Strings(g)
		sort.Strings(want[n])
		if fmt.Sprint(g) != fmt.Sprint(want[n]) {
			return "router-concurrent-misrouted:" + c.Signal, fmt.Sprintf("%+v: pipeline %s received %v, the lookups addressed %v to it", *c, n, g, want[n])
		}
	}
	return "", ""
}

type c09rReplay struct {
	Case    *c09rCase `json:"case"`
	Choices []int     `json:"choices"`
}

func TestVerifRouterConcurrent(t *testing.T) {
	ctx := vr.Start("C09", "router-concurrent")
	if ctx == nil {
		t.Skip("not driven")
	}
	defer ctx.Finish()
	if ctx.ReplayRaw != nil {
		var rf struct {
			Replay c09rReplay `json:"replay"`
		}
		if err := json.Unmarshal(ctx.ReplayRaw, &rf); err != nil {
			t.Fatal(err)
		}
		var o c09rObs
		s := vs.Run(rf.Replay.Choices, c09rBody(rf.Replay.Case, &o))
		sig, what := c09rVerdict(rf.Replay.Case, &o, s)
		t.Logf("%s %s", sig, what)
		if sig != "" {
			ctx.Violate(sig, what, rf.Replay)
		}
		return
	}
	var cases []*c09rCase
	for _, sig := range []string{"traces", "metrics", "logs"} {
		cases = append(cases,
			&c09rCase{Signal: sig, Threads: [][]string{{"left"}, {"right"}}},
			&c09rCase{Signal: sig, Threads: [][]string{{"left", "mid"}, {"right"}}},
			&c09rCase{Signal: sig, Threads: [][]string{{"left"}, {"right", "mid"}, {"mid"}}},
			&c09rCase{Signal: sig, Threads: [][]string{{"left", "right"}, {"right", "left"}}})
	}
	bound := ctx.Param("bound", 2)
	for _, c := range cases {
		c := c
		var o c09rObs
		st := vs.Explore(vs.Opts{Bound: bound, Shard: ctx.Shard, Shards: ctx.Shards, Expired: ctx.Expired}, c09rBody(c, &o), func(s *vs.Sched, owned bool) bool {
			sig, what := c09rVerdict(c, &o, s)
			if owned {
				ctx.R.Evals++
				ctx.R.Traces++
				ctx.Outcome(c.Signal + ":routed")
				if sig != "" {
					ctx.Violate(sig, what, c09rReplay{c, s.Choices()})
				}
			}
			return sig == ""
		})
		for _, x := range st.Infra {
			ctx.Infra("%+v: %s", *c, x)
		}
		ctx.R.Trans += st.Steps
		ctx.R.States += st.Nodes
		ctx.Nontrivial(vr.Hash(fmt.Sprint(*c)))
	}
}
