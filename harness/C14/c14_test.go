//go:build verif

package e2e

// C14 — opaque configuration values never appear in any rendering.
// Engine E2 (finite grid, exhaustive): every fmt verb x flag set x width/precision x container shape x formatting
// function, the text/binary/JSON/YAML marshalers, confmap.Marshal of config structs (incl. the confighttp / configgrpc
// headers maps) and zap field encoders, for a set of secrets. Oracle: NON-INTERFERENCE — a rendering must not depend on
// the secret — plus the literal substring check, plus "explicit conversion returns the secret" and "unmarshal stores it".

import (
	"context"
	"encoding/json"
	"errors"
	"fmt"
	"reflect"
	"regexp"
	"sort"
	"strings"
	"testing"

	"go.uber.org/zap"
	"go.uber.org/zap/zapcore"
	"go.uber.org/zap/zaptest/observer"
	"gopkg.in/yaml.v3"

	"go.opentelemetry.io/collector/component/componenttest"
	"go.opentelemetry.io/collector/config/configgrpc"
	"go.opentelemetry.io/collector/config/confighttp"
	"go.opentelemetry.io/collector/config/configopaque"
	"go.opentelemetry.io/collector/confmap"

	"VERIF/vr"
)

type c14Holder struct {
	S   configopaque.String            `mapstructure:"s" json:"s" yaml:"s"`
	P   *configopaque.String           `mapstructure:"p" json:"p" yaml:"p"`
	L   []configopaque.String          `mapstructure:"l" json:"l" yaml:"l"`
	Arr [2]configopaque.String         `mapstructure:"arr" json:"arr" yaml:"arr"`
	M   map[string]configopaque.String `mapstructure:"m" json:"m" yaml:"m"`
	Sub struct {
		S configopaque.String `mapstructure:"s" json:"s" yaml:"s"`
		N struct {
			L []configopaque.String `mapstructure:"l" json:"l" yaml:"l"`
		} `mapstructure:"n" json:"n" yaml:"n"`
	} `mapstructure:"sub" json:"sub" yaml:"sub"`
	A any `mapstructure:"a" json:"a" yaml:"a"`
}

// c14CustomMarshal: a configuration struct with its own confmap.Marshaler
type c14CustomMarshal struct {
	Token   configopaque.String
	Headers map[string]configopaque.String
	Keys    []configopaque.String
}

func (c c14CustomMarshal) Marshal(conf *confmap.Conf) error {
	return conf.Merge(confmap.NewFromStringMap(map[string]any{
		"auth": map[string]any{"token": c.Token, "headers": c.Headers, "keys": c.Keys},
	}))
}

// c14Plain converts every string-kind value of a decoded configuration map to a plain string (what a consumer of the
// effective configuration that does not know the opaque type sees)
func c14Plain(v any) any {
	rv := reflect.ValueOf(v)
	switch rv.Kind() {
	case reflect.String:
		return rv.String()
	case reflect.Map:
		out := map[string]any{}
		for _, k := range rv.MapKeys() {
			out[fmt.Sprint(k.Interface())] = c14Plain(rv.MapIndex(k).Interface())
		}
		return out
	case reflect.Slice, reflect.Array:
		var out []any
		for i := 0; i < rv.Len(); i++ {
			out = append(out, c14Plain(rv.Index(i).Interface()))
		}
		return out
	case reflect.Ptr, reflect.Interface:
		if rv.IsNil() {
			return nil
		}
		return c14Plain(rv.Elem().Interface())
	}
	return v
}

func c14MkHolder(sec string) c14Holder {
	s := configopaque.String(sec)
	h := c14Holder{S: s, P: &s, L: []configopaque.String{s, s}, Arr: [2]configopaque.String{s, s}, M: map[string]configopaque.String{"x": s}, A: s}
	h.Sub.S = s
	h.Sub.N.L = []configopaque.String{s}
	return h
}

var c14PtrRe = regexp.MustCompile(`\*configopaque\.String= ?\+?(0[xX])?[0-9a-fA-F]+|0x[0-9a-f]{6,}|\(0x[0-9a-f]+\)`)

// integer-ish verbs applied to a pointer operand print its address in the verb's base: skipped, not "normalised"
const c14AddrVerbs = "bcdoOxXUp"

var c14Verbs = func() string {
	v := ""
	for c := 'a'; c <= 'z'; c++ {
		v += string(c)
	}
	for c := 'A'; c <= 'Z'; c++ {
		v += string(c)
	}
	return v
}()

func c14Flags() []string {
	fl := []string{"+", "-", "#", "0", " "}
	var out []string
	for m := 0; m < 32; m++ {
		s := ""
		for i, f := range fl {
			if m&(1<<i) != 0 {
				s += f
			}
		}
		out = append(out, s)
	}
	return out
}

type c14Wrap struct{ err error }

func (w c14Wrap) Error() string { return "wrapped: " + w.err.Error() }
func (w c14Wrap) Unwrap() error { return w.err }

// c14Renderings returns path -> rendering for one secret.
func c14Renderings(sec string, quick bool) map[string]string {
	out := map[string]string{}
	s := configopaque.String(sec)
	h := c14MkHolder(sec)
	type val struct {
		v   any
		ptr bool
	}
	vals := map[string]val{"value": {s, false}, "pointer": {&s, true}, "struct": {h, false}, "ptrstruct": {&h, true}, "slice": {[]configopaque.String{s}, false},
		"array": {[1]configopaque.String{s}, false}, "map": {map[string]configopaque.String{"k": s}, false}, "any": {any(s), false}, "anyslice": {[]any{s}, false},
		"nested": {struct {
			In struct{ L []configopaque.String }
		}{In: struct{ L []configopaque.String }{L: []configopaque.String{s}}}, false},
		"ptrslice": {[]*configopaque.String{&s}, true},
		"keymap":   {map[configopaque.String]int{s: 1}, false}, "keymapb": {map[configopaque.String]configopaque.String{s: s, s + "-2": s}, false}}
	flags := c14Flags()
	wps := []string{"", "1", ".1", "20.3"}
	if quick {
		flags = []string{"", "+", "#", "-", "0", " ", "+#", "#0", "- ", "+#0- "}
	}
	for name, v := range vals {
		for _, vb := range c14Verbs {
			if v.ptr && strings.ContainsRune(c14AddrVerbs, vb) {
				continue
			}
			for _, fl := range flags {
				for _, wp := range wps {
					f := "%" + fl + wp + string(vb)
					out["fmt:"+name+":"+f] = c14PtrRe.ReplaceAllString(fmt.Sprintf(f, v.v), "PTR")
				}
			}
		}
		out["sprint:"+name] = c14PtrRe.ReplaceAllString(fmt.Sprint(v.v), "PTR")
		out["sprintln:"+name] = c14PtrRe.ReplaceAllString(fmt.Sprintln(v.v), "PTR")
		e := fmt.Errorf("x: %v", v.v)
		out["errorf:"+name] = c14PtrRe.ReplaceAllString(e.Error(), "PTR")
		out["errorf-wrapped:"+name] = c14PtrRe.ReplaceAllString(fmt.Errorf("outer: %w", c14Wrap{e}).Error(), "PTR")
		out["errors-join:"+name] = c14PtrRe.ReplaceAllString(errors.Join(e, fmt.Errorf("%d %s", v.v, v.v)).Error(), "PTR")
		if b, err := json.Marshal(v.v); err == nil {
			out["json:"+name] = string(b)
		} else {
			out["json:"+name] = "ERR " + err.Error()
		}
		if b, err := yaml.Marshal(v.v); err == nil {
			out["yaml:"+name] = string(b)
		} else {
			out["yaml:"+name] = "ERR " + err.Error()
		}
	}
	if b, err := s.MarshalText(); true {
		out["marshaltext"] = fmt.Sprintf("%q %v", b, err)
		// the caller of a TextMarshaler owns the returned bytes: it reuses them for something else (here: the secret) ...
		b = append(b[:0], sec...)
		_ = b
		// ... and every later rendering must still be the marker
		b2, err2 := s.MarshalText()
		out["marshaltext:after-caller-reused-the-bytes"] = fmt.Sprintf("%q %v", b2, err2)
		if jb, err := json.Marshal(s); err == nil {
			out["json:after-caller-reused-the-bytes"] = string(jb)
		}
		for i := range b2 {
			b2[i] = 0
		}
	}
	if b, err := s.MarshalBinary(); true {
		out["marshalbinary"] = fmt.Sprintf("%q %v", b, err)
		b = append(b[:0], sec...)
		_ = b
		b2, err2 := s.MarshalBinary()
		out["marshalbinary:after-caller-reused-the-bytes"] = fmt.Sprintf("%q %v", b2, err2)
		for i := range b2 {
			b2[i] = 0
		}
		b3, err3 := s.MarshalText()
		out["marshaltext:after-caller-wiped-the-bytes"] = fmt.Sprintf("%q %v", b3, err3)
	}
	out["string()"] = s.String()
	out["gostring()"] = s.GoString()
	// confmap marshal of config structs
	c := confmap.New()
	if err := c.Marshal(h); err != nil {
		out["confmap:holder"] = "ERR " + err.Error()
	} else {
		out["confmap:holder"] = fmt.Sprint(c.ToStringMap())
	}
	// a component configuration that customises its own marshalling (confmap.Marshaler) and merges its opaque values as Go
	// values - as a nested field, as a map value and as the root
	cm := c14CustomMarshal{Token: s, Headers: map[string]configopaque.String{"authorization": s}, Keys: []configopaque.String{s, s}}
	for name, v := range map[string]any{
		"confmap:custom-marshaler:nested-field": struct {
			Name string           `mapstructure:"name"`
			Exp  c14CustomMarshal `mapstructure:"exp"`
		}{"n", cm},
		"confmap:custom-marshaler:map-value": struct {
			Exps map[string]c14CustomMarshal `mapstructure:"exps"`
		}{map[string]c14CustomMarshal{"otlp": cm}},
		"confmap:custom-marshaler:pointer-field": struct {
			Exp *c14CustomMarshal `mapstructure:"exp"`
		}{&cm},
		"confmap:custom-marshaler:root": cm,
	} {
		c = confmap.New()
		if err := c.Marshal(v); err != nil {
			out[name] = "ERR " + err.Error()
		} else {
			// both the rendering of the map and what a reader of single settings gets (typed values would print redacted
			// under %v although the map still holds the secret: decode into plain strings through JSON)
			m := c.ToStringMap()
			jb, _ := json.Marshal(c14Plain(m))
			out[name] = fmt.Sprint(m) + " " + string(jb)
		}
	}
	// opaque strings as map KEYS, one entry and several (all keys encode to the same marker: whatever the encoder says
	// about that is part of what marshalling reveals), directly, nested, behind a pointer and behind an interface
	s2 := s + "-2"
	km1 := map[configopaque.String]int{s: 1}
	km2 := map[configopaque.String]int{s: 1, s2: 2}
	km3 := map[configopaque.String]configopaque.String{s: s, s2: s2, s + "-3": s}
	for name, v := range map[string]any{
		"confmap:opaque-map-key:one-entry": struct {
			T map[configopaque.String]int `mapstructure:"t"`
		}{km1},
		"confmap:opaque-map-key:two-entries": struct {
			T map[configopaque.String]int `mapstructure:"t"`
		}{km2},
		"confmap:opaque-map-key:three-entries-opaque-values": struct {
			T map[configopaque.String]configopaque.String `mapstructure:"t"`
		}{km3},
		"confmap:opaque-map-key:nested-in-slice-of-structs": struct {
			L []struct {
				T map[configopaque.String]int `mapstructure:"t"`
			} `mapstructure:"l"`
		}{[]struct {
			T map[configopaque.String]int `mapstructure:"t"`
		}{{km1}, {km2}}},
		"confmap:opaque-map-key:behind-pointer": struct {
			T *map[configopaque.String]int `mapstructure:"t"`
		}{&km2},
		"confmap:opaque-map-key:behind-any": struct {
			T any `mapstructure:"t"`
		}{km2},
		"confmap:opaque-map-key:map-of-maps": struct {
			T map[string]map[configopaque.String]int `mapstructure:"t"`
		}{map[string]map[configopaque.String]int{"a": km2}},
	} {
		c = confmap.New()
		if err := c.Marshal(v); err != nil {
			out[name] = "ERR " + err.Error()
		} else {
			m := c.ToStringMap()
			jb, _ := json.Marshal(c14Plain(m))
			out[name] = fmt.Sprint(m) + " " + string(jb)
		}
	}
	// several opaque values in ONE marshal call, among them values that equal the marker text, the empty string and each
	// other: what one value renders to says nothing about the next one
	mk := configopaque.String("[REDACTED]")
	for name, v := range map[string]any{
		"confmap:marker-then-secret:slice": struct {
			L []configopaque.String `mapstructure:"l"`
		}{[]configopaque.String{mk, s, "", s, mk, s}},
		"confmap:marker-then-secret:fields": struct {
			A configopaque.String `mapstructure:"a"`
			B configopaque.String `mapstructure:"b"`
			C struct {
				D configopaque.String `mapstructure:"d"`
			} `mapstructure:"c"`
		}{A: mk, B: s, C: struct {
			D configopaque.String `mapstructure:"d"`
		}{s}},
		"confmap:marker-then-secret:map": struct {
			M map[string]configopaque.String `mapstructure:"m"`
		}{map[string]configopaque.String{"a": mk, "b": s, "c": mk, "d": s, "e": "", "f": s}},
		"confmap:marker-then-secret:pointers": struct {
			P []*configopaque.String `mapstructure:"p"`
		}{[]*configopaque.String{&mk, &s}},
	} {
		c = confmap.New()
		if err := c.Marshal(v); err != nil {
			out[name] = "ERR " + err.Error()
		} else {
			m := c.ToStringMap()
			jb, _ := json.Marshal(c14Plain(m))
			out[name] = fmt.Sprint(m) + " " + string(jb)
		}
	}
	hc := confighttp.NewDefaultClientConfig()
	hc.Headers = map[string]configopaque.String{"authorization": s, "x": s}
	c = confmap.New()
	if err := c.Marshal(hc); err != nil {
		out["confmap:confighttp"] = "ERR " + err.Error()
	} else {
		out["confmap:confighttp"] = fmt.Sprint(c.ToStringMap())
	}
	out["fmt:confighttp:%+v"] = c14PtrRe.ReplaceAllString(fmt.Sprintf("%+v", hc), "PTR")
	out["fmt:confighttp:%#v"] = c14PtrRe.ReplaceAllString(fmt.Sprintf("%#v", hc.Headers), "PTR")
	hs := confighttp.NewDefaultServerConfig()
	hs.ResponseHeaders = map[string]configopaque.String{"x-secret": s}
	c = confmap.New()
	if err := c.Marshal(hs); err != nil {
		out["confmap:confighttp-server"] = "ERR " + err.Error()
	} else {
		out["confmap:confighttp-server"] = fmt.Sprint(c.ToStringMap())
	}
	gc := configgrpc.NewDefaultClientConfig()
	gc.Headers = map[string]configopaque.String{"authorization": s}
	c = confmap.New()
	if err := c.Marshal(gc); err != nil {
		out["confmap:configgrpc"] = "ERR " + err.Error()
	} else {
		out["confmap:configgrpc"] = fmt.Sprint(c.ToStringMap())
	}
	out["fmt:configgrpc:%+v"] = c14PtrRe.ReplaceAllString(fmt.Sprintf("%+v", gc.Headers), "PTR")
	// the same configuration structs AFTER they have been used (client / connection / server built from them): whatever
	// a config object remembers from building its client is part of what "however it is formatted" prints
	gc.Endpoint, gc.TLSSetting.Insecure = "localhost:1", true
	if conn, err := gc.ToClientConn(context.Background(), componenttest.NewNopHost(), componenttest.NewNopTelemetrySettings()); err == nil {
		_ = conn.Close()
	}
	hc.Endpoint = "http://localhost:1"
	if cl, err := hc.ToClient(context.Background(), componenttest.NewNopHost(), componenttest.NewNopTelemetrySettings()); err == nil {
		cl.CloseIdleConnections()
	}
	for _, verb := range []string{"%v", "%+v", "%#v", "%s"} {
		out["fmt:configgrpc-after-use:"+verb] = c14PtrRe.ReplaceAllString(fmt.Sprintf(verb, gc), "PTR")
		out["fmt:configgrpc-after-use:&"+verb] = c14PtrRe.ReplaceAllString(fmt.Sprintf(verb, &gc), "PTR")
		out["fmt:confighttp-after-use:"+verb] = c14PtrRe.ReplaceAllString(fmt.Sprintf(verb, hc), "PTR")
		out["fmt:confighttp-after-use:&"+verb] = c14PtrRe.ReplaceAllString(fmt.Sprintf(verb, &hc), "PTR")
	}
	// zap encoders
	core, logs := observer.New(zapcore.DebugLevel)
	lg := zap.New(core)
	lg.Info("m", zap.Any("any", s), zap.Stringer("stringer", s), zap.Reflect("reflect", h), zap.String("fmt", fmt.Sprint(s)), zap.Any("anyholder", h),
		zap.Any("anyheaders", hc.Headers), zap.Any("anyslice", []configopaque.String{s}), zap.Reflect("reflectptr", &s))
	for _, e := range logs.All() {
		enc := zapcore.NewJSONEncoder(zap.NewProductionEncoderConfig())
		b, _ := enc.EncodeEntry(e.Entry, e.Context)
		out["zap:json"] = regexp.MustCompile(`"ts":[0-9.e+]+`).ReplaceAllString(b.String(), "")
		enc2 := zapcore.NewConsoleEncoder(zap.NewDevelopmentEncoderConfig())
		b2, _ := enc2.EncodeEntry(e.Entry, e.Context)
		out["zap:console"] = regexp.MustCompile(`^\S+`).ReplaceAllString(b2.String(), "")
	}
	return out
}

// ---- unmarshal targets: every way a configuration struct can hold an opaque value
type C14UPlain struct {
	Token configopaque.String `mapstructure:"token"`
	Other string              `mapstructure:"other"`
}

// the same, but the struct has unmarshal logic of its own (confmap.Unmarshaler), as many component configurations do
type C14UOwn struct {
	Token configopaque.String `mapstructure:"token"`
	Other string              `mapstructure:"other"`
}

func (u *C14UOwn) Unmarshal(c *confmap.Conf) error { return c.Unmarshal(u, confmap.WithIgnoreUnused()) }

// outer structs WITH unmarshal logic of their own, embedding (squash) a plain struct / a struct with its own Unmarshal
type C14UOuterOwnPlain struct {
	C14UPlain `mapstructure:",squash"`
	Name      string `mapstructure:"name"`
}

func (o *C14UOuterOwnPlain) Unmarshal(c *confmap.Conf) error { return c.Unmarshal(o) }

type C14UOuterOwnOwn struct {
	C14UOwn `mapstructure:",squash"`
	Name    string `mapstructure:"name"`
}

func (o *C14UOuterOwnOwn) Unmarshal(c *confmap.Conf) error { return c.Unmarshal(o) }

type c14UTargets struct {
	OuterOwnPlain C14UOuterOwnPlain              `mapstructure:"outer_own_plain"`
	OuterOwnOwn   C14UOuterOwnOwn                `mapstructure:"outer_own_own"`
	S             configopaque.String            `mapstructure:"s"`
	P             *configopaque.String           `mapstructure:"p"`
	M             map[string]configopaque.String `mapstructure:"m"`
	L             []configopaque.String          `mapstructure:"l"`
	Nested        C14UPlain                      `mapstructure:"nested"`
	NPtr          *C14UPlain                     `mapstructure:"nptr"`
	Own           C14UOwn                        `mapstructure:"own"`
	Squash        struct {
		C14UPlain `mapstructure:",squash"`
		Name      string `mapstructure:"name"`
	} `mapstructure:"squash"`
	SquashOwn struct {
		C14UOwn `mapstructure:",squash"`
		Name    string `mapstructure:"name"`
	} `mapstructure:"squash_own"`
}

// the explicit conversion still returns the secret and unmarshalling stores it unchanged; one entry per target shape
func c14PositiveAll(sec string) map[string]string {
	out := map[string]string{}
	s := configopaque.String(sec)
	if string(s) != sec {
		out["conversion"] = "explicit conversion does not return the secret"
	}
	one := map[string]any{"token": sec, "other": "x"}
	in := map[string]any{
		"s": sec, "p": sec, "m": map[string]any{"h": sec}, "l": []any{sec, sec},
		"nested": one, "nptr": one, "own": one,
		"squash":          map[string]any{"token": sec, "other": "x", "name": "n"},
		"squash_own":      map[string]any{"token": sec, "other": "x", "name": "n"},
		"outer_own_plain": map[string]any{"token": sec, "other": "x", "name": "n"},
		"outer_own_own":   map[string]any{"token": sec, "other": "x", "name": "n"},
	}
	var tgt c14UTargets
	if err := confmap.NewFromStringMap(in).Unmarshal(&tgt); err != nil {
		out["unmarshal"] = "unmarshal failed: " + err.Error()
		return out
	}
	got := map[string]string{
		"field": string(tgt.S), "map-value": string(tgt.M["h"]), "nested-struct": string(tgt.Nested.Token),
		"struct-with-own-unmarshal": string(tgt.Own.Token), "squashed-embedded-struct": string(tgt.Squash.Token),
		"squashed-embedded-struct-with-own-unmarshal":                     string(tgt.SquashOwn.Token),
		"struct-with-own-unmarshal-embedding-a-plain-struct":              string(tgt.OuterOwnPlain.Token),
		"struct-with-own-unmarshal-embedding-a-struct-with-own-unmarshal": string(tgt.OuterOwnOwn.Token),
	}
	if tgt.P != nil {
		got["pointer"] = string(*tgt.P)
	} else {
		got["pointer"] = "<nil>"
	}
	if len(tgt.L) == 2 {
		got["slice"] = string(tgt.L[1])
	} else {
		got["slice"] = fmt.Sprintf("<%d elements>", len(tgt.L))
	}
	if tgt.NPtr != nil {
		got["pointer-to-nested-struct"] = string(tgt.NPtr.Token)
	} else {
		got["pointer-to-nested-struct"] = "<nil>"
	}
	for k, v := range got {
		if v != sec {
			out[k] = fmt.Sprintf("unmarshalling into a %s stored %q instead of the secret %q", k, c14Trunc(v), c14Trunc(sec))
		}
	}
	// the secret supplied by a configuration provider (the ${env:...} / ${file:...} way): as the whole value of the setting,
	// embedded in a larger string, and as a map value
	if !strings.ContainsAny(sec, "${}") && strings.TrimSpace(sec) != "" && !strings.Contains(sec, "\n") {
		prov := confmap.NewProviderFactory(func(confmap.ProviderSettings) confmap.Provider { return c14Prov{sec} })
		r, err := confmap.NewResolver(confmap.ResolverSettings{URIs: []string{"zz:root"}, ProviderFactories: []confmap.ProviderFactory{prov}})
		if err != nil {
			out["provider"] = "resolver: " + err.Error()
			return out
		}
		conf, err := r.Resolve(context.Background())
		if err != nil {
			out["provider"] = "resolve: " + err.Error()
			return out
		}
		var pt struct {
			Whole    configopaque.String            `mapstructure:"whole"`
			Embedded configopaque.String            `mapstructure:"embedded"`
			M        map[string]configopaque.String `mapstructure:"m"`
		}
		if err := conf.Unmarshal(&pt); err != nil {
			out["provider"] = "unmarshal of provider-supplied secrets failed: " + err.Error()
			return out
		}
		if string(pt.Whole) != sec {
			out["provider-whole-value"] = fmt.Sprintf("a secret supplied by a provider as the whole value was stored as %q instead of %q", c14Trunc(string(pt.Whole)), c14Trunc(sec))
		}
		if string(pt.Embedded) != "pre-"+sec+"-post" {
			out["provider-embedded"] = fmt.Sprintf("a secret supplied by a provider inside a string was stored as %q instead of %q", c14Trunc(string(pt.Embedded)), c14Trunc("pre-"+sec+"-post"))
		}
		if string(pt.M["h"]) != sec {
			out["provider-map-value"] = fmt.Sprintf("a secret supplied by a provider as a map value was stored as %q instead of %q", c14Trunc(string(pt.M["h"])), c14Trunc(sec))
		}
	}
	return out
}

// c14Prov: "zz:root" is the configuration, "zz:secret" the secret's text exactly as an environment variable or file would
// supply it (parsed as YAML by the provider helper, like envprovider and fileprovider do)
type c14Prov struct{ sec string }

func (p c14Prov) Retrieve(_ context.Context, uri string, _ confmap.WatcherFunc) (*confmap.Retrieved, error) {
	if uri == "zz:root" {
		return confmap.NewRetrieved(map[string]any{"whole": "${zz:secret}", "embedded": "pre-${zz:secret}-post", "m": map[string]any{"h": "${zz:secret}"}})
	}
	return confmap.NewRetrievedFromYAML([]byte(p.sec))
}
func (c14Prov) Scheme() string                 { return "zz" }
func (c14Prov) Shutdown(context.Context) error { return nil }

func c14PathClass(k string) string {
	p := strings.SplitN(k, ":", 3)
	if p[0] == "fmt" && len(p) == 3 {
		vb := p[2][len(p[2])-1:]
		cls := "verb-valid-for-strings"
		if !strings.Contains("vsqxX", vb) {
			cls = "verb-invalid-for-strings"
		}
		if vb == "p" || vb == "w" {
			cls = "verb-p-or-w" // fmt takes its bad-verb path for these before consulting any method of the operand
		}
		return "fmt:" + p[1] + ":" + cls
	}
	if len(p) >= 2 {
		return p[0] + ":" + p[1]
	}
	return p[0]
}

// c14MarkerPath: renderings that the statement requires to be the fixed marker
func c14MarkerPath(k string) bool {
	for _, p := range []string{"marshaltext", "marshalbinary", "json:", "yaml:", "string()", "gostring()", "confmap:"} {
		if strings.HasPrefix(k, p) {
			return true
		}
	}
	return false
}

func c14Trunc(s string) string {
	if len(s) > 160 {
		return s[:160] + "…"
	}
	return s
}

type c14Case struct {
	Secret string `json:"secret"`
	Path   string `json:"path"`
}

func TestVerif(t *testing.T) {
	ctx := vr.Start("C14", "opaque")
	if ctx == nil {
		t.Skip("not driven")
	}
	defer ctx.Finish()
	secrets := []string{"s3cr3t", "", "%s%d%v", "[REDACTED]", "RED", "pässwörd", strings.Repeat("k", 1024), "a\nb\"c",
		// texts that YAML does not read as strings: a secret is whatever the user's secret is
		"#S3cr3t!", "~", "null", "12345", "true", "0x1F", "1e3", "2021-01-01", "[a, b]", "a: b",
		// characters that mean something to the configuration machinery itself (expansion syntax, key separators)
		"pa$$w0rd", "$ecret", "tok${env:HOME}en", "a::b", "${", "$",
		// surrounding whitespace and line breaks are part of the secret (a PEM block, a token read from a file)
		"tok\n", "tok\r\n", " tok ", "\ttok", "\n", " "}
	quick := ctx.Quick()
	base := c14Renderings("BASELINE-other-secret", quick)
	check := func(sec, onlyPath string) {
		r := c14Renderings(sec, quick)
		var ks []string
		for k := range r {
			ks = append(ks, k)
		}
		sort.Strings(ks)
		for _, k := range ks {
			if onlyPath != "" && k != onlyPath {
				continue
			}
			v := r[k]
			ctx.R.Evals++
			ctx.R.Trans++
			ctx.Nontrivial(vr.Hash(sec, k))
			bad := ""
			if v != base[k] {
				bad = fmt.Sprintf("rendering depends on the secret: path=%s secret=%q -> %q (another secret -> %q)", k, c14Trunc(sec), c14Trunc(v), c14Trunc(base[k]))
			} else if sec == "s3cr3t" && strings.Contains(v, sec) {
				bad = fmt.Sprintf("secret appears verbatim: path=%s -> %q", k, c14Trunc(v))
			} else if c14MarkerPath(k) && !strings.Contains(v, "[REDACTED]") && !strings.HasPrefix(v, "ERR ") {
				// "All of these render the fixed redaction marker" (marshalling paths and the standard string conversions)
				bad = fmt.Sprintf("the rendering is not the redaction marker: path=%s -> %q", k, c14Trunc(v))
			}
			if bad != "" {
				ctx.Violate("leak:"+c14PathClass(k), bad, c14Case{sec, k})
				ctx.Outcome("leak:" + strings.SplitN(k, ":", 2)[0])
			} else {
				ctx.R.Traces++
				ctx.Outcome("independent:" + strings.SplitN(k, ":", 2)[0])
			}
			if ctx.R.Evals%50021 == 17 {
				ctx.Sample(map[string]any{"secret": c14Trunc(sec), "path": k, "rendering": c14Trunc(v)})
			}
		}
		if onlyPath == "" || onlyPath == "positive" {
			ctx.R.Evals++
			bad := c14PositiveAll(sec)
			var ks []string
			for k := range bad {
				ks = append(ks, k)
			}
			sort.Strings(ks)
			for _, k := range ks {
				ctx.Violate("conversion-or-unmarshal:"+k, bad[k], c14Case{sec, "positive"})
			}
			if len(bad) == 0 {
				ctx.R.Traces++
			}
		}
	}
	if ctx.ReplayRaw != nil {
		var rf struct {
			Replay c14Case `json:"replay"`
		}
		if err := json.Unmarshal(ctx.ReplayRaw, &rf); err != nil {
			t.Fatal(err)
		}
		check(rf.Replay.Secret, rf.Replay.Path)
		return
	}
	for i, sec := range secrets {
		if ctx.Mine(int64(i)) {
			check(sec, "")
		}
	}
	ctx.R.States = ctx.R.Evals
}
