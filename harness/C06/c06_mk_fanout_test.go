//go:build verif

package VERIFPKG

// unit "fanout": the consumer vector is handed to the fan-out constructors directly.

import (
	"go.opentelemetry.io/collector/consumer"
	"go.opentelemetry.io/collector/consumer/xconsumer"
)

const c06Unit = "fanout"

func c06MkLogs(c []consumer.Logs) consumer.Logs             { return NewLogs(c) }
func c06MkTraces(c []consumer.Traces) consumer.Traces       { return NewTraces(c) }
func c06MkMetrics(c []consumer.Metrics) consumer.Metrics    { return NewMetrics(c) }
func c06MkProfiles(c []xconsumer.Profiles) xconsumer.Profiles { return NewProfiles(c) }
