//go:build verif

package VERIFPKG

// C06 — fan-out never lets one consumer's mutation reach another consumer.
// Engine E2: all consumer vectors of length 1-4 over {read-only, mutating synchronously, mutating asynchronously after
// returning} x {ok, fail} x {mutable, read-only input}, for all four signals, on the real fan-out consumers. Oracle:
// non-interference (observation before/after), invocation census, error aggregation, read-only protection, capabilities.

import (
	"time"
	"context"
	"encoding/json"
	"errors"
	"fmt"
	"strings"
	"testing"

	"go.opentelemetry.io/collector/consumer"
	"go.opentelemetry.io/collector/consumer/xconsumer"
	"go.opentelemetry.io/collector/pdata/pcommon"
	"go.opentelemetry.io/collector/pdata/plog"
	"go.opentelemetry.io/collector/pdata/pmetric"
	"go.opentelemetry.io/collector/pdata/pprofile"
	"go.opentelemetry.io/collector/pdata/ptrace"

	"VERIF/vr"
)

type c06Rec struct {
	mut, fail, async bool
	calls            int
	seenAt           string
	observe          func() string         // observation of the retained payload
	mutate           func(tag string) bool // mutate the retained payload everywhere; reports whether it panicked
	tag              func() string         // current identity tag of the retained payload
}

// a signal adapter runs one case and fills recs; returns error of the fan-out call, capabilities, observation of the input
type c06Signal struct {
	Name string
	Run  func(recs []*c06Rec, readOnlyInput bool) (sent string, err error, caps consumer.Capabilities, inputAfter func() string)
}

func c06FillRes(res pcommon.Resource) {
	res.Attributes().PutStr("r", "R")
	res.Attributes().PutEmptyMap("m").PutStr("k", "v")
	res.Attributes().PutEmptySlice("l").AppendEmpty().SetStr("x")
	res.Attributes().PutInt("n", 1)
	res.Attributes().PutDouble("d", 1.5)
	res.Attributes().PutBool("b", false)
	res.Attributes().PutEmptyBytes("y").FromRaw([]byte{1, 2})
}

func c06MutRes(res pcommon.Resource, tag string) {
	res.Attributes().PutStr("r", tag)
	m, _ := res.Attributes().Get("m")
	m.Map().PutStr("k", tag)
	l, _ := res.Attributes().Get("l")
	l.Slice().At(0).SetStr(tag)
	// in-place overwrites of existing primitive values (same kind, new content)
	if v, ok := res.Attributes().Get("n"); ok {
		v.SetInt(v.Int() + int64(len(tag)) + 1)
	}
	if v, ok := res.Attributes().Get("d"); ok {
		v.SetDouble(v.Double() + float64(len(tag)) + 1)
	}
	if v, ok := res.Attributes().Get("b"); ok {
		v.SetBool(!v.Bool())
	}
	if v, ok := res.Attributes().Get("y"); ok && v.Bytes().Len() > 0 {
		v.Bytes().SetAt(0, v.Bytes().At(0)+byte(len(tag))+1)
	}
}

func c06Guard(f func()) (panicked bool) {
	defer func() {
		if recover() != nil {
			panicked = true
		}
	}()
	f()
	return false
}

func c06Hook(r *c06Rec, obs func() string, mut func(tag string), tag func() string) error {
	r.calls++
	r.seenAt = obs()
	r.observe = obs
	r.mutate = func(t string) bool { return c06Guard(func() { mut(t) }) }
	r.tag = tag
	if r.mut && !r.async {
		r.mutate(fmt.Sprintf("MUT%p", r))
	}
	if r.fail {
		return errors.New("fail")
	}
	return nil
}

var c06Logs = &c06Signal{Name: "logs", Run: func(recs []*c06Rec, ro bool) (string, error, consumer.Capabilities, func() string) {
	in := plog.NewLogs()
	rl := in.ResourceLogs().AppendEmpty()
	c06FillRes(rl.Resource())
	sl := rl.ScopeLogs().AppendEmpty()
	sl.Scope().SetName("S")
	for i := 0; i < 2; i++ {
		sl.LogRecords().AppendEmpty().Body().SetStr(fmt.Sprintf("b%d", i))
	}
	obs := func(ld plog.Logs) func() string {
		return func() string { b, _ := (&plog.JSONMarshaler{}).MarshalLogs(ld); return string(b) }
	}
	var cons []consumer.Logs
	for _, r := range recs {
		r := r
		c, _ := consumer.NewLogs(func(_ context.Context, ld plog.Logs) error {
			return c06Hook(r, obs(ld), func(tag string) {
				c06MutRes(ld.ResourceLogs().At(0).Resource(), tag)
				s := ld.ResourceLogs().At(0).ScopeLogs().At(0)
				s.Scope().SetName(tag)
				s.LogRecords().At(0).Body().SetStr(tag)
				s.LogRecords().RemoveIf(func(lr plog.LogRecord) bool { return lr.Body().Str() == "b1" })
				ld.ResourceLogs().AppendEmpty()
			}, func() string { v, _ := ld.ResourceLogs().At(0).Resource().Attributes().Get("r"); return v.Str() })
		}, consumer.WithCapabilities(consumer.Capabilities{MutatesData: r.mut}))
		cons = append(cons, c)
	}
	sent := obs(in)()
	if ro {
		in.MarkReadOnly()
	}
	fo := c06MkLogs(cons) // the fan-out consumer itself, or the same vector selected through a connector router (see c06_mk_*)
	err := fo.ConsumeLogs(c06Context(), in)
	return sent, err, fo.Capabilities(), obs(in)
}}

var c06Traces = &c06Signal{Name: "traces", Run: func(recs []*c06Rec, ro bool) (string, error, consumer.Capabilities, func() string) {
	in := ptrace.NewTraces()
	rs := in.ResourceSpans().AppendEmpty()
	c06FillRes(rs.Resource())
	ss := rs.ScopeSpans().AppendEmpty()
	for i := 0; i < 2; i++ {
		sp := ss.Spans().AppendEmpty()
		sp.SetName(fmt.Sprintf("s%d", i))
		sp.Events().AppendEmpty().SetName("e")
	}
	obs := func(td ptrace.Traces) func() string {
		return func() string { b, _ := (&ptrace.JSONMarshaler{}).MarshalTraces(td); return string(b) }
	}
	var cons []consumer.Traces
	for _, r := range recs {
		r := r
		c, _ := consumer.NewTraces(func(_ context.Context, td ptrace.Traces) error {
			return c06Hook(r, obs(td), func(tag string) {
				c06MutRes(td.ResourceSpans().At(0).Resource(), tag)
				s := td.ResourceSpans().At(0).ScopeSpans().At(0)
				s.Spans().At(0).SetName(tag)
				s.Spans().At(0).Events().At(0).SetName(tag)
				s.Spans().RemoveIf(func(sp ptrace.Span) bool { return sp.Name() == "s1" })
				td.ResourceSpans().AppendEmpty()
			}, func() string { v, _ := td.ResourceSpans().At(0).Resource().Attributes().Get("r"); return v.Str() })
		}, consumer.WithCapabilities(consumer.Capabilities{MutatesData: r.mut}))
		cons = append(cons, c)
	}
	sent := obs(in)()
	if ro {
		in.MarkReadOnly()
	}
	fo := c06MkTraces(cons) // the fan-out consumer itself, or the same vector selected through a connector router (see c06_mk_*)
	err := fo.ConsumeTraces(c06Context(), in)
	return sent, err, fo.Capabilities(), obs(in)
}}

var c06Metrics = &c06Signal{Name: "metrics", Run: func(recs []*c06Rec, ro bool) (string, error, consumer.Capabilities, func() string) {
	in := pmetric.NewMetrics()
	rm := in.ResourceMetrics().AppendEmpty()
	c06FillRes(rm.Resource())
	sm := rm.ScopeMetrics().AppendEmpty()
	m := sm.Metrics().AppendEmpty()
	m.SetName("m0")
	g := m.SetEmptyGauge()
	for i := 0; i < 2; i++ {
		dp := g.DataPoints().AppendEmpty()
		dp.SetIntValue(int64(i))
		dp.Attributes().PutStr("a", "b")
	}
	obs := func(md pmetric.Metrics) func() string {
		return func() string { b, _ := (&pmetric.JSONMarshaler{}).MarshalMetrics(md); return string(b) }
	}
	var cons []consumer.Metrics
	for _, r := range recs {
		r := r
		c, _ := consumer.NewMetrics(func(_ context.Context, md pmetric.Metrics) error {
			return c06Hook(r, obs(md), func(tag string) {
				c06MutRes(md.ResourceMetrics().At(0).Resource(), tag)
				mm := md.ResourceMetrics().At(0).ScopeMetrics().At(0).Metrics().At(0)
				mm.SetName(tag)
				mm.Gauge().DataPoints().At(0).Attributes().PutStr("a", tag)
				mm.Gauge().DataPoints().RemoveIf(func(dp pmetric.NumberDataPoint) bool { return dp.IntValue() == 1 })
				md.ResourceMetrics().AppendEmpty()
			}, func() string { v, _ := md.ResourceMetrics().At(0).Resource().Attributes().Get("r"); return v.Str() })
		}, consumer.WithCapabilities(consumer.Capabilities{MutatesData: r.mut}))
		cons = append(cons, c)
	}
	sent := obs(in)()
	if ro {
		in.MarkReadOnly()
	}
	fo := c06MkMetrics(cons) // the fan-out consumer itself, or the same vector selected through a connector router (see c06_mk_*)
	err := fo.ConsumeMetrics(c06Context(), in)
	return sent, err, fo.Capabilities(), obs(in)
}}

var c06Profiles = &c06Signal{Name: "profiles", Run: func(recs []*c06Rec, ro bool) (string, error, consumer.Capabilities, func() string) {
	in := pprofile.NewProfiles()
	rp := in.ResourceProfiles().AppendEmpty()
	c06FillRes(rp.Resource())
	sp := rp.ScopeProfiles().AppendEmpty()
	for i := 0; i < 2; i++ {
		p := sp.Profiles().AppendEmpty()
		p.SetOriginalPayloadFormat(fmt.Sprintf("f%d", i))
		p.Sample().AppendEmpty().Value().Append(int64(i))
	}
	obs := func(pd pprofile.Profiles) func() string {
		return func() string { b, _ := (&pprofile.JSONMarshaler{}).MarshalProfiles(pd); return string(b) }
	}
	var cons []xconsumer.Profiles
	for _, r := range recs {
		r := r
		c, _ := xconsumer.NewProfiles(func(_ context.Context, pd pprofile.Profiles) error {
			return c06Hook(r, obs(pd), func(tag string) {
				c06MutRes(pd.ResourceProfiles().At(0).Resource(), tag)
				s := pd.ResourceProfiles().At(0).ScopeProfiles().At(0)
				s.Profiles().At(0).SetOriginalPayloadFormat(tag)
				s.Profiles().At(0).Sample().At(0).Value().SetAt(0, 77)
				s.Profiles().RemoveIf(func(p pprofile.Profile) bool { return p.OriginalPayloadFormat() == "f1" })
				pd.ResourceProfiles().AppendEmpty()
			}, func() string { v, _ := pd.ResourceProfiles().At(0).Resource().Attributes().Get("r"); return v.Str() })
		}, consumer.WithCapabilities(consumer.Capabilities{MutatesData: r.mut}))
		cons = append(cons, c)
	}
	sent := obs(in)()
	if ro {
		in.MarkReadOnly()
	}
	fo := c06MkProfiles(cons) // the fan-out consumer itself, or the same vector selected through a connector router (see c06_mk_*)
	err := fo.ConsumeProfiles(c06Context(), in)
	return sent, err, fo.Capabilities(), obs(in)
}}

type c06Case struct {
	Signal   string   `json:"signal"`
	Vec      []string `json:"consumers"` // R | M | A, optional suffix f (fails)
	ReadOnly bool     `json:"read_only_input"`
	// Context: the request context the fan-out is called with: "" (live), "cancelled", "deadline-passed". What a consumer does
	// with a finished context is its own business; the fan-out still hands the data to every one of them
	Context string `json:"request_context,omitempty"`
}

var c06CurCtx string

func c06Context() context.Context {
	switch c06CurCtx {
	case "cancelled":
		ctx, cancel := context.WithCancel(context.Background())
		cancel()
		return ctx
	case "deadline-passed":
		ctx, cancel := context.WithDeadline(context.Background(), time.Unix(1, 0))
		_ = cancel
		return ctx
	}
	return context.Background()
}

func c06Run(sig *c06Signal, c c06Case) (string, string) {
	recs := make([]*c06Rec, len(c.Vec))
	for i, k := range c.Vec {
		recs[i] = &c06Rec{mut: k[0] != 'R', fail: strings.HasSuffix(k, "f"), async: k[0] == 'A'}
	}
	desc := fmt.Sprintf("signal=%s consumers=%v read_only_input=%v", c.Signal, c.Vec, c.ReadOnly)
	var sent string
	var err error
	var caps consumer.Capabilities
	var inputAfter func() string
	c06CurCtx = c.Context
	if c.Context != "" {
		desc += " request-context=" + c.Context
	}
	if c06Guard(func() { sent, err, caps, inputAfter = sig.Run(recs, c.ReadOnly) }) {
		return "fanout-panicked", desc
	}
	// asynchronous mutations happen after the fan-out call returned
	for i, r := range recs {
		if r.async && r.calls == 1 {
			r.mutate(fmt.Sprintf("MUT%d", i))
		}
	}
	fails, ro, mut := 0, 0, 0
	for i, r := range recs {
		if r.fail {
			fails++
		}
		if r.mut {
			mut++
		} else {
			ro++
		}
		if r.calls != 1 {
			return "consumer-not-invoked-exactly-once", fmt.Sprintf("%s: consumer %d invoked %d times", desc, i, r.calls)
		}
		if r.seenAt != sent {
			return "consumer-saw-different-content", fmt.Sprintf("%s: consumer %d received content different from what was sent", desc, i)
		}
		if !r.mut && r.observe() != sent {
			return "non-mutating-consumer-observed-a-change", fmt.Sprintf("%s: the data of non-mutating consumer %d was changed by another consumer", desc, i)
		}
	}
	// every mutating consumer works on data no one else can see: its own tag must still be there
	for i, r := range recs {
		if r.mut {
			want := fmt.Sprintf("MUT%d", i)
			if !r.async {
				want = fmt.Sprintf("MUT%p", r)
			}
			if r.tag() != want {
				return "mutating-consumers-share-data", fmt.Sprintf("%s: mutating consumer %d finds tag %q instead of its own %q in its payload", desc, i, r.tag(), want)
			}
		}
	}
	if (err != nil) != (fails > 0) {
		return "error-aggregation", fmt.Sprintf("%s: returned error %v with %d failing consumers", desc, err, fails)
	}
	if err != nil && strings.Count(err.Error(), "fail") != fails {
		return "error-aggregation-count", fmt.Sprintf("%s: returned error %q does not aggregate all %d failures", desc, err, fails)
	}
	if ro > 1 {
		for i, r := range recs {
			if !r.mut {
				before := r.observe()
				if !r.mutate("UNDECLARED") || r.observe() != before {
					return "shared-data-not-read-only", fmt.Sprintf("%s: undeclared mutation by non-mutating consumer %d did not panic or changed shared data", desc, i)
				}
			}
		}
	}
	// capabilities: soundness (not advertised as mutating => the caller's payload content is untouched) and exactness
	if !caps.MutatesData && inputAfter() != sent {
		return "capabilities-unsound", fmt.Sprintf("%s: fan-out advertises MutatesData=false but the caller's payload was modified", desc)
	}
	if want := mut > 0 && ro == 0; caps.MutatesData != want {
		return "capabilities-inexact", fmt.Sprintf("%s: MutatesData=%v, expected %v (mutating exactly when the original may reach a mutating consumer)", desc, caps.MutatesData, want)
	}
	return "", ""
}

func TestVerif(t *testing.T) {
	ctx := vr.Start("C06", c06Unit)
	if ctx == nil {
		t.Skip("not driven")
	}
	defer ctx.Finish()
	sigs := map[string]*c06Signal{"logs": c06Logs, "traces": c06Traces, "metrics": c06Metrics, "profiles": c06Profiles}
	if ctx.ReplayRaw != nil {
		var rf struct {
			Replay c06Case `json:"replay"`
		}
		if err := json.Unmarshal(ctx.ReplayRaw, &rf); err != nil {
			t.Fatal(err)
		}
		sig, what := c06Run(sigs[rf.Replay.Signal], rf.Replay)
		t.Logf("%s %s", sig, what)
		if sig != "" {
			ctx.Violate(sig+":"+rf.Replay.Signal, what, rf.Replay)
		}
		return
	}
	kinds := []string{"R", "M", "A", "Rf", "Mf", "Af"}
	maxLen := ctx.Param("consumers", 4)
	var vectors [][]string
	var gen func(cur []string)
	gen = func(cur []string) {
		if len(cur) > 0 {
			vectors = append(vectors, append([]string{}, cur...))
		}
		if len(cur) == maxLen {
			return
		}
		for _, k := range kinds {
			gen(append(cur, k))
		}
	}
	gen(nil)
	var n int64
	for _, name := range []string{"logs", "traces", "metrics", "profiles"} {
		for _, vec := range vectors {
			for _, roc := range []struct {
				ro bool
				cx string
			}{{false, ""}, {true, ""}, {false, "cancelled"}, {true, "deadline-passed"}} {
				ro := roc.ro
				n++
				if !ctx.Mine(n) {
					continue
				}
				c := c06Case{name, vec, ro, roc.cx}
				ctx.R.Evals++
				ctx.R.Trans += int64(len(vec))
				if len(vec) > 1 {
					ctx.Nontrivial(vr.Hash(name, fmt.Sprint(vec), ro))
				}
				sig, what := c06Run(sigs[name], c)
				if sig != "" {
					ctx.Violate(sig+":"+name, what, c)
					ctx.Outcome(name + ":" + sig)
				} else {
					ctx.R.Traces++
					ctx.Outcome(name + ":isolated")
				}
				if ctx.R.Evals%2003 == 5 {
					ctx.Sample(c)
				}
			}
		}
	}
	ctx.R.States = ctx.R.Evals
}
