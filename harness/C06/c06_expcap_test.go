//go:build verif

package exporterhelper

// C06 (unit exporter-capabilities) - "a pipeline advertises itself as mutating exactly when ... its exporter stage acting on
// the original payload may mutate it": the exporter stage of the built-in exporters is the exporter helper. For every
// queue/batch configuration of a small grid and the three signals, a real helper-built exporter is given a payload of
// five items; if it does NOT declare MutatesData, the payload it was given must be byte-for-byte what it was (it may be
// shared with a sibling consumer, read-only). With a queue the call waits for the result, so everything the exporter does
// with the payload has happened when the call returns.

import (
	"context"
	"encoding/json"
	"fmt"
	"testing"
	"time"

	"go.opentelemetry.io/collector/component"
	"go.opentelemetry.io/collector/component/componenttest"
	"go.opentelemetry.io/collector/exporter/exporterhelper/internal/queuebatch"
	"go.opentelemetry.io/collector/exporter/exportertest"
	"go.opentelemetry.io/collector/pdata/plog"
	"go.opentelemetry.io/collector/pdata/pmetric"
	"go.opentelemetry.io/collector/pdata/ptrace"

	"VERIF/vr"
)

type c06eCase struct {
	Signal  string `json:"signal"`
	Queue   bool   `json:"queue_enabled"`
	Batch   bool   `json:"batch"`
	Sizer   string `json:"sizer"`
	MinSize int64  `json:"min_size"`
	MaxSize int64  `json:"max_size"`
}

func c06eRun(c c06eCase) (string, string) {
	qc := NewDefaultQueueConfig()
	qc.Enabled = c.Queue
	qc.WaitForResult = true
	qc.NumConsumers = 1
	if c.Batch {
		qc.Batch = &queuebatch.BatchConfig{FlushTimeout: 10 * time.Millisecond, MinSize: c.MinSize, MaxSize: c.MaxSize}
		if c.Sizer == "bytes" {
			qc.Sizer = RequestSizerTypeBytes
		} else {
			qc.Sizer = RequestSizerTypeItems
		}
	}
	if err := qc.Validate(); err != nil {
		return "", "" // not accepted by validation: outside the quantifier
	}
	set := exportertest.NewNopSettings(component.MustNewType("x"))
	ctx := context.Background()
	desc := fmt.Sprintf("%+v", c)
	var before, after []byte
	var mutates bool
	var cerr error
	switch c.Signal {
	case "logs":
		e, err := NewLogs(ctx, set, &struct{}{}, func(context.Context, plog.Logs) error { return nil }, WithQueue(qc))
		if err != nil {
			return "construct", desc + ": " + err.Error()
		}
		if err := e.Start(ctx, componenttest.NewNopHost()); err != nil {
			return "start", desc + ": " + err.Error()
		}
		ld := plog.NewLogs()
		for r := 0; r < 2; r++ {
			rl := ld.ResourceLogs().AppendEmpty()
			rl.Resource().Attributes().PutInt("r", int64(r))
			sl := rl.ScopeLogs().AppendEmpty()
			for i := 0; i < 3-r; i++ {
				sl.LogRecords().AppendEmpty().Body().SetStr(fmt.Sprintf("record %d/%d with some text to give it a size", r, i))
			}
		}
		before, _ = (&plog.ProtoMarshaler{}).MarshalLogs(ld)
		mutates = e.Capabilities().MutatesData
		cerr = e.ConsumeLogs(ctx, ld)
		after, _ = (&plog.ProtoMarshaler{}).MarshalLogs(ld)
		_ = e.Shutdown(ctx)
	case "traces":
		e, err := NewTraces(ctx, set, &struct{}{}, func(context.Context, ptrace.Traces) error { return nil }, WithQueue(qc))
		if err != nil {
			return "construct", desc + ": " + err.Error()
		}
		if err := e.Start(ctx, componenttest.NewNopHost()); err != nil {
			return "start", desc + ": " + err.Error()
		}
		td := ptrace.NewTraces()
		for r := 0; r < 2; r++ {
			rs := td.ResourceSpans().AppendEmpty()
			rs.Resource().Attributes().PutInt("r", int64(r))
			ss := rs.ScopeSpans().AppendEmpty()
			for i := 0; i < 3-r; i++ {
				ss.Spans().AppendEmpty().SetName(fmt.Sprintf("span %d/%d with some text to give it a size", r, i))
			}
		}
		before, _ = (&ptrace.ProtoMarshaler{}).MarshalTraces(td)
		mutates = e.Capabilities().MutatesData
		cerr = e.ConsumeTraces(ctx, td)
		after, _ = (&ptrace.ProtoMarshaler{}).MarshalTraces(td)
		_ = e.Shutdown(ctx)
	default:
		e, err := NewMetrics(ctx, set, &struct{}{}, func(context.Context, pmetric.Metrics) error { return nil }, WithQueue(qc))
		if err != nil {
			return "construct", desc + ": " + err.Error()
		}
		if err := e.Start(ctx, componenttest.NewNopHost()); err != nil {
			return "start", desc + ": " + err.Error()
		}
		md := pmetric.NewMetrics()
		for r := 0; r < 2; r++ {
			rm := md.ResourceMetrics().AppendEmpty()
			rm.Resource().Attributes().PutInt("r", int64(r))
			m := rm.ScopeMetrics().AppendEmpty().Metrics().AppendEmpty()
			m.SetName(fmt.Sprintf("metric %d with some text to give it a size", r))
			g := m.SetEmptyGauge()
			for i := 0; i < 3-r; i++ {
				g.DataPoints().AppendEmpty().SetIntValue(int64(i))
			}
		}
		before, _ = (&pmetric.ProtoMarshaler{}).MarshalMetrics(md)
		mutates = e.Capabilities().MutatesData
		cerr = e.ConsumeMetrics(ctx, md)
		after, _ = (&pmetric.ProtoMarshaler{}).MarshalMetrics(md)
		_ = e.Shutdown(ctx)
	}
	if cerr != nil {
		return "consume-error", desc + ": " + cerr.Error()
	}
	if !mutates && string(before) != string(after) {
		return "exporter-mutates-without-declaring-it:" + c.Signal, fmt.Sprintf("%s: the exporter advertises MutatesData=false, but the payload it was given changed (%d bytes before the call, %d after)", desc, len(before), len(after))
	}
	return "", ""
}

func TestVerifExporterCapabilities(t *testing.T) {
	ctx := vr.Start("C06", "exporter-capabilities")
	if ctx == nil {
		t.Skip("not driven")
	}
	defer ctx.Finish()
	if ctx.ReplayRaw != nil {
		var rf struct {
			Replay c06eCase `json:"replay"`
		}
		if err := json.Unmarshal(ctx.ReplayRaw, &rf); err != nil {
			t.Fatal(err)
		}
		sig, what := c06eRun(rf.Replay)
		t.Logf("%s %s", sig, what)
		if sig != "" {
			ctx.Violate(sig, what, rf.Replay)
		}
		return
	}
	var n int64
	for _, sig := range []string{"logs", "traces", "metrics"} {
		for _, queue := range []bool{false, true} {
			var cases []c06eCase
			cases = append(cases, c06eCase{Signal: sig, Queue: queue})
			for _, szr := range []string{"items", "bytes"} {
				unit := int64(1)
				if szr == "bytes" {
					unit = 60
				}
				for _, mm := range [][2]int64{{0, 0}, {0, 1}, {0, 2}, {0, 4}, {0, 100}, {1, 0}, {2, 0}, {1, 2}, {2, 2}, {2, 4}, {100, 0}} {
					cases = append(cases, c06eCase{Signal: sig, Queue: queue, Batch: true, Sizer: szr, MinSize: mm[0] * unit, MaxSize: mm[1] * unit})
				}
			}
			for _, c := range cases {
				n++
				if !ctx.Mine(n) {
					continue
				}
				ctx.R.Evals++
				ctx.R.Trans++
				ctx.Nontrivial(vr.Hash(fmt.Sprint(c)))
				s, what := c06eRun(c)
				if s != "" {
					ctx.Violate(s, what, c)
					ctx.Outcome(s)
				} else {
					ctx.R.Traces++
					ctx.Outcome("exporter:capabilities-consistent")
				}
			}
		}
	}
	ctx.R.States = ctx.R.Evals
}
