//go:build verif

package VERIFPKG

// unit "router": the consumer vector is the set of pipelines a connector selects through its router - every pipeline is
// registered with the real router (connector.New{Logs,Traces,Metrics}Router, xconnector.NewProfilesRouter) and the vector is
// obtained with Consumer(ids...) in the vector's order, the way a routing connector picks its destinations per payload.

import (
	"fmt"

	"go.opentelemetry.io/collector/connector"
	"go.opentelemetry.io/collector/consumer"
	"go.opentelemetry.io/collector/consumer/xconsumer"
	"go.opentelemetry.io/collector/pipeline"
	"go.opentelemetry.io/collector/pipeline/xpipeline"
)

const c06Unit = "router"

func c06IDs(sig pipeline.Signal, n int) []pipeline.ID {
	var ids []pipeline.ID
	for i := 0; i < n; i++ {
		ids = append(ids, pipeline.NewIDWithName(sig, fmt.Sprintf("p%d", i)))
	}
	return ids
}

func c06MkLogs(c []consumer.Logs) consumer.Logs {
	ids := c06IDs(pipeline.SignalLogs, len(c))
	m := map[pipeline.ID]consumer.Logs{pipeline.NewIDWithName(pipeline.SignalLogs, "unselected"): c[0]}
	for i, x := range c {
		m[ids[i]] = x
	}
	r, err := connector.NewLogsRouter(m).Consumer(ids...)
	if err != nil {
		panic(err)
	}
	return r
}

func c06MkTraces(c []consumer.Traces) consumer.Traces {
	ids := c06IDs(pipeline.SignalTraces, len(c))
	m := map[pipeline.ID]consumer.Traces{pipeline.NewIDWithName(pipeline.SignalTraces, "unselected"): c[0]}
	for i, x := range c {
		m[ids[i]] = x
	}
	r, err := connector.NewTracesRouter(m).Consumer(ids...)
	if err != nil {
		panic(err)
	}
	return r
}

func c06MkMetrics(c []consumer.Metrics) consumer.Metrics {
	ids := c06IDs(pipeline.SignalMetrics, len(c))
	m := map[pipeline.ID]consumer.Metrics{pipeline.NewIDWithName(pipeline.SignalMetrics, "unselected"): c[0]}
	for i, x := range c {
		m[ids[i]] = x
	}
	r, err := connector.NewMetricsRouter(m).Consumer(ids...)
	if err != nil {
		panic(err)
	}
	return r
}

func c06MkProfiles(c []xconsumer.Profiles) xconsumer.Profiles {
	ids := c06IDs(xpipeline.SignalProfiles, len(c))
	m := map[pipeline.ID]xconsumer.Profiles{pipeline.NewIDWithName(xpipeline.SignalProfiles, "unselected"): c[0]}
	for i, x := range c {
		m[ids[i]] = x
	}
	r, err := NewProfilesRouter(m).Consumer(ids...)
	if err != nil {
		panic(err)
	}
	return r
}
