//go:build verif

package internal

// C03 — graceful exporter shutdown drains accepted data and stops all work.
// Engine E1: all interleavings (deviation-bounded) of producers / shutdown / clock with backend outcome choices through the
// real NewBaseExporter chain (queue, batcher, obsreport, retry) built from instrumented copies.

import (
	"os"
	"context"
	"encoding/binary"
	"encoding/json"
	"errors"
	"fmt"
	"sort"
	"strings"
	"testing"
	"time"

	"go.opentelemetry.io/collector/component"
	"go.opentelemetry.io/collector/config/configretry"
	"go.opentelemetry.io/collector/consumer/consumererror"
	"go.opentelemetry.io/collector/exporter/exporterhelper/internal/queuebatch"
	"go.opentelemetry.io/collector/exporter/exporterhelper/internal/request"
	"go.opentelemetry.io/collector/exporter/exportertest"
	"go.opentelemetry.io/collector/extension/xextension/storage"
	"go.opentelemetry.io/collector/pipeline"

	"VERIF/vr"
	"VERIF/vs"
)

type c03Req struct{ ids []int }

func (r *c03Req) ItemsCount() int { return len(r.ids) }
func (r *c03Req) MergeSplit(_ context.Context, max int, _ request.SizerType, r2 request.Request) ([]request.Request, error) {
	if r2 != nil {
		o := r2.(*c03Req)
		r.ids = append(r.ids, o.ids...)
		o.ids = nil
	}
	if max == 0 {
		return []request.Request{r}, nil
	}
	var out []request.Request
	for len(r.ids) > max {
		out = append(out, &c03Req{append([]int{}, r.ids[:max]...)})
		r.ids = r.ids[max:]
	}
	return append(out, r), nil
}

type c03Enc struct{}

func (c03Enc) Marshal(r request.Request) ([]byte, error) {
	b := []byte{0xC3}
	for _, id := range r.(*c03Req).ids {
		b = binary.LittleEndian.AppendUint32(b, uint32(id))
	}
	return b, nil
}
func (c03Enc) Unmarshal(b []byte) (request.Request, error) {
	if len(b) < 1 || b[0] != 0xC3 {
		return nil, errors.New("bad")
	}
	r := &c03Req{}
	for i := 1; i+4 <= len(b); i += 4 {
		r.ids = append(r.ids, int(binary.LittleEndian.Uint32(b[i:])))
	}
	return r, nil
}

type c03Store struct {
	m         map[string][]byte
	closeFail bool // the storage client reports an error when it is closed (an environment fault during shutdown)
	// beforeWrite is called before every mutating storage call (a storage-operation boundary: the place where the process
	// can die between two durable states)
	beforeWrite func()
	ioPoint     bool // every mutating storage call is a scheduling point
	log         func(string)
}

func (s *c03Store) note(f string, a ...any) {
	if s.log != nil {
		s.log(fmt.Sprintf(f, a...))
	}
}

func (s *c03Store) boundary() {
	if s.ioPoint {
		vs.Point() // a storage round trip takes time: other threads run meanwhile
	}
	if s.beforeWrite != nil {
		s.beforeWrite()
	}
}

func (s *c03Store) Get(_ context.Context, k string) ([]byte, error) { return s.m[k], nil }
func (s *c03Store) Set(_ context.Context, k string, v []byte) error {
	s.boundary()
	s.note("set %s=%x", k, v)
	s.m[k] = v
	return nil
}
func (s *c03Store) Delete(_ context.Context, k string) error {
	s.boundary()
	s.note("del %s", k)
	delete(s.m, k)
	return nil
}
func (s *c03Store) Batch(_ context.Context, ops ...*storage.Operation) error {
	for _, op := range ops {
		if op.Type != storage.Get {
			s.boundary()
			break
		}
	}
	for _, op := range ops {
		switch op.Type {
		case storage.Get:
			op.Value = s.m[op.Key]
		case storage.Set:
			s.note("batch-set %s=%x", op.Key, op.Value)
			s.m[op.Key] = op.Value
		case storage.Delete:
			s.note("batch-del %s", op.Key)
			delete(s.m, op.Key)
		}
	}
	return nil
}
func (s *c03Store) Close(context.Context) error {
	if s.closeFail {
		return errors.New("storage close failed")
	}
	return nil
}

type c03Ext struct {
	component.StartFunc
	component.ShutdownFunc
	cl storage.Client
}

func (e *c03Ext) GetClient(context.Context, component.Kind, component.ID, string) (storage.Client, error) {
	return e.cl, nil
}

type c03Host struct {
	ext map[component.ID]component.Component
}

func (h c03Host) GetExtensions() map[component.ID]component.Component { return h.ext }

type c03Cfg struct {
	Name        string  `json:"name"`
	Persistent  bool    `json:"persistent"`
	Batch       bool    `json:"batch"`
	Retry       bool    `json:"retry"`
	Consumers   int     `json:"consumers"`
	WFR         bool    `json:"wait_for_result"`
	Producers   [][]int `json:"producers"` // per producer: request sizes (ids are assigned consecutively)
	Concurrent  bool    `json:"shutdown_concurrent"`
	FreeBackend bool    `json:"free_backend"` // backend answers are enumerated exhaustively (not charged to the deviation budget)
	BatchMin    int     `json:"batch_min"`
	BatchMax    int     `json:"batch_max"`
	CloseFails  bool    `json:"storage_close_fails,omitempty"` // stopping the queue itself reports an error: everything else must still be stopped
	// ExpiredCtx: Shutdown is called with a context that is already done (the caller's shutdown deadline has passed): what
	// Shutdown guarantees when it returns does not depend on it
	ExpiredCtx bool `json:"shutdown_context_already_done,omitempty"`
	// Timeout: a per-attempt timeout of 2 s (virtual time, the deadline is a timer of the execution) and two more backend
	// answers: "slow" - the call takes 3 s and ignores its context; "slow-ctx" - the call takes 3 s unless its context
	// ends first, then it returns the context's error (a transient failure)
	Timeout bool `json:"attempt_timeout,omitempty"`
	// IdleMs: virtual time that passes between the last producer's return and the shutdown request (a flush timer that is
	// due fires in between; Shutdown's final flush then meets a timer goroutine that may still be at work)
	IdleMs int `json:"idle_before_shutdown_ms,omitempty"`
	// NoQueue: the sending queue is disabled - Send runs the whole chain (retries included) in the caller's goroutine
	NoQueue bool `json:"queue_disabled,omitempty"`
	// Crash (C01's chain unit): the process dies at one storage-operation boundary of the execution - every boundary in
	// turn (a free environment choice), in every schedule: the storage contents of that instant are set aside, and a next
	// incarnation started on them must hand over every request whose Send had returned and whose export had not finished
	Crash bool `json:"crash_at_a_storage_boundary,omitempty"` // (every boundary of every execution is judged)
	// Hold: the backend keeps every export call until the harness releases it. Item 1 is released as soon as it is being
	// exported; the producers after the first one start only then; everything else is released once nothing can run any
	// more. A completion (of item 1) thereby overlaps offers and dequeues of later items, which then stay in flight.
	Hold bool `json:"backend_holds_until_released,omitempty"`
}

type c03Obs struct {
	clk            int
	attempts       map[int]int  // id -> backend attempts begun
	failed         map[int]bool // id -> some attempt containing it failed
	transient      map[int]int  // id -> transient failures seen
	finalOK        map[int]bool // id -> an attempt containing it succeeded or failed permanently
	acceptedBefore map[int]bool // ids whose Send returned nil before shutdown was requested
	acceptedAll    map[int]bool
	sendErrs       int
	shutdownReq    int
	shutdownRet    int
	afterShutdown  int
	inFlightAtRet  int
	liveAtRet      []string
	storedAtRet    map[int]bool
	recovered      map[int]bool // persistent: items handed to the export function by the NEXT incarnation on the same storage
	epilogue       bool
	crashAt        int          // the storage-operation boundary at which the process died (0 = none)
	crashOwed      map[int]bool // accepted (Send returned) and not finished at that instant
	crashRecovered map[int]bool // handed over by an incarnation started on the storage contents of that instant
	crashDesc      string       // the storage contents of that instant and the calls so far (diagnosis)
	opLog          []string
	shutdownErr    string
	finished       bool
}

func c03Body(cf *c03Cfg, o *c03Obs) func() {
	return func() {
		*o = c03Obs{attempts: map[int]int{}, failed: map[int]bool{}, transient: map[int]int{}, finalOK: map[int]bool{}, acceptedBefore: map[int]bool{}, acceptedAll: map[int]bool{}}
		inFlight := 0
		holding, released := map[int]bool{}, map[int]bool{}
		enteredBefore := map[int]bool{} // ids whose Send was entered before shutdown was requested
		first := map[int]time.Time{}
		backend := func(bctx context.Context, r request.Request) error {
			if vs.Killed() {
				return nil
			}
			o.clk++
			ids := append([]int(nil), r.(*c03Req).ids...)
			if o.shutdownRet > 0 {
				// without a queue the export runs in the caller's own Send: a call that ENTERED Send after shutdown had been
				// requested is the harness's doing (receivers are stopped before exporters) and proves nothing; a request
				// that was inside Send before (e.g. waiting in a retry back-off) must not be exported any more
				late := cf.NoQueue
				for _, id := range ids {
					late = late && !enteredBefore[id]
				}
				if !late {
					o.afterShutdown++
				}
			}
			inFlight++
			for _, id := range ids {
				o.attempts[id]++
				if d, ok := bctx.Deadline(); ok && cf.Timeout {
					if _, seen := first[id]; !seen {
						// the attempt's deadline was set 2 s after the retry sender took the request (no scheduling point in between)
						first[id] = d.Add(-2 * time.Second)
					}
				}
			}
			var c int // ok, transient, permanent (+ slow, slow-ctx with an attempt timeout)
			answers := 3
			if cf.Timeout {
				answers = 5
			}
			if cf.FreeBackend {
				c = vs.ChooseFree(answers)
			} else {
				c = vs.Choose(answers)
			}
			vs.Point() // the call takes a while: others may run
			if cf.Hold {
				holding[ids[0]] = true
				vs.Block(func() bool { return released[ids[0]] || vs.Killed() })
				if vs.Killed() {
					return nil
				}
			}
			switch c {
			case 3:
				vs.Sleep(3 * time.Second)
				c = 0
			case 4:
				c = 0
				if vs.Select(false, vs.CaseRecv(bctx.Done()), vs.CaseRecv(vs.After(3*time.Second))) == 0 {
					if bctx.Err() == nil {
						panic("harness: Done() closed with nil Err()")
					}
					c = 1
				}
			}
			if vs.Killed() {
				return nil
			}
			inFlight--
			switch c {
			case 1:
				for _, id := range ids {
					o.failed[id] = true
					o.transient[id]++
					// without retry a failed export is final; with retry (1s, x1, max elapsed 3s) the third transient
					// failure may exhaust the budget, after which the outcome is final as well
					if !cf.Retry || o.transient[id] >= 3 {
						o.finalOK[id] = true
					}
					// with slow attempts the budget is a matter of (virtual) time: the next retry would begin 1 s from now
					if f, ok := first[id]; ok && f.Add(3*time.Second).Before(vs.Now().Add(time.Second)) {
						o.finalOK[id] = true
					}
				}
				return errors.New("transient")
			case 2:
				for _, id := range ids {
					o.failed[id] = true
					o.finalOK[id] = true
				}
				return consumererror.NewPermanent(errors.New("perm"))
			}
			for _, id := range ids {
				o.finalOK[id] = true
			}
			return nil
		}
		qc := queuebatch.Config{Enabled: !cf.NoQueue, NumConsumers: cf.Consumers, QueueSize: 100, Sizer: request.SizerTypeItems, WaitForResult: cf.WFR}
		store := &c03Store{m: map[string][]byte{}, closeFail: cf.CloseFails}
		// death at a storage-operation boundary: the storage contents of EVERY boundary of the execution are set aside
		// together with what was owed at that instant (accepted - its Send had returned - and not finished); in the epilogue
		// an incarnation is started on each distinct image (the outcome is a function of the image alone, so it is
		// computed once per distinct image of the whole run and remembered)
		type crashPoint struct {
			n     int
			key   string
			image map[string][]byte
			owed  map[int]bool
		}
		var crashPoints []crashPoint
		if cf.Crash {
			n := 0
			store.ioPoint = true
			store.beforeWrite = func() {
				n++
				var ks []string
				for k, v := range store.m {
					ks = append(ks, fmt.Sprintf("%s=%x", k, v))
				}
				sort.Strings(ks)
				cp := crashPoint{n: n, key: strings.Join(ks, " "), owed: map[int]bool{}}
				for id := range o.acceptedAll {
					if !o.finalOK[id] {
						cp.owed[id] = true
					}
				}
				if len(cp.owed) == 0 {
					return
				}
				if _, known := c03CrashCache[cp.key]; !known {
					cp.image = map[string][]byte{}
					for k, v := range store.m {
						cp.image[k] = append([]byte(nil), v...)
					}
				}
				crashPoints = append(crashPoints, cp)
			}
		}
		stID := component.MustNewID("st")
		if cf.Persistent {
			qc.Sizer = request.SizerTypeRequests
			qc.StorageID = &stID
		}
		if cf.Batch {
			qc.Batch = &queuebatch.BatchConfig{FlushTimeout: time.Second, MinSize: 2, MaxSize: 3}
			if cf.BatchMin > 0 {
				qc.Batch.MinSize, qc.Batch.MaxSize = int64(cf.BatchMin), int64(cf.BatchMax)
			}
		}
		tc := TimeoutConfig{}
		if cf.Timeout {
			tc.Timeout = 2 * time.Second
		}
		opts := []Option{WithTimeout(tc), WithQueueBatch(qc, QueueBatchSettings[request.Request]{Encoding: c03Enc{}, Sizers: map[request.SizerType]request.Sizer[request.Request]{
			request.SizerTypeRequests: request.RequestsSizer[request.Request]{}, request.SizerTypeItems: request.NewItemsSizer()}})}
		if cf.Retry {
			opts = append(opts, WithRetry(configretry.BackOffConfig{Enabled: true, InitialInterval: time.Second, Multiplier: 1, MaxInterval: time.Second, MaxElapsedTime: 3 * time.Second}))
		}
		be, err := NewBaseExporter(exportertest.NewNopSettings(component.MustNewType("x")), pipeline.SignalLogs, backend, opts...)
		if err != nil {
			panic(err)
		}
		host := c03Host{ext: map[component.ID]component.Component{stID: &c03Ext{cl: store}}}
		if err := be.Start(context.Background(), host); err != nil {
			panic(err)
		}
		finished := false
		vs.StartClock(func() bool { return finished })
		pctx, pcancel := context.WithCancel(context.Background())
		var wg vs.WaitGroup
		next := 1
		for pi, sizes := range cf.Producers {
			var reqs [][]int
			for _, n := range sizes {
				var ids []int
				for k := 0; k < n; k++ {
					ids = append(ids, next)
					next++
				}
				reqs = append(reqs, ids)
			}
			wg.Add(1)
			late := cf.Hold && pi > 0
			vs.GoNamed(fmt.Sprintf("producer%d", pi+1), func() {
				defer wg.Done()
				if late {
					vs.Block(func() bool { return released[1] })
				}
				for _, ids := range reqs {
					for _, id := range ids {
						enteredBefore[id] = o.shutdownReq == 0
					}
					err := be.Send(pctx, &c03Req{append([]int(nil), ids...)})
					o.clk++
					if err == nil || (cf.WFR && !errors.Is(err, context.Canceled) && !errors.Is(err, queuebatch.ErrQueueIsFull)) {
						// with wait_for_result the export outcome is returned; the enqueue itself completed
						for _, id := range ids {
							o.acceptedAll[id] = true
							if o.shutdownReq == 0 {
								o.acceptedBefore[id] = true
							}
						}
					} else {
						o.sendErrs++
					}
				}
			})
		}
		if cf.Hold {
			vs.GoNamed("releaser", func() {
				vs.Block(func() bool { return holding[1] })
				released[1] = true
				wg.Wait()
				vs.AwaitQuiescence(nil)
				for id := 2; id < next; id++ {
					released[id] = true
				}
			})
		}
		shutdown := func() {
			o.clk++
			o.shutdownReq = o.clk
			sctx := context.Background()
			if cf.ExpiredCtx {
				var cancel context.CancelFunc
				sctx, cancel = context.WithCancel(sctx)
				cancel()
			}
			if err := be.Shutdown(sctx); err != nil {
				o.shutdownErr = err.Error()
			}
			o.clk++
			o.shutdownRet = o.clk
			o.inFlightAtRet = inFlight
			if cf.NoQueue {
				o.inFlightAtRet = 0 // an export in flight belongs to a caller that is still inside its own Send
			}
			for _, n := range vs.LiveThreads() {
				if !strings.HasPrefix(n, "producer") && n != "main" && n != "shutdown" && n != "releaser" {
					o.liveAtRet = append(o.liveAtRet, n)
				}
			}
			o.storedAtRet = map[int]bool{}
			for k, v := range store.m {
				if k != "" && k[0] >= '0' && k[0] <= '9' {
					if r, err := (c03Enc{}).Unmarshal(v); err == nil {
						for _, id := range r.(*c03Req).ids {
							o.storedAtRet[id] = true
						}
					}
				}
			}
		}
		if cf.Concurrent {
			var swg vs.WaitGroup
			swg.Add(1)
			vs.GoNamed("shutdown", func() { defer swg.Done(); shutdown() })
			swg.Wait()
		} else {
			wg.Wait()
			if cf.IdleMs > 0 {
				vs.Sleep(time.Duration(cf.IdleMs) * time.Millisecond)
			}
			shutdown()
		}
		// grace horizon: nothing may start after Shutdown returned, whatever time passes
		vs.Point()
		vs.Sleep(5 * time.Second)
		pcancel()
		wg.Wait()
		if cf.Persistent && !cf.CloseFails {
			// epilogue, not explored (default schedule): "still durably stored for the next start" means the next incarnation
			// gets it - a payload that is still in the storage but that recovery no longer reaches is lost
			vs.Freeze()
			store.beforeWrite, store.ioPoint = nil, false // the point of death lies in the incarnation under test, not in the epilogue's
			o.epilogue = true
			o.recovered = map[int]bool{}
			backend2 := func(_ context.Context, r request.Request) error {
				if vs.Killed() {
					return nil
				}
				for _, id := range r.(*c03Req).ids {
					o.recovered[id] = true
				}
				return nil
			}
			be2, err := NewBaseExporter(exportertest.NewNopSettings(component.MustNewType("x")), pipeline.SignalLogs, backend2, opts...)
			if err != nil {
				panic(err)
			}
			host2 := c03Host{ext: map[component.ID]component.Component{stID: &c03Ext{cl: store}}}
			if err := be2.Start(context.Background(), host2); err != nil {
				panic(err)
			}
			vs.Sleep(3 * time.Second)
			_ = be2.Shutdown(context.Background())
		}
		if len(crashPoints) > 0 {
			vs.Freeze()
			for _, cp := range crashPoints {
				rec, known := c03CrashCache[cp.key]
				if !known {
					rec = map[int]bool{}
					backend3 := func(_ context.Context, r request.Request) error {
						if vs.Killed() {
							return nil
						}
						for _, id := range r.(*c03Req).ids {
							rec[id] = true
						}
						return nil
					}
					be3, err := NewBaseExporter(exportertest.NewNopSettings(component.MustNewType("x")), pipeline.SignalLogs, backend3, opts...)
					if err != nil {
						panic(err)
					}
					host3 := c03Host{ext: map[component.ID]component.Component{stID: &c03Ext{cl: &c03Store{m: cp.image}}}}
					if err := be3.Start(context.Background(), host3); err != nil {
						panic(err)
					}
					vs.Sleep(3 * time.Second)
					_ = be3.Shutdown(context.Background())
					if vs.Killed() {
						return
					}
					c03CrashCache[cp.key] = rec
				}
				for id := range cp.owed {
					if !rec[id] && o.crashAt == 0 {
						o.crashAt, o.crashOwed, o.crashRecovered, o.crashDesc = cp.n, cp.owed, rec, cp.key
					}
				}
			}
		}
		finished = true
		o.finished = true
	}
}

// c03CrashCache: storage image (canonical rendering) -> the items an incarnation started on it hands to the export function
var c03CrashCache = map[string]map[int]bool{}

func c03Check(cf *c03Cfg, o *c03Obs) (string, string) {
	fam := "mem"
	if cf.Persistent {
		fam = "persistent"
	}
	desc := func() string {
		return fmt.Sprintf("config=%s accepted-before-shutdown=%v attempts=%v failed=%v final=%v stored=%v", cf.Name, keys(o.acceptedBefore), o.attempts, keys(o.failed), keys(o.finalOK), keys(o.storedAtRet))
	}
	if !o.finished {
		return "unfinished:" + fam, "main thread did not finish; " + desc()
	}
	if o.afterShutdown > 0 {
		return "export-after-shutdown:" + fam, "an export call began after Shutdown had returned; " + desc()
	}
	if o.inFlightAtRet > 0 {
		return "export-in-flight-at-shutdown-return:" + fam, "an export call had not returned when Shutdown returned; " + desc()
	}
	if len(o.liveAtRet) > 0 {
		return "goroutine-left:" + fam, fmt.Sprintf("helper goroutines still alive when Shutdown returned: %v; %s", o.liveAtRet, desc())
	}
	if o.crashAt > 0 {
		for _, id := range keys(o.crashOwed) {
			if !o.crashRecovered[id] {
				return "lost:persistent:crash", fmt.Sprintf("the process died at storage-operation boundary %d; request item %d had been accepted (its Send had returned) and its export had not finished, but an incarnation started on the storage contents of that instant never handed it to the export function (owed: %v, recovered: %v); %s", o.crashAt, id, keys(o.crashOwed), keys(o.crashRecovered), desc())
			}
		}
	}
	for _, id := range keys(o.acceptedBefore) {
		if cf.Persistent {
			if !o.finalOK[id] && !o.storedAtRet[id] {
				return "lost:persistent", fmt.Sprintf("request item %d enqueued before shutdown neither finished export nor is stored; %s", id, desc())
			}
			if o.epilogue && !o.finalOK[id] && !o.recovered[id] {
				return "lost:persistent:stored-but-not-recovered", fmt.Sprintf("request item %d enqueued before shutdown did not finish export; its payload is still in the storage, but the next incarnation on the same storage never handed it to the export function (recovered: %v); %s", id, keys(o.recovered), desc())
			}
			continue
		}
		if o.attempts[id] == 0 {
			return "not-drained:mem", fmt.Sprintf("item %d enqueued before shutdown was requested was never attempted by the time Shutdown returned; %s", id, desc())
		}
		if !o.failed[id] && o.attempts[id] != 1 {
			return "duplicate-export:mem", fmt.Sprintf("item %d exported %d times although no attempt failed; %s", id, o.attempts[id], desc())
		}
	}
	return "", ""
}

func keys(m map[int]bool) []int {
	var l []int
	for k, v := range m {
		if v {
			l = append(l, k)
		}
	}
	sort.Ints(l)
	return l
}

type c03Replay struct {
	Cfg     *c03Cfg `json:"config"`
	Choices []int   `json:"choices"`
}

func c03Verdict(cf *c03Cfg, o *c03Obs, s *vs.Sched) (string, string) {
	if v := s.Verdict(); v != "" {
		fam := "mem"
		if cf.Persistent {
			fam = "persistent"
		}
		if s.Deadlock {
			return "deadlock:" + fam + ":" + s.DeadlockSig(), fmt.Sprintf("config %s: threads blocked forever (%v at %v), shutdown requested=%v returned=%v", cf.Name, s.Blocked, s.BlockedAt, o.shutdownReq > 0, o.shutdownRet > 0)
		}
		return "panic:" + fam + ":" + firstLine(fmt.Sprint(s.Panic)), fmt.Sprintf("config %s: %s\n%s", cf.Name, v, s.PanicStack)
	}
	return c03Check(cf, o)
}

func firstLine(s string) string {
	if i := strings.IndexByte(s, '\n'); i >= 0 {
		s = s[:i]
	}
	if len(s) > 120 {
		s = s[:120]
	}
	return s
}

func c03Configs(quick bool) []*c03Cfg {
	var l []*c03Cfg
	add := func(c c03Cfg) {
		c.Name = fmt.Sprintf("persistent=%v,batch=%v,retry=%v,consumers=%d,wfr=%v,producers=%v,concurrent=%v", c.Persistent, c.Batch, c.Retry, c.Consumers, c.WFR, c.Producers, c.Concurrent)
		if c.CloseFails {
			c.Name += ",storage-close-fails"
		}
		if c.ExpiredCtx {
			c.Name += ",shutdown-context-done"
		}
		if c.Timeout {
			c.Name += ",attempt-timeout"
		}
		if c.IdleMs > 0 {
			c.Name += fmt.Sprintf(",idle=%dms", c.IdleMs)
		}
		if c.NoQueue {
			c.Name += ",queue-disabled"
		}
		if c.Crash {
			c.Name += ",crash-at-a-storage-boundary"
		}
		if c.Hold {
			c.Name += ",backend-holds"
		}
		if c.FreeBackend {
			c.Name += fmt.Sprintf(",free-backend,batch=%d..%d", c.BatchMin, c.BatchMax)
		}
		l = append(l, &c)
	}
	for _, retry := range []bool{false, true} {
		add(c03Cfg{Retry: retry, Consumers: 1, Producers: [][]int{{1, 2}, {4}}, Concurrent: false})
		add(c03Cfg{Retry: retry, Consumers: 1, Producers: [][]int{{1}, {2}}, Concurrent: true})
		// batching: a partial batch parked in the batcher must be flushed by Shutdown; a full one goes out at once
		add(c03Cfg{Batch: true, Retry: retry, Consumers: 1, Producers: [][]int{{1}}, Concurrent: false})
		add(c03Cfg{Batch: true, Retry: retry, Consumers: 1, Producers: [][]int{{1, 2}}, Concurrent: true})
		if !quick {
			add(c03Cfg{Batch: true, Retry: retry, Consumers: 1, Producers: [][]int{{1, 2}, {4}}, Concurrent: false})
			add(c03Cfg{Batch: true, Retry: retry, Consumers: 1, Producers: [][]int{{1}, {2}}, Concurrent: true})
		}
	}
	add(c03Cfg{Batch: true, Retry: true, Consumers: 1, Producers: [][]int{{1}}, Concurrent: false, ExpiredCtx: true})
	add(c03Cfg{Batch: true, Consumers: 1, Producers: [][]int{{1, 2}}, Concurrent: true, ExpiredCtx: true})
	add(c03Cfg{Consumers: 1, Producers: [][]int{{1}, {2}}, Concurrent: true, ExpiredCtx: true})
	add(c03Cfg{Consumers: 2, Producers: [][]int{{1, 1}, {1}}, Concurrent: true})
	add(c03Cfg{Consumers: 1, WFR: true, Producers: [][]int{{1}, {2}}, Concurrent: true})
	add(c03Cfg{Batch: true, Consumers: 1, WFR: true, Producers: [][]int{{1}}, Concurrent: true})
	add(c03Cfg{Persistent: true, Retry: true, Consumers: 1, Producers: [][]int{{1, 2}}, Concurrent: true})
	add(c03Cfg{Persistent: true, Retry: true, Consumers: 2, Producers: [][]int{{1}, {2}}, Concurrent: false})
	add(c03Cfg{Persistent: true, Retry: false, Consumers: 1, Producers: [][]int{{1}, {1}}, Concurrent: true})
	add(c03Cfg{Persistent: true, Retry: true, Consumers: 2, Producers: [][]int{{1}}, Concurrent: true, CloseFails: true})
	// two requests in flight at shutdown, every backend answer pattern: one may be interrupted in its retry wait while the
	// other one is still being exported and finishes during the drain
	add(c03Cfg{Persistent: true, Retry: true, Consumers: 2, Producers: [][]int{{1}, {1}}, Concurrent: false, FreeBackend: true})
	// a request split by the batcher (3 items, min=max=2): its parts finish separately, one of them possibly interrupted by
	// shutdown; every backend answer pattern is enumerated
	add(c03Cfg{Persistent: true, Batch: true, Retry: true, Consumers: 1, Producers: [][]int{{3}}, Concurrent: false, FreeBackend: true, BatchMin: 2, BatchMax: 2})
	add(c03Cfg{Batch: true, Retry: true, Consumers: 1, Producers: [][]int{{3}}, Concurrent: false, FreeBackend: true, BatchMin: 2, BatchMax: 2})
	// C01 (chain unit): death at every storage-operation boundary while several consumers and producers are at work
	add(c03Cfg{Persistent: true, Retry: true, Consumers: 2, Producers: [][]int{{1}, {1}}, Concurrent: false, Crash: true})
	add(c03Cfg{Persistent: true, Retry: false, Consumers: 2, Producers: [][]int{{1, 1}}, Concurrent: false, Crash: true})
	add(c03Cfg{Persistent: true, Retry: true, Consumers: 1, Producers: [][]int{{1}, {1}}, Concurrent: true, Crash: true})
	// a completion overlapping the offers and dequeues of later requests, which then stay in flight while the process dies
	add(c03Cfg{Persistent: true, Retry: false, Consumers: 2, Producers: [][]int{{1}, {1, 1}}, Concurrent: false, Crash: true, Hold: true})
	// no sending queue: a caller that is in a retry back-off when Shutdown is requested - no export may begin afterwards
	add(c03Cfg{NoQueue: true, Retry: true, Consumers: 1, Producers: [][]int{{1}}, Concurrent: true})
	add(c03Cfg{NoQueue: true, Retry: true, Consumers: 1, Producers: [][]int{{1}, {1}}, Concurrent: true, FreeBackend: true})
	add(c03Cfg{NoQueue: true, Retry: false, Consumers: 1, Producers: [][]int{{1}, {2}}, Concurrent: true})
	// the flush timer fires (or is about to) when Shutdown is requested: exactly at its deadline, and shortly after it
	add(c03Cfg{Batch: true, Consumers: 1, Producers: [][]int{{1}}, Concurrent: false, IdleMs: 1000})
	add(c03Cfg{Batch: true, Retry: true, Consumers: 1, Producers: [][]int{{1}, {1}}, Concurrent: false, IdleMs: 1500, BatchMin: 3, BatchMax: 3})
	add(c03Cfg{Persistent: true, Batch: true, Consumers: 1, Producers: [][]int{{1}}, Concurrent: false, IdleMs: 1500})
	// per-attempt timeout with a backend that is slow (the statement's third backend behaviour): Shutdown may only return
	// when the slow call has returned too, whether or not it honours its deadline
	add(c03Cfg{Timeout: true, Retry: true, Consumers: 1, Producers: [][]int{{1}, {2}}, Concurrent: true})
	add(c03Cfg{Timeout: true, Batch: true, Consumers: 1, Producers: [][]int{{1, 2}}, Concurrent: false})
	add(c03Cfg{Timeout: true, Consumers: 1, Producers: [][]int{{1}}, Concurrent: false, FreeBackend: true})
	add(c03Cfg{Timeout: true, Persistent: true, Retry: true, Consumers: 1, Producers: [][]int{{1}}, Concurrent: true, FreeBackend: true})
	if !quick {
		// thorough tier: the generated grid instead of more hand-picked configurations - every combination of queue kind,
		// batching, retry, 1/2 consumers, four producer patterns and sequential/concurrent shutdown
		seen := map[string]bool{}
		for _, c := range l {
			seen[c.Name] = true
		}
		for _, pers := range []bool{false, true} {
			for _, batch := range []bool{false, true} {
				for _, retry := range []bool{false, true} {
					for _, cons := range []int{1, 2} {
						for _, prods := range [][][]int{{{1}}, {{1}, {1}}, {{1, 2}}, {{2}, {1}}} {
							for _, conc := range []bool{false, true} {
								c := c03Cfg{Persistent: pers, Batch: batch, Retry: retry, Consumers: cons, Producers: prods, Concurrent: conc}
								n := len(l)
								add(c)
								if seen[l[n].Name] {
									l = l[:n]
								}
							}
						}
					}
				}
			}
		}
	}
	return l
}

func TestVerif(t *testing.T) {
	// the same harness serves C01 as its integration-level unit ("chain"): only the persistent-queue configurations, where
	// the shutdown-classified error that makes the queue keep a request comes from the REAL retry sender
	prop, unit := "C03", "shutdown"
	if strings.Contains(os.Getenv("VERIF_PARAMS"), "prop=C01") {
		prop, unit = "C01", "chain"
	}
	ctx := vr.Start(prop, unit)
	if ctx == nil {
		t.Skip("not driven")
	}
	defer ctx.Finish()
	if ctx.ReplayRaw != nil {
		var rf struct {
			Replay c03Replay `json:"replay"`
		}
		if err := json.Unmarshal(ctx.ReplayRaw, &rf); err != nil {
			t.Fatal(err)
		}
		var o c03Obs
		s := vs.Run(rf.Replay.Choices, c03Body(rf.Replay.Cfg, &o))
		sig, what := c03Verdict(rf.Replay.Cfg, &o, s)
		t.Logf("obs=%+v", o)
		if sig != "" {
			ctx.Violate(sig, what, rf.Replay)
		}
		return
	}
	maxBound := ctx.Param("bound", 1)
	startBound := ctx.Param("start_bound", maxBound) // thorough: iterative deepening from the quick tier's bound
	var nodes int64
	completed := startBound - 1
	for bound := startBound; bound <= maxBound; bound++ {
	all := true
	for ci, cf := range c03Configs(ctx.Quick()) {
		if prop == "C01" && (!cf.Persistent || cf.CloseFails) {
			continue
		}
		if cf.Crash && prop != "C01" {
			continue // death at a storage boundary is C01's clause
		}
		if only := os.Getenv("VERIF_C03_ONLY"); only != "" && !strings.Contains(cf.Name, only) { // debugging aid
			continue
		}
		if ctx.Expired() {
			all = false
			break
		}
		cf := cf
		var o c03Obs
		body := c03Body(cf, &o)
		// (with Crash the epilogue's length depends on which storage images were seen before: its steps are not compared)
		steps := func(s *vs.Sched) int {
			if cf.Crash {
				return 0
			}
			return s.Steps
		}
		s1 := vs.Run(nil, body)
		k1 := fmt.Sprint(s1.Choices(), steps(s1), o.attempts)
		s2 := vs.Run(nil, body)
		if k1 != fmt.Sprint(s2.Choices(), steps(s2), o.attempts) {
			ctx.Infra("determinism self-test failed for %s", cf.Name)
			continue
		}
		st := vs.Explore(vs.Opts{Bound: bound, Shard: ctx.Shard, Shards: ctx.Shards, Expired: ctx.Expired}, body, func(s *vs.Sched, owned bool) bool {
			sig, what := c03Verdict(cf, &o, s)
			if owned {
				ctx.R.Evals++
				ctx.R.Traces++
				var at []int
				for _, a := range o.attempts {
					at = append(at, a)
				}
				sort.Ints(at)
				ctx.Outcome(fmt.Sprintf("cfg%d:attempts=%v,stored=%d", ci, at, len(o.storedAtRet)))
				if sig != "" {
					ctx.Violate(sig, what, c03Replay{cf, s.Choices()})
				}
				if ctx.R.Evals%3001 == 5 {
					ctx.Sample(map[string]any{"config": cf.Name, "choices": fmt.Sprint(s.Choices()), "attempts": fmt.Sprint(o.attempts), "accepted_before_shutdown": keys(o.acceptedBefore)})
				}
			}
			return sig == ""
		})
		for _, x := range st.Infra {
			ctx.Infra("%s: %s", cf.Name, x)
		}
		if st.Capped {
			all = false
			ctx.Cap(fmt.Sprintf("%s: bound %d not completed", cf.Name, bound))
		}
		ctx.R.Trans += st.Steps
		nodes += st.Nodes
		ctx.R.Extra[fmt.Sprintf("execs_cfg%d_bound%d", ci, bound)] = st.Counted
		ctx.Nontrivial(vr.HashS(cf.Name))
		if st.MaxThreads > 0 {
			if v, _ := ctx.R.Extra["max_threads"].(int); st.MaxThreads > v {
				ctx.R.Extra["max_threads"] = st.MaxThreads
			}
		}
	}
	if !all {
		if bound > startBound {
			ctx.Cap(fmt.Sprintf("time budget reached while deepening to bound %d; every configuration is complete up to bound %d", bound, completed))
		}
		break
	}
	completed = bound
	}
	ctx.R.States = nodes
	ctx.R.Extra["bound_completed"] = completed
}
