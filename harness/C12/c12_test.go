//go:build verif

package confmap

// C12 — config resolution: right-biased merge; exact, escapable, terminating expansion.
// Engine E2: all token strings up to a length bound over the expansion grammar x provider table x default scheme on/off
// against a reference interpreter written from docs/rfcs/env-vars.md and the property text; all source-map lists over a
// small map alphabet against a reference recursive right-biased merge; typed whole-value and string-target checks.

import (
	"runtime"
	"os"
	"context"
	"encoding/json"
	"fmt"
	"reflect"
	"sort"
	"strings"
	"testing"

	"VERIF/vr"
	"VERIF/vs"
)

type c12Prov struct {
	scheme string
	f      func(uri string) (*Retrieved, error)
}

func (p c12Prov) Retrieve(_ context.Context, uri string, _ WatcherFunc) (*Retrieved, error) {
	return p.f(uri)
}
func (p c12Prov) Scheme() string                { return p.scheme }
func (p c12Prov) Shutdown(context.Context) error { return nil }

// provider table: key -> YAML text returned by provider "aa"
var c12Table = map[string]string{
	"K": "v", "N": "42", "B": "true", "F": "1.5", "R": "${aa:K}", "E": "a$$b", "C": "${aa:C}", "C2": "x${aa:C3}", "C3": "${aa:C2}y", "P": "K", "D": "$",
	"M": "{m: 1, n: [1, two]}", "L": "[1, two]", "Z": "null", "Z2": "~", "RN": "${aa:N}", "NW": " 42\n", "MR": "{m: \"${aa:N}\", l: [\"${aa:K}\"]}",
	// structured values with three and four references in separate leaves (the original text is one string holding them all)
	// reference cycles beyond the plain self-reference: one that mentions itself twice, and one of two keys that do
	"CD": "${aa:CD}${aa:CD}", "CE": "${aa:CF}-${aa:CF}", "CF": "${aa:CE}",
	"MR3": "{a: \"${aa:K}\", b: \"${aa:N}\", c: \"${aa:B}\"}", "LR4": "[\"${aa:K}\", \"${aa:N}\", \"${aa:K}\", \"${aa:B}\"]",
}

// long reference chains: H0 -> H1 -> ... -> H<c12ChainLen> = "end" (whole-value references), G<i> = "<${aa:G<i+1>}>" (embedded)
const c12ChainLen = 520

func init() {
	for i := 0; i < c12ChainLen; i++ {
		c12Table[fmt.Sprintf("H%d", i)] = fmt.Sprintf("${aa:H%d}", i+1)
		c12Table[fmt.Sprintf("G%d", i)] = fmt.Sprintf("<${aa:G%d}>", i+1)
	}
	c12Table[fmt.Sprintf("H%d", c12ChainLen)] = "end"
	c12Table[fmt.Sprintf("G%d", c12ChainLen)] = "end"
}

// what the typed value of each key must be when the reference is the whole value
var c12Typed = map[string]any{
	"K": "v", "N": 42, "B": true, "F": 1.5, "R": "v", "E": "a$b", "P": "K", "D": "$",
	"M": map[string]any{"m": 1, "n": []any{1, "two"}}, "L": []any{1, "two"}, "Z": nil, "Z2": nil, "RN": 42, "NW": 42, "MR": map[string]any{"m": 42, "l": []any{"v"}},
	"MR3": map[string]any{"a": "v", "b": 42, "c": true}, "LR4": []any{"v", 42, "v", true},
}

// c12Shared: values a provider holds as Go objects (rebuilt before every case by c12SharedReset); c12SharedWant: what a
// reference to them resolves to ($$ is an escaped $, also inside provider values)
var c12Shared, c12SharedWant []any

func c12SharedReset() {
	c12Shared = []any{
		// (two escapes in a row and an escaped reference: un-escaping them a second time is visible)
		map[string]any{"e": "a$$$$b", "n": 1},
		map[string]any{"m": map[string]any{"e": "x$${aa:K}"}, "l": []any{"$$$$y", 2}},
		[]any{"$${aa:K}", map[string]any{"k": "b$$$$"}},
	}
	c12SharedWant = []any{
		map[string]any{"e": "a$$b", "n": 1},
		map[string]any{"m": map[string]any{"e": "x${aa:K}"}, "l": []any{"$$y", 2}},
		[]any{"${aa:K}", map[string]any{"k": "b$$"}},
	}
}

// c12SharedCheck: a provider-held instance referenced twice in one configuration and resolved twice by one resolver -
// every occurrence, in every resolution, is the same exact expansion of the provider's value
func c12SharedCheck(i int, def bool) (string, string) {
	c12SharedReset()
	ref := fmt.Sprintf("${aa:SI%d}", i)
	r, err := c12Resolver([]map[string]any{{"k1": ref, "sub": map[string]any{"k2": ref}}}, def)
	if err != nil {
		return "shared-instance-error", err.Error()
	}
	norm := func(v any) string { b, _ := json.Marshal(v); return string(b) }
	want := norm(c12SharedWant[i])
	for round := 1; round <= 2; round++ {
		var conf *Conf
		nonterm, pan := vs.Guard(func() { conf, err = r.Resolve(context.Background()) })
		if nonterm || pan != nil || err != nil {
			return "shared-instance-error", fmt.Sprintf("resolution %d of %s: nonterm=%v panic=%v err=%v", round, ref, nonterm, pan, err)
		}
		m := conf.ToStringMap()
		k1 := norm(m["k1"])
		k2 := "<missing>"
		if sub, ok := m["sub"].(map[string]any); ok {
			k2 = norm(sub["k2"])
		}
		if k1 != want || k2 != want {
			return "shared-provider-instance-expansion-differs", fmt.Sprintf("resolution %d: %s (a value the provider holds as one Go object) resolved to %s at k1 and %s at sub::k2, expected %s both times", round, ref, k1, k2, want)
		}
	}
	return "", ""
}

// c12Hist: the provider table can change between two resolutions of one long-lived resolver (the documented Resolve /
// watch / Resolve cycle). c12HistVersions are table overrides; a history is a sequence of versions. Oracle (differential, no
// hand-written expectation): the k-th Resolve of the long-lived resolver gives exactly what a FRESH resolver gives on the
// same table version - whatever the earlier resolutions did, also when they failed part-way.
var c12HistVersions = []map[string]string{
	{"HV": "1", "HF": "ok"},
	{"HV": "2", "HF": "ok"},
	{"HV": "1", "HF": "${aa:HF}"},    // the last reference fails (cycle) after the earlier ones were expanded
	{"HV": "2", "HF": "${aa:nosuch}"}, // ... fails with a provider error
}

func c12HistResolve(r *Resolver) string {
	var conf *Conf
	var err error
	nonterm, pan := vs.Guard(func() { conf, err = r.Resolve(context.Background()) })
	switch {
	case nonterm:
		return "NON-TERMINATION"
	case pan != nil:
		return fmt.Sprintf("PANIC: %v", pan)
	case err != nil:
		return "error"
	}
	b, _ := json.Marshal(conf.ToStringMap())
	return string(b)
}

func c12HistoryCheck(hist []int, def bool) (string, string) {
	saved := map[string]string{}
	for k := range c12HistVersions[0] {
		saved[k] = c12Table[k]
	}
	defer func() {
		for k, v := range saved {
			if v == "" {
				delete(c12Table, k)
			} else {
				c12Table[k] = v
			}
		}
	}()
	src := func() []map[string]any {
		return []map[string]any{{"a": "${aa:HV}", "c": "x-${aa:HV}-y", "m": map[string]any{"n": "${aa:HV}"}, "z": "${aa:HF}"}}
	}
	long, err := c12Resolver(src(), def)
	if err != nil {
		return "history-error", err.Error()
	}
	for i, v := range hist {
		for k, val := range c12HistVersions[v] {
			c12Table[k] = val
		}
		got := c12HistResolve(long)
		fresh, err := c12Resolver(src(), def)
		if err != nil {
			return "history-error", err.Error()
		}
		if want := c12HistResolve(fresh); got != want {
			return "resolution-depends-on-earlier-resolutions", fmt.Sprintf("table versions %v (default_scheme=%v): resolution %d of a long-lived resolver gives %s, a fresh resolver on the same provider values gives %s", hist, def, i+1, got, want)
		}
	}
	return "", ""
}

func c12Resolver(sources []map[string]any, defScheme bool) (*Resolver, error) {
	root := NewProviderFactory(func(ProviderSettings) Provider {
		return c12Prov{"root", func(uri string) (*Retrieved, error) {
			var i int
			fmt.Sscanf(strings.TrimPrefix(uri, "root:"), "%d", &i)
			return NewRetrieved(sources[i])
		}}
	})
	a := NewProviderFactory(func(ProviderSettings) Provider {
		return c12Prov{"aa", func(uri string) (*Retrieved, error) {
			key := strings.TrimPrefix(uri, "aa:")
			if strings.HasPrefix(key, "SI") {
				// a provider that keeps its value as a Go object and hands out THE SAME instance on every retrieval
				var i int
				fmt.Sscanf(key, "SI%d", &i)
				return NewRetrieved(c12Shared[i])
			}
			if key == "CD" || key == "CE" || key == "CF" {
				// a resolution that grows without bound is reported as non-termination before it takes the machine down: the
				// heap in use is looked at every time one of the growing cycles is retrieved again
				var ms runtime.MemStats
				runtime.ReadMemStats(&ms)
				if ms.HeapAlloc > 96<<20 {
					panic(vs.NonTermination{Ticks: int(ms.HeapAlloc >> 20)})
				}
			}
			v, ok := c12Table[key]
			if !ok && strings.Contains(key, "$") {
				// a lenient provider: it would serve a name that contains $ - it must never be asked (the resolver reports
				// "$ in a reference name" itself, with and without an explicit scheme); a provider that rejected such names
				// would hide a resolver that forgets to
				return NewRetrievedFromYAML([]byte("lenient"))
			}
			if !ok {
				return nil, fmt.Errorf("unknown key %q", uri)
			}
			return NewRetrievedFromYAML([]byte(v))
		}}
	})
	// a source that equals an earlier one is given the SAME location string (the same file listed twice): the list of
	// locations is merged position by position, whatever repeats in it
	var uris []string
	for i := range sources {
		at := i
		for j := 0; j < i; j++ {
			if reflect.DeepEqual(sources[j], sources[i]) {
				at = j
				break
			}
		}
		uris = append(uris, fmt.Sprintf("root:%d", at))
	}
	set := ResolverSettings{URIs: uris, ProviderFactories: []ProviderFactory{root, a}}
	if defScheme {
		set.DefaultScheme = "aa"
	}
	return NewResolver(set)
}

func c12Resolve(s string, defScheme bool) (val any, strField string, strErr error, err error) {
	var conf *Conf
	nonterm, pan := vs.Guard(func() {
		var r *Resolver
		r, err = c12Resolver([]map[string]any{{"k": s}}, defScheme)
		if err != nil {
			return
		}
		conf, err = r.Resolve(context.Background())
	})
	if nonterm {
		return nil, "", nil, fmt.Errorf("NON-TERMINATION")
	}
	if pan != nil {
		return nil, "", nil, fmt.Errorf("PANIC: %v", pan)
	}
	if err != nil {
		return nil, "", nil, err
	}
	val = conf.ToStringMap()["k"]
	var tgt struct {
		K string `mapstructure:"k"`
	}
	strErr = conf.Unmarshal(&tgt)
	return val, tgt.K, strErr, nil
}

// ---- reference interpreter for strings (left-to-right scan, $$ => literal $ protecting what follows, innermost
// reference first, provider text re-expanded with a visiting set, error for $ inside a name, cycles, unknown keys)
// reference texts expanded (at any nesting / recursion level) during the last c12Ref run; used by predicate B
var c12Expanded []string

type c12RefErr struct{ msg string }

func (e c12RefErr) Error() string { return e.msg }

// c12LitDollar counts the '$' characters the reference interpreter keeps literally because of an escape or because a
// "${...}" text is not a reference; see the "unspecified" case below (a bare '$' inside a name stays an error)
var c12LitDollar int

func c12Ref(s string, def bool, visiting map[string]bool, top bool) (string, error) {
	var out strings.Builder
	for i := 0; i < len(s); {
		switch {
		case strings.HasPrefix(s[i:], "$$"):
			out.WriteByte('$')
			c12LitDollar++
			i += 2
		case strings.HasPrefix(s[i:], "${"):
			depth, j := 0, i
			end := -1
			for j < len(s) {
				if strings.HasPrefix(s[j:], "${") {
					depth++
					j += 2
					continue
				}
				if s[j] == '}' {
					depth--
					if depth == 0 {
						end = j
						break
					}
				}
				j++
			}
			if end < 0 {
				out.WriteString("${")
				c12LitDollar++
				i += 2
				continue
			}
			litBefore := c12LitDollar
			inner, err := c12Ref(s[i+2:end], def, visiting, false)
			if err != nil {
				return "", err
			}
			c12Expanded = append(c12Expanded, "${"+inner+"}") // the reference text as it stands when it is expanded
			name := inner
			if !strings.Contains(name, ":") {
				if !def {
					out.WriteString("${" + inner + "}") // no scheme and no default scheme: not a reference
					c12LitDollar++
					i = end + 1
					continue
				}
				name = "aa:" + name
			}
			if strings.Contains(name, "$") {
				if c12LitDollar > litBefore {
					// the '$' in the name is LITERAL text written inside the braces - an escape (`${$${aa:B}}`) or a
					// "${...}" that is not a reference (`${:${K}}` without default scheme): the statement can be read both ways ("$$
					// protects the following text" / "not a complete reference" => literal, or "name contains $" => error) and
					// expand.go documents nested escaping as unsupported: not compared
					return "", c12RefErr{"unspecified: literal dollar inside a reference name"}
				}
				return "", c12RefErr{"dollar in name"}
			}
			if !strings.HasPrefix(name, "aa:") {
				return "", c12RefErr{"unknown scheme"}
			}
			key := name[3:]
			v, ok := c12Table[key]
			if !ok {
				return "", c12RefErr{"unknown key"}
			}
			if visiting[key] {
				return "", c12RefErr{"cycle"}
			}
			if _, scalar := c12Typed[key].(map[string]any); scalar {
				return "", c12RefErr{"non-scalar embedded"}
			}
			visiting[key] = true
			ev, err := c12Ref(v, def, visiting, false)
			delete(visiting, key)
			if err != nil {
				return "", err
			}
			out.WriteString(ev)
			i = end + 1
		default:
			out.WriteByte(s[i])
			i++
		}
	}
	return out.String(), nil
}

// statement grammar: braces balanced (every "}" closes an earlier "{", escaped or not)
func c12WellFormed(s string) bool {
	depth := 0
	for i := 0; i < len(s); i++ {
		switch s[i] {
		case '{':
			depth++
		case '}':
			if depth == 0 {
				return false
			}
			depth--
		}
	}
	return depth == 0
}

// structural predicates of the known root causes (the signature of a disagreement is the set of predicates its input satisfies).
// A: an escaped "$${" occurs before a later unescaped "${"; B: some reference text occurs both escaped and unescaped.
func c12Subclass(s string) string {
	type occ struct {
		pos     int
		escaped bool
	}
	var occs []occ
	for i := 0; i < len(s); {
		if strings.HasPrefix(s[i:], "$$") {
			if strings.HasPrefix(s[i+2:], "{") {
				occs = append(occs, occ{i + 1, true})
			}
			i += 2
			continue
		}
		if strings.HasPrefix(s[i:], "${") {
			occs = append(occs, occ{i, false})
			i += 2
			continue
		}
		i++
	}
	A, B := false, false
	for i, o := range occs {
		if o.escaped {
			for _, p := range occs[i+1:] {
				if !p.escaped {
					A = true
				}
			}
			end := strings.Index(s[o.pos:], "}")
			if end > 0 {
				txt := s[o.pos : o.pos+end+1]
				for _, p := range occs {
					if !p.escaped && strings.HasPrefix(s[p.pos:], txt) {
						B = true
					}
				}
				for _, e := range c12Expanded { // ... or arises as an intermediate reference text (nested / recursive expansion)
					if e == txt {
						B = true
					}
				}
			}
		}
	}
	// D: the string embeds a provider value that is a bare "$" (spliced textually, it pairs up with what follows)
	D := strings.Contains(s, "${aa:D}")
	var l []string
	if A {
		l = append(l, "A")
	}
	if B {
		l = append(l, "B")
	}
	if D {
		l = append(l, "D")
	}
	if len(l) == 0 {
		return "none"
	}
	return strings.Join(l, "+")
}

type c12Case struct {
	Kind    string           `json:"kind"` // expand | typed | merge
	S       string           `json:"string,omitempty"`
	Def     bool             `json:"default_scheme,omitempty"`
	Key     string           `json:"key,omitempty"`
	Sources []map[string]any `json:"sources,omitempty"`
}

// c12Tokens: minimal number of alphabet tokens that spell s (greedy longest match is enough for this alphabet filter)
func c12Tokens(s string, toks []string) []string {
	var out []string
	for len(s) > 0 {
		best := ""
		for _, t := range toks {
			if strings.HasPrefix(s, t) && len(t) > len(best) {
				best = t
			}
		}
		if best == "" {
			best = s[:1]
		}
		out = append(out, best)
		s = s[len(best):]
	}
	return out
}

func c12Trunc(s string) string {
	if len(s) > 70 {
		return s[:70]
	}
	return s
}

// c12Expand checks one string. Returns signature, explanation.
func c12Expand(s string, def bool) (string, string) {
	got, strField, strErr, gerr := c12Resolve(s, def)
	if gerr != nil && (strings.HasPrefix(gerr.Error(), "NON-TERMINATION") || strings.HasPrefix(gerr.Error(), "PANIC")) {
		return "expansion:" + strings.SplitN(gerr.Error(), ":", 2)[0], fmt.Sprintf("%q default_scheme=%v: %v", s, def, gerr)
	}
	if !c12WellFormed(s) {
		return "", "" // outside the statement's grammar: only termination / no panic are required
	}
	c12Expanded = nil
	want, werr := c12Ref(s, def, map[string]bool{}, true)
	desc := func() string {
		return fmt.Sprintf("%q default_scheme=%v: implementation=%#v (err=%v) string-field=%q reference=%q (err=%v)", s, def, got, gerr, strField, want, werr)
	}
	sub := func() string {
		c := c12Subclass(s)
		if c == "none" && os.Getenv("C12_DUMP_NONE") != "" {
			c += ":" + s
		}
		return c
	}
	switch {
	case werr != nil && strings.HasPrefix(werr.Error(), "unspecified"):
		return "", ""
	case gerr != nil && werr != nil:
		return "", ""
	case gerr != nil:
		return "expansion-disagreement:root=" + sub(), "implementation fails, reference does not: " + desc()
	case werr != nil:
		return "expansion-disagreement:root=" + sub(), "reference reports an error (" + werr.Error() + "), implementation does not: " + desc()
	}
	if gs := fmt.Sprint(got); gs != want {
		if _, isStr := got.(string); isStr || !strings.HasPrefix(s, "${") {
			return "expansion-disagreement:root=" + sub(), "values differ: " + desc()
		}
	}
	// "its original text when ... assigned to a string field"
	if strErr == nil && strField != want {
		return "expansion-disagreement:root=" + sub(), "string-field target differs: " + desc()
	}
	return "", ""
}

// c12ContainerCheck: a string expands to the same thing wherever it sits: as an element of a list (first, last, inside a
// map that is a list element) it must resolve exactly as it does as a plain value (differential oracle).
func c12ContainerCheck(sv string, def bool) (string, string) {
	alone, _, _, aerr := c12Resolve(sv, def)
	shapes := map[string]func(x any) any{
		"list-first":       func(x any) any { return []any{x, "static"} },
		"list-last":        func(x any) any { return []any{"static", x} },
		"map-in-list":      func(x any) any { return []any{map[string]any{"q": x}, 1} },
		"list-in-map":      func(x any) any { return map[string]any{"l": []any{x, "static", x}} },
		"list-middle-deep": func(x any) any { return []any{"a", []any{x, "b"}, "c"} },
	}
	pick := map[string]func(v any) any{
		"list-first":       func(v any) any { return v.([]any)[0] },
		"list-last":        func(v any) any { return v.([]any)[1] },
		"map-in-list":      func(v any) any { return v.([]any)[0].(map[string]any)["q"] },
		"list-in-map":      func(v any) any { return v.(map[string]any)["l"].([]any)[0] },
		"list-middle-deep": func(v any) any { return v.([]any)[1].([]any)[0] },
	}
	var names []string
	for n := range shapes {
		names = append(names, n)
	}
	sort.Strings(names)
	for _, n := range names {
		var got any
		var gerr error
		nonterm, pan := vs.Guard(func() {
			var r *Resolver
			r, gerr = c12Resolver([]map[string]any{{"k": shapes[n](sv)}}, def)
			if gerr != nil {
				return
			}
			var conf *Conf
			conf, gerr = r.Resolve(context.Background())
			if gerr == nil {
				got = conf.ToStringMap()["k"]
			}
		})
		if nonterm || pan != nil {
			return "container-hang-or-panic:" + n, fmt.Sprintf("%q in %s: nonterm=%v panic=%v", sv, n, nonterm, pan)
		}
		if (gerr != nil) != (aerr != nil) {
			return "container-error-differs:" + n, fmt.Sprintf("%q default_scheme=%v: as a plain value err=%v, in %s err=%v (value %v)", sv, def, aerr, n, gerr, got)
		}
		if gerr != nil {
			continue
		}
		var elem any
		func() {
			defer func() {
				if r := recover(); r != nil {
					elem = fmt.Sprintf("<shape changed: %v>", got)
				}
			}()
			elem = pick[n](got)
		}()
		if c12J(elem) != c12J(alone) {
			return "container-value-differs:" + n, fmt.Sprintf("%q default_scheme=%v: as a plain value it resolves to %s, in %s to %s", sv, def, c12J(alone), n, c12J(elem))
		}
	}
	return "", ""
}

func c12TypedCheck(key string, def bool) (string, string) {
	s := "${aa:" + key + "}"
	got, strField, strErr, gerr := c12Resolve(s, def)
	want, ok := c12Typed[key]
	if !ok {
		return "", ""
	}
	if gerr != nil {
		return "typed-error", fmt.Sprintf("%s: %v", s, gerr)
	}
	norm := func(v any) string { b, _ := json.Marshal(v); return fmt.Sprintf("%T:%s", v, b) }
	if norm(got) != norm(want) {
		return "typed-value-mismatch", fmt.Sprintf("%s as a whole value: got %s want %s", s, norm(got), norm(want))
	}
	{
		// (null is a YAML scalar type too: "null" / "~" into a string field stay that text)
		// a value assigned to a string field keeps its original text, "itself subject to the same expansion" - structured
		// values (maps, lists) included: every reference inside the text is expanded, however many there are
		orig, _ := c12Ref(c12Table[key], def, map[string]bool{}, true)
		if strErr != nil || strField != orig {
			return "typed-string-target-mismatch", fmt.Sprintf("%s into a string field: got %q (err=%v) want original text %q", s, strField, strErr, orig)
		}
	}
	return "", ""
}

// c12NestedStringTargets: string-kind targets BELOW a structured provider value - every leaf that is itself a whole-value
// reference keeps its original text when the field it lands in is a string
func c12NestedStringTargets(def bool) (string, string) {
	resolve := func(key string, out any) error {
		r, err := c12Resolver([]map[string]any{{"k": "${aa:" + key + "}"}}, def)
		if err != nil {
			return err
		}
		conf, err := r.Resolve(context.Background())
		if err != nil {
			return err
		}
		return conf.Unmarshal(out)
	}
	var t1 struct {
		K map[string]string `mapstructure:"k"`
	}
	if err := resolve("MR3", &t1); err != nil || fmt.Sprint(t1.K) != fmt.Sprint(map[string]string{"a": "v", "b": "42", "c": "true"}) {
		return "nested-string-target-mismatch:map", fmt.Sprintf("${aa:MR3} (a map whose leaves are references to a string, a number and a boolean) into map[string]string: got %v err=%v, want the original texts v / 42 / true", t1.K, err)
	}
	var t2 struct {
		K []string `mapstructure:"k"`
	}
	if err := resolve("LR4", &t2); err != nil || fmt.Sprint(t2.K) != fmt.Sprint([]string{"v", "42", "v", "true"}) {
		return "nested-string-target-mismatch:list", fmt.Sprintf("${aa:LR4} into []string: got %v err=%v, want [v 42 v true]", t2.K, err)
	}
	var t3 struct {
		K struct {
			M string   `mapstructure:"m"`
			L []string `mapstructure:"l"`
		} `mapstructure:"k"`
	}
	if err := resolve("MR", &t3); err != nil || t3.K.M != "42" || fmt.Sprint(t3.K.L) != "[v]" {
		return "nested-string-target-mismatch:struct", fmt.Sprintf("${aa:MR} into a struct with a string and a []string field: got %+v err=%v, want m=42 l=[v]", t3.K, err)
	}
	var t4 struct {
		K struct {
			M int   `mapstructure:"m"`
			L []any `mapstructure:"l"`
		} `mapstructure:"k"`
	}
	if err := resolve("MR", &t4); err != nil || t4.K.M != 42 {
		return "nested-typed-target-mismatch", fmt.Sprintf("${aa:MR} into a struct with an int field: got %+v err=%v, want m=42", t4.K, err)
	}
	return "", ""
}

// ---- merge
func c12RefMerge(dst, src map[string]any) {
	for k, v := range src {
		if sm, ok := v.(map[string]any); ok {
			if dm, ok := dst[k].(map[string]any); ok {
				c12RefMerge(dm, sm)
				continue
			}
			n := map[string]any{}
			c12RefMerge(n, sm)
			dst[k] = n
			continue
		}
		dst[k] = v
	}
}

func c12Clone(v any) any {
	switch x := v.(type) {
	case map[string]any:
		n := map[string]any{}
		for k, e := range x {
			n[k] = c12Clone(e)
		}
		return n
	case []any:
		n := make([]any, len(x))
		for i, e := range x {
			n[i] = c12Clone(e)
		}
		return n
	}
	return v
}

func c12MergeCheck(sources []map[string]any) (string, string) {
	var srcs []map[string]any
	for _, s := range sources {
		srcs = append(srcs, c12Clone(s).(map[string]any))
	}
	var got map[string]any
	var err error
	nonterm, pan := vs.Guard(func() {
		var r *Resolver
		r, err = c12Resolver(srcs, false)
		if err != nil {
			return
		}
		var conf *Conf
		conf, err = r.Resolve(context.Background())
		if err == nil {
			got = conf.ToStringMap()
		}
	})
	if nonterm || pan != nil {
		return "merge-panic-or-hang", fmt.Sprintf("sources %v: nonterm=%v panic=%v", sources, nonterm, pan)
	}
	if err != nil {
		return "merge-error", fmt.Sprintf("sources %v: %v", sources, err)
	}
	want := map[string]any{}
	for _, s := range sources {
		c12RefMerge(want, c12Clone(s).(map[string]any))
	}
	if !reflect.DeepEqual(c12Norm(got), c12Norm(want)) {
		return "merge-mismatch", fmt.Sprintf("sources %v: got %v want %v", c12J(sources), c12J(got), c12J(want))
	}
	return "", ""
}

func c12J(v any) string { b, _ := json.Marshal(v); return string(b) }

// c12Norm: nil and empty maps are kept distinct; numbers normalised through JSON
func c12Norm(v any) any {
	var x any
	_ = json.Unmarshal([]byte(c12J(v)), &x)
	return x
}

func c12MapAlphabet(full bool) []map[string]any {
	vals := []any{1, "s", nil, []any{1}, []any{2, 3}, map[string]any{}, map[string]any{"c": 1}, map[string]any{"c": 2, "d": map[string]any{"e": 1}}, map[string]any{"d": map[string]any{"e": 2, "f": nil}}}
	if !full {
		vals = []any{1, nil, []any{2, 3}, map[string]any{}, map[string]any{"c": 1}, map[string]any{"c": 2, "d": map[string]any{"e": 1}}}
	}
	var out []map[string]any
	for ai := -1; ai < len(vals); ai++ {
		for bi := -1; bi < len(vals); bi++ {
			m := map[string]any{}
			if ai >= 0 {
				m["a"] = vals[ai]
			}
			if bi >= 0 {
				m["b"] = vals[bi]
			}
			out = append(out, m)
		}
	}
	return out
}

func TestVerif(t *testing.T) {
	ctx := vr.Start("C12", "confmap")
	if ctx == nil {
		t.Skip("not driven")
	}
	defer ctx.Finish()
	run := func(c c12Case) (string, string) {
		switch c.Kind {
		case "expand":
			return c12Expand(c.S, c.Def)
		case "nested-targets":
			return c12NestedStringTargets(c.Def)
		case "cycle":
			// "Resolution always terminates, reporting an error for reference cycles"
			for _, str := range []string{"${aa:" + c.Key + "}", "x${aa:" + c.Key + "}"} {
				_, _, _, gerr := c12Resolve(str, c.Def)
				runtime.GC()
				switch {
				case gerr == nil:
					return "cycle-not-reported", fmt.Sprintf("%q (default_scheme=%v): the reference is part of a cycle, resolution reported no error", str, c.Def)
				case strings.HasPrefix(gerr.Error(), "NON-TERMINATION"):
					return "cycle-resolution-grows-without-bound", fmt.Sprintf("%q (default_scheme=%v, provider value %q): resolution did not end - the text grows with every pass until memory runs out (stopped by the harness when the heap in use passed 96 MiB): %v", str, c.Def, c12Table[c.Key], gerr)
				case strings.HasPrefix(gerr.Error(), "PANIC"):
					return "cycle-panic", fmt.Sprintf("%q: %v", str, gerr)
				}
			}
			return "", ""
		case "history":
			var h []int
			for _, ch := range c.Key {
				h = append(h, int(ch-'0'))
			}
			return c12HistoryCheck(h, c.Def)
		case "shared":
			var i int
			fmt.Sscanf(c.Key, "%d", &i)
			return c12SharedCheck(i, c.Def)
		case "typed":
			return c12TypedCheck(c.Key, c.Def)
		case "container":
			return c12ContainerCheck(c.S, c.Def)
		default:
			return c12MergeCheck(c.Sources)
		}
	}
	if ctx.ReplayRaw != nil {
		var rf struct {
			Replay c12Case `json:"replay"`
		}
		if err := json.Unmarshal(ctx.ReplayRaw, &rf); err != nil {
			t.Fatal(err)
		}
		sig, what := run(rf.Replay)
		t.Logf("%s %s", sig, what)
		if sig != "" {
			ctx.Violate(sig, what, rf.Replay)
		}
		return
	}
	vs.TickLimit = 100000
	var n int64
	do := func(c c12Case, nontrivial bool) {
		if only := os.Getenv("VERIF_C12_ONLY"); only != "" && only != c.Kind { // debugging aid
			return
		}
		n++
		if !ctx.Mine(n) {
			return
		}
		ctx.R.Evals++
		ctx.R.Trans++
		sig, what := run(c)
		if nontrivial {
			ctx.Nontrivial(vr.Hash(c.Kind, c.S, c.Def, c.Key, fmt.Sprint(c.Sources)))
		}
		if sig != "" {
			ctx.Violate(sig, what, c)
			ctx.Outcome(c.Kind + ":" + strings.SplitN(sig, ":", 2)[0])
		} else {
			ctx.R.Traces++
			ctx.Outcome(c.Kind + ":agree")
		}
		if ctx.R.Evals%9973 == 11 {
			ctx.Sample(c)
		}
	}
	// 1. expansion strings
	toks := []string{"x", "$", "$$", "${aa:K}", "${K}", "${aa:R}", "${aa:E}", "${aa:N}", "${aa:${aa:P}}", "{", "}", ":", "${aa:D}", "${aa:C}", "${aa:C2}", "${aa:B}", " ", "\n", "${aa:K", "K}"}
	depth := ctx.Param("tokens", 4)
	seen := map[string]bool{}
	var all []string
	var rec func(cur string, k int)
	rec = func(cur string, k int) {
		if !seen[cur] {
			seen[cur] = true
			all = append(all, cur)
		}
		if k == 0 {
			return
		}
		for _, tk := range toks {
			rec(cur+tk, k-1)
		}
	}
	rec("", depth)
	sort.SliceStable(all, func(i, j int) bool { return len(all[i]) < len(all[j]) })
	ctx.R.Extra["expansion_strings"] = len(all)
	for _, def := range []bool{false, true} {
		for _, s := range all {
			if n%512 == 0 && ctx.Expired() {
				return
			}
			do(c12Case{Kind: "expand", S: s, Def: def}, strings.Contains(s, "${") || strings.Contains(s, "$$"))
		}
	}
	// 1a. LONG finite inputs: chains of whole-value and of embedded references 99..500 deep and strings with 99..500 embedded
	// references - nothing cyclic, so every reference is replaced (only cycles are errors)
	for _, def := range []bool{false, true} {
		for _, k := range []int{99, 100, 101, 150, 500} {
			do(c12Case{Kind: "expand", S: fmt.Sprintf("${aa:H%d}", c12ChainLen-k), Def: def}, true)
			do(c12Case{Kind: "expand", S: fmt.Sprintf("x${aa:G%d}", c12ChainLen-k), Def: def}, true)
			do(c12Case{Kind: "expand", S: strings.Repeat("${aa:K}-", k), Def: def}, true)
		}
	}
	// 1b. the same strings inside lists / maps in lists (all strings of up to 2 tokens)
	for _, def := range []bool{false, true} {
		for _, s := range all {
			if len(c12Tokens(s, toks)) > ctx.Param("container_tokens", 2) {
				continue
			}
			do(c12Case{Kind: "container", S: s, Def: def}, strings.Contains(s, "${"))
		}
	}
	// 2. typed whole values and string targets
	var keys []string
	for k := range c12Typed {
		keys = append(keys, k)
	}
	sort.Strings(keys)
	for _, def := range []bool{false, true} {
		for _, k := range keys {
			do(c12Case{Kind: "typed", Key: k, Def: def}, true)
		}
	}
	for _, def := range []bool{false, true} {
		do(c12Case{Kind: "nested-targets", Def: def}, true)
	}
	for _, def := range []bool{false, true} {
		for _, k := range []string{"C", "C2", "C3", "CD", "CE"} {
			do(c12Case{Kind: "cycle", Key: k, Def: def}, true)
		}
	}
	// every history of <= 3 table versions
	var hists []string
	var recH func(cur string)
	recH = func(cur string) {
		if len(cur) >= 2 {
			hists = append(hists, cur)
		}
		if len(cur) == 3 {
			return
		}
		for v := range c12HistVersions {
			recH(cur + fmt.Sprint(v))
		}
	}
	recH("")
	for _, def := range []bool{false, true} {
		for _, h := range hists {
			do(c12Case{Kind: "history", Key: h, Def: def}, true)
		}
	}
	c12SharedReset()
	for _, def := range []bool{false, true} {
		for i := range c12Shared {
			do(c12Case{Kind: "shared", Key: fmt.Sprint(i), Def: def}, true)
		}
	}
	// 3. merge: all source lists up to 2 (full alphabet) and 3 (reduced alphabet; full in thorough)
	full := c12MapAlphabet(true)
	red := c12MapAlphabet(ctx.Param("merge3full", 0) == 1)
	for _, a := range full {
		do(c12Case{Kind: "merge", Sources: []map[string]any{a}}, len(a) > 0)
		do(c12Case{Kind: "merge", Sources: []map[string]any{a, {}}}, len(a) > 0) // empty source changes nothing
		for _, b := range full {
			do(c12Case{Kind: "merge", Sources: []map[string]any{a, b}}, len(a) > 0 && len(b) > 0)
		}
	}
	for _, a := range red {
		for _, b := range red {
			if n%512 == 0 && ctx.Expired() {
				return
			}
			for _, c := range red {
				do(c12Case{Kind: "merge", Sources: []map[string]any{a, b, c}}, len(a) > 0 && len(b) > 0 && len(c) > 0)
			}
		}
	}
	ctx.R.States = ctx.R.Evals
}
