//go:build verif

package batchprocessor

// C17 — batch processor: conservation, size bound, metadata isolation, timely flush.
// Engine E1 on the real processor (batch_processor.go instrumented, virtual time, NumCPU shim): (a) the payload-shape
// universe x (send_batch_size, max) pushed through the real processor on the default schedule (split layer: conservation
// with identity, size bound); (b) all interleavings within the deviation bound of 2 producers / shutdown / clock for a set
// of configurations incl. metadata keys and cardinality limit.

import (
	"errors"
	"context"
	"encoding/json"
	"fmt"
	"sort"
	"strings"
	"testing"
	"time"

	"go.opentelemetry.io/collector/client"
	"go.opentelemetry.io/collector/consumer"
	"go.opentelemetry.io/collector/pdata/pcommon"
	"go.opentelemetry.io/collector/pdata/plog"
	"go.opentelemetry.io/collector/pdata/pmetric"
	"go.opentelemetry.io/collector/pdata/ptrace"
	"go.opentelemetry.io/collector/processor/processortest"

	"VERIF/vr"
	"VERIF/vs"
)

// shape: resources -> scopes -> groups (metrics; one implicit group for logs/traces) -> items
type c17Shape [][][]int

func c17Res(res pcommon.Resource, ctr *int) {
	*ctr++
	res.Attributes().PutStr("r", fmt.Sprintf("R%d", *ctr))
}
func c17ResObs(res pcommon.Resource) string {
	v, _ := res.Attributes().Get("r")
	return "res=" + v.Str()
}

type c17Batch struct {
	items []string
	md    string // client metadata of the export context
	at    time.Duration
	size  int
}

// c17NextErr: what the downstream consumer answers for the call in progress (set by the sink)
var c17NextErr error

type c17Signal struct {
	Name string
	// New builds the processor around a sink; returns consume(shape, ctx) -> (ids, error), start, shutdown
	New func(cfg *Config, sink func(items []string, ctx context.Context)) (consume func(ctx context.Context, sh c17Shape, ctr *int) ([]string, error), start func() error, shutdown func() error, err error)
}

func c17LogsItems(ld plog.Logs) []string {
	var items []string
	for i := 0; i < ld.ResourceLogs().Len(); i++ {
		rl := ld.ResourceLogs().At(i)
		for j := 0; j < rl.ScopeLogs().Len(); j++ {
			sl := rl.ScopeLogs().At(j)
			for k := 0; k < sl.LogRecords().Len(); k++ {
				items = append(items, strings.Join([]string{c17ResObs(rl.Resource()), "rschema=" + rl.SchemaUrl(), "scope=" + sl.Scope().Name(), "sschema=" + sl.SchemaUrl(), sl.LogRecords().At(k).Body().Str()}, "|"))
			}
		}
	}
	return items
}

var c17Logs = &c17Signal{Name: "logs", New: func(cfg *Config, sink func([]string, context.Context)) (func(context.Context, c17Shape, *int) ([]string, error), func() error, func() error, error) {
	next, _ := consumer.NewLogs(func(ctx context.Context, ld plog.Logs) error { c17NextErr = nil; sink(c17LogsItems(ld), ctx); return c17NextErr })
	p, err := newLogsBatchProcessor(processortest.NewNopSettings(processortest.NopType), next, cfg)
	if err != nil {
		return nil, nil, nil, err
	}
	return func(ctx context.Context, sh c17Shape, ctr *int) ([]string, error) {
		ld := plog.NewLogs()
		for _, r := range sh {
			rl := ld.ResourceLogs().AppendEmpty()
			c17Res(rl.Resource(), ctr)
			rl.SetSchemaUrl(fmt.Sprintf("rs%d", *ctr))
			for _, s := range r {
				*ctr++
				sl := rl.ScopeLogs().AppendEmpty()
				sl.Scope().SetName(fmt.Sprintf("S%d", *ctr))
				sl.SetSchemaUrl(fmt.Sprintf("ss%d", *ctr))
				for i := 0; i < s[0]; i++ {
					*ctr++
					sl.LogRecords().AppendEmpty().Body().SetStr(fmt.Sprintf("i%d", *ctr))
				}
			}
		}
		ids := c17LogsItems(ld)
		return ids, p.ConsumeLogs(ctx, ld)
	}, func() error { return p.Start(context.Background(), nil) }, func() error { return p.Shutdown(context.Background()) }, nil
}}

func c17TracesItems(td ptrace.Traces) []string {
	var items []string
	for i := 0; i < td.ResourceSpans().Len(); i++ {
		rs := td.ResourceSpans().At(i)
		for j := 0; j < rs.ScopeSpans().Len(); j++ {
			ss := rs.ScopeSpans().At(j)
			for k := 0; k < ss.Spans().Len(); k++ {
				items = append(items, strings.Join([]string{c17ResObs(rs.Resource()), "rschema=" + rs.SchemaUrl(), "scope=" + ss.Scope().Name(), "sschema=" + ss.SchemaUrl(), ss.Spans().At(k).Name()}, "|"))
			}
		}
	}
	return items
}

var c17Traces = &c17Signal{Name: "traces", New: func(cfg *Config, sink func([]string, context.Context)) (func(context.Context, c17Shape, *int) ([]string, error), func() error, func() error, error) {
	next, _ := consumer.NewTraces(func(ctx context.Context, td ptrace.Traces) error { c17NextErr = nil; sink(c17TracesItems(td), ctx); return c17NextErr })
	p, err := newTracesBatchProcessor(processortest.NewNopSettings(processortest.NopType), next, cfg)
	if err != nil {
		return nil, nil, nil, err
	}
	return func(ctx context.Context, sh c17Shape, ctr *int) ([]string, error) {
		td := ptrace.NewTraces()
		for _, r := range sh {
			rs := td.ResourceSpans().AppendEmpty()
			c17Res(rs.Resource(), ctr)
			rs.SetSchemaUrl(fmt.Sprintf("rs%d", *ctr))
			for _, s := range r {
				*ctr++
				ss := rs.ScopeSpans().AppendEmpty()
				ss.Scope().SetName(fmt.Sprintf("S%d", *ctr))
				ss.SetSchemaUrl(fmt.Sprintf("ss%d", *ctr))
				for i := 0; i < s[0]; i++ {
					*ctr++
					ss.Spans().AppendEmpty().SetName(fmt.Sprintf("i%d", *ctr))
				}
			}
		}
		ids := c17TracesItems(td)
		return ids, p.ConsumeTraces(ctx, td)
	}, func() error { return p.Start(context.Background(), nil) }, func() error { return p.Shutdown(context.Background()) }, nil
}}

func c17MetricsItems(md pmetric.Metrics) []string {
	var items []string
	for i := 0; i < md.ResourceMetrics().Len(); i++ {
		rm := md.ResourceMetrics().At(i)
		for j := 0; j < rm.ScopeMetrics().Len(); j++ {
			sm := rm.ScopeMetrics().At(j)
			for k := 0; k < sm.Metrics().Len(); k++ {
				m := sm.Metrics().At(k)
				mdv, _ := m.Metadata().Get("md")
				pre := []string{c17ResObs(rm.Resource()), "rschema=" + rm.SchemaUrl(), "scope=" + sm.Scope().Name(), "sschema=" + sm.SchemaUrl(),
					"name=" + m.Name(), "unit=" + m.Unit(), "description=" + m.Description(), "metadata=" + mdv.Str(), "type=" + m.Type().String()}
				add := func(extra string, a pcommon.Map) {
					id, _ := a.Get("id")
					items = append(items, strings.Join(append(append([]string{}, pre...), extra, id.Str()), "|"))
				}
				switch m.Type() {
				case pmetric.MetricTypeGauge:
					for q := 0; q < m.Gauge().DataPoints().Len(); q++ {
						add("flags=-", m.Gauge().DataPoints().At(q).Attributes())
					}
				case pmetric.MetricTypeSum:
					for q := 0; q < m.Sum().DataPoints().Len(); q++ {
						add(fmt.Sprintf("flags=%v/%v", m.Sum().AggregationTemporality(), m.Sum().IsMonotonic()), m.Sum().DataPoints().At(q).Attributes())
					}
				case pmetric.MetricTypeHistogram:
					for q := 0; q < m.Histogram().DataPoints().Len(); q++ {
						add(fmt.Sprintf("flags=%v", m.Histogram().AggregationTemporality()), m.Histogram().DataPoints().At(q).Attributes())
					}
				case pmetric.MetricTypeExponentialHistogram:
					for q := 0; q < m.ExponentialHistogram().DataPoints().Len(); q++ {
						add(fmt.Sprintf("flags=%v", m.ExponentialHistogram().AggregationTemporality()), m.ExponentialHistogram().DataPoints().At(q).Attributes())
					}
				case pmetric.MetricTypeSummary:
					for q := 0; q < m.Summary().DataPoints().Len(); q++ {
						add("flags=-", m.Summary().DataPoints().At(q).Attributes())
					}
				}
			}
		}
	}
	return items
}

var c17Metrics = &c17Signal{Name: "metrics", New: func(cfg *Config, sink func([]string, context.Context)) (func(context.Context, c17Shape, *int) ([]string, error), func() error, func() error, error) {
	next, _ := consumer.NewMetrics(func(ctx context.Context, md pmetric.Metrics) error { c17NextErr = nil; sink(c17MetricsItems(md), ctx); return c17NextErr })
	p, err := newMetricsBatchProcessor(processortest.NewNopSettings(processortest.NopType), next, cfg)
	if err != nil {
		return nil, nil, nil, err
	}
	return func(ctx context.Context, sh c17Shape, ctr *int) ([]string, error) {
		md := pmetric.NewMetrics()
		typ := 0
		mark := func(a pcommon.Map) { *ctr++; a.PutStr("id", fmt.Sprintf("i%d", *ctr)) }
		for _, r := range sh {
			rm := md.ResourceMetrics().AppendEmpty()
			c17Res(rm.Resource(), ctr)
			rm.SetSchemaUrl(fmt.Sprintf("rs%d", *ctr))
			for _, s := range r {
				*ctr++
				sm := rm.ScopeMetrics().AppendEmpty()
				sm.Scope().SetName(fmt.Sprintf("S%d", *ctr))
				sm.SetSchemaUrl(fmt.Sprintf("ss%d", *ctr))
				for _, p := range s {
					*ctr++
					m := sm.Metrics().AppendEmpty()
					m.SetName(fmt.Sprintf("M%d", *ctr))
					m.SetUnit(fmt.Sprintf("u%d", *ctr))
					m.SetDescription(fmt.Sprintf("d%d", *ctr))
					m.Metadata().PutStr("md", fmt.Sprintf("md%d", *ctr))
					switch typ % 5 {
					case 0:
						g := m.SetEmptyGauge()
						for i := 0; i < p; i++ {
							mark(g.DataPoints().AppendEmpty().Attributes())
						}
					case 1:
						g := m.SetEmptySum()
						g.SetIsMonotonic(true)
						g.SetAggregationTemporality(pmetric.AggregationTemporalityDelta)
						for i := 0; i < p; i++ {
							mark(g.DataPoints().AppendEmpty().Attributes())
						}
					case 2:
						g := m.SetEmptyHistogram()
						g.SetAggregationTemporality(pmetric.AggregationTemporalityCumulative)
						for i := 0; i < p; i++ {
							mark(g.DataPoints().AppendEmpty().Attributes())
						}
					case 3:
						g := m.SetEmptyExponentialHistogram()
						g.SetAggregationTemporality(pmetric.AggregationTemporalityDelta)
						for i := 0; i < p; i++ {
							mark(g.DataPoints().AppendEmpty().Attributes())
						}
					case 4:
						g := m.SetEmptySummary()
						for i := 0; i < p; i++ {
							mark(g.DataPoints().AppendEmpty().Attributes())
						}
					}
					typ++
				}
			}
		}
		ids := c17MetricsItems(md)
		return ids, p.ConsumeMetrics(ctx, md)
	}, func() error { return p.Start(context.Background(), nil) }, func() error { return p.Shutdown(context.Background()) }, nil
}}

var c17Signals = map[string]*c17Signal{"logs": c17Logs, "traces": c17Traces, "metrics": c17Metrics}

type c17Send struct {
	Shape c17Shape `json:"shape"`
	MD    string   `json:"metadata"` // value list of key k, ";"-separated: "" absent | "a" | "a;b" two values | "a,b" ONE value | "<empty>" the empty value
	WaitMs int     `json:"wait_ms,omitempty"` // virtual time the producer lets pass before this send
}

type c17Case struct {
	Signal     string      `json:"signal"`
	Size       uint32      `json:"send_batch_size"`
	Max        uint32      `json:"send_batch_max_size"`
	TimeoutMs  int64       `json:"timeout_ms"`
	Keys       []string    `json:"metadata_keys"`
	Limit      uint32      `json:"metadata_cardinality_limit"`
	Producers  [][]c17Send `json:"producers"`
	Concurrent bool        `json:"shutdown_concurrent"`
	// SinkFail: the downstream consumer refuses its k-th call (1-based) for every k listed. What a refused batch held is
	// outside the conservation clause ("provided downstream accepts it"); everything else - also the timely emission of
	// what arrives AFTER a refused batch - still holds
	SinkFail []int `json:"downstream_refuses_calls,omitempty"`
}

type c17Obs struct {
	// earlyTime: virtual time was advanced while a program thread was still runnable (an "early timer" deviation). Such a
	// schedule models an arbitrarily long scheduling delay of the shard goroutine, under which no upper bound on latency can
	// hold; the two timeliness oracles (size trigger / timeout) are therefore only evaluated on executions without it.
	earlyTime  bool
	batches    []c17Batch
	accepted   []string          // items of Consume calls that returned nil before shutdown was requested
	acceptedMD map[string]string // item -> metadata of its producer call
	sentAll    map[string]bool
	refused    int
	refusedMD  []string
	sendLog    []string // per producer call, in completion order: "<md>:ok" / "<md>:refused"
	arrival    map[string]time.Duration
	shutdownAt bool
	violations []string
	finished   bool
}

func (s c17Shape) items() int {
	n := 0
	for _, r := range s {
		for _, sc := range r {
			for _, g := range sc {
				n += g
			}
		}
	}
	return n
}

func c17Body(c *c17Case, o *c17Obs) func() {
	return func() {
		*o = c17Obs{acceptedMD: map[string]string{}, sentAll: map[string]bool{}, arrival: map[string]time.Duration{}}
		vs.CPUs = 1
		t0 := vs.Now()
		emitted := map[string]bool{}
		sinkCalls := 0
		cfg := &Config{SendBatchSize: c.Size, SendBatchMaxSize: c.Max, Timeout: time.Duration(c.TimeoutMs) * time.Millisecond, MetadataKeys: c.Keys, MetadataCardinalityLimit: c.Limit}
		consume, start, shutdown, err := c17Signals[c.Signal].New(cfg, func(items []string, ctx context.Context) {
			if vs.Killed() {
				return
			}
			md := ""
			if len(c.Keys) > 0 {
				md = c17MDString(client.FromContext(ctx).Metadata.Get(c.Keys[0]))
				// "each batch is sent with EXACTLY its group's metadata": nothing of what the arrivals carried besides the
				// configured keys (every arrival has an entry of its own under "x-call") travels with the batch
				for k := range client.FromContext(ctx).Metadata.Keys() {
					configured := false
					for _, ck := range c.Keys {
						configured = configured || strings.EqualFold(ck, k)
					}
					if !configured {
						o.violations = append(o.violations, fmt.Sprintf("foreign-metadata: a batch of group %q was sent with metadata entry %q=%v, which is not one of the configured metadata_keys %v", md, k, client.FromContext(ctx).Metadata.Get(k), c.Keys))
					}
				}
			}
			sinkCalls++
			for _, k := range c.SinkFail {
				if k == sinkCalls {
					c17NextErr = errors.New("downstream refused the batch")
				}
			}
			o.batches = append(o.batches, c17Batch{items: items, md: md, at: vs.Now().Sub(t0), size: len(items)})
			for _, it := range items {
				id := it[strings.LastIndexByte(it, '|')+1:]
				emitted[id] = true // by item id: a changed context is judged separately
				// "emitted no later than the timeout after the first of them arrived" (virtual time; executions in which time
				// was advanced early are not judged)
				if a, ok := o.arrival[id]; ok && c.TimeoutMs > 0 && c.Size > 0 && !o.earlyTime {
					if late := vs.Now().Sub(t0) - a; late > time.Duration(c.TimeoutMs)*time.Millisecond {
						o.violations = append(o.violations, fmt.Sprintf("late: item %s accepted at %v was emitted at %v, %v after it arrived (timeout %dms)", id, a, vs.Now().Sub(t0), late, c.TimeoutMs))
					}
				}
			}
		})
		if err != nil {
			panic(err)
		}
		if err := start(); err != nil {
			panic(err)
		}
		pending := func() (n int, first time.Duration) {
			first = -1
			for _, it := range o.accepted {
				if !emitted[it[strings.LastIndexByte(it, '|')+1:]] {
					n++
					if first < 0 || o.arrival[it] < first {
						first = o.arrival[it]
					}
				}
			}
			return
		}
		done := false
		// clock + quiescence observer: when the program has nothing left to do without the environment, pending items must
		// be below send_batch_size and, with a timeout, covered by an armed timer with deadline <= first arrival + timeout
		vs.GoDaemon("clock", func() {
			for {
				vs.Block(func() bool { return vs.PendingTimer() || done })
				if done {
					return
				}
				if !vs.Quiescent() {
					o.earlyTime = true
				}
				if vs.Quiescent() && !o.earlyTime && !o.shutdownAt && len(c.Keys) == 0 {
					n, first := pending()
					if c.Size > 0 && c.TimeoutMs > 0 && n >= int(c.Size) {
						o.violations = append(o.violations, fmt.Sprintf("size-trigger: %d items pending with send_batch_size=%d while the processor is idle", n, c.Size))
					}
					if n > 0 && c.TimeoutMs > 0 && c.Size > 0 {
						ok := false
						for _, d := range vs.ArmedDeadlines() {
							if d.Sub(t0) <= first+time.Duration(c.TimeoutMs)*time.Millisecond {
								ok = true
							}
						}
						if !ok {
							o.violations = append(o.violations, fmt.Sprintf("timer: %d items pending since %v but no timer is armed with deadline <= arrival + timeout (armed: %v)", n, first, vs.ArmedDeadlines()))
						}
					}
				}
				vs.FireNext()
			}
		})
		var wg vs.WaitGroup
		ctr := 0
		callNo := 0
		for pi, sends := range c.Producers {
			sends := sends
			wg.Add(1)
			vs.GoNamed(fmt.Sprintf("producer%d", pi+1), func() {
				defer wg.Done()
				for _, sd := range sends {
					if sd.WaitMs > 0 {
						vs.Sleep(time.Duration(sd.WaitMs) * time.Millisecond)
					}
					ctx := context.Background()
					if sd.MD != "" {
						callNo++
						ctx = client.NewContext(ctx, client.Info{Metadata: client.NewMetadata(map[string][]string{"k": c17MDVals(sd.MD), "x-call": {fmt.Sprint(callNo)}})})
					}
					ids, err := consume(ctx, sd.Shape, &ctr)
					for _, id := range ids {
						o.sentAll[id] = true
					}
					if err != nil {
						o.refused++
						o.refusedMD = append(o.refusedMD, sd.MD)
						o.sendLog = append(o.sendLog, sd.MD+":refused")
						continue
					}
					o.sendLog = append(o.sendLog, sd.MD+":ok")
					if !o.shutdownAt {
						now := vs.Now().Sub(t0)
						for _, id := range ids {
							o.accepted = append(o.accepted, id)
							o.acceptedMD[id] = sd.MD
							o.arrival[id] = now
						}
					}
				}
			})
		}
		sd := func() {
			o.shutdownAt = true
			if err := shutdown(); err != nil {
				o.violations = append(o.violations, "Shutdown returned "+err.Error())
			}
			for _, n := range vs.LiveThreads() {
				if !strings.HasPrefix(n, "producer") && n != "main" && n != "shutdown" {
					o.violations = append(o.violations, "thread "+n+" alive after Shutdown returned")
				}
			}
		}
		if c.Concurrent {
			var swg vs.WaitGroup
			swg.Add(1)
			vs.GoNamed("shutdown", func() { defer swg.Done(); sd() })
			swg.Wait()
		} else {
			wg.Wait()
			if c.TimeoutMs == 0 && len(c.Keys) == 0 {
				// timeout 0 means "send immediately" whatever send_batch_size says: once the processor has nothing left to do,
				// nothing may be pending
				vs.AwaitQuiescence(nil)
				if n, first := pending(); n > 0 {
					o.violations = append(o.violations, fmt.Sprintf("timeout: %d items accepted at %v are still pending while the processor is idle, with timeout 0 (send_batch_size %d)", n, first, c.Size))
				}
			}
			// let time pass first when a timeout is configured: the timer must flush what is pending
			if c.TimeoutMs > 0 && c.Size > 0 {
				vs.Sleep(2 * time.Duration(c.TimeoutMs) * time.Millisecond)
				vs.Point()
				if n, first := pending(); n > 0 && !o.earlyTime {
					o.violations = append(o.violations, fmt.Sprintf("timeout: %d items accepted at %v still pending at %v (timeout %dms)", n, first, vs.Now().Sub(t0), c.TimeoutMs))
				}
			}
			sd()
		}
		done = true
		o.finished = true
	}
}

func c17Check(c *c17Case, o *c17Obs) (string, string) {
	desc := fmt.Sprintf("signal=%s size=%d max=%d timeout=%dms keys=%v limit=%d producers=%v concurrent=%v", c.Signal, c.Size, c.Max, c.TimeoutMs, c.Keys, c.Limit, c.Producers, c.Concurrent)
	if len(c.SinkFail) > 0 {
		desc += fmt.Sprintf(" downstream-refuses-calls=%v", c.SinkFail)
	}
	if !o.finished {
		return "unfinished", desc
	}
	if len(o.violations) > 0 {
		return strings.SplitN(o.violations[0], ":", 2)[0], desc + ": " + strings.Join(o.violations, "; ")
	}
	count := map[string]int{}
	byID := map[string]string{}
	for bi, b := range o.batches {
		if c.Max > 0 && b.size > int(c.Max) {
			return "batch-exceeds-max", fmt.Sprintf("%s: batch %d has %d items > send_batch_max_size %d", desc, bi, b.size, c.Max)
		}
		if b.size == 0 {
			return "empty-batch", fmt.Sprintf("%s: batch %d is empty", desc, bi)
		}
		for _, it := range b.items {
			count[it]++
			byID[it[strings.LastIndexByte(it, '|')+1:]] = it
			if !o.sentAll[it] {
				// invented, or its context changed: explain by id
				id := it[strings.LastIndexByte(it, '|')+1:]
				for s := range o.sentAll {
					if strings.HasSuffix(s, "|"+id) {
						sf, gf := strings.Split(s, "|"), strings.Split(it, "|")
						var diff []string
						for i := range sf {
							if i < len(gf) && sf[i] != gf[i] {
								diff = append(diff, strings.SplitN(sf[i], "=", 2)[0])
							}
						}
						return "context-changed:" + c.Signal + ":" + strings.Join(diff, ","), fmt.Sprintf("%s: item %s entered as %s and left as %s", desc, id, s, it)
					}
				}
				return "item-invented", fmt.Sprintf("%s: emitted item %s was never sent", desc, it)
			}
			if len(c.Keys) > 0 {
				if md, ok := o.acceptedMD[it]; ok && md != b.md {
					return "metadata-mixed", fmt.Sprintf("%s: item %s arrived with metadata %q but its batch was sent with %q", desc, it, md, b.md)
				}
			}
		}
	}
	for it, n := range count {
		if n > 1 {
			return "item-duplicated", fmt.Sprintf("%s: item %s emitted %d times", desc, it, n)
		}
	}
	for _, it := range o.accepted {
		if count[it] != 1 {
			return "item-lost", fmt.Sprintf("%s: item %s accepted before shutdown began, emitted %d times by the time Shutdown returned", desc, it, count[it])
		}
	}
	if len(c.Keys) > 0 && len(c.Producers) == 1 && !c.Concurrent {
		// one producer, shutdown after it: the arrivals are a sequence, and which of them is refused is a function of it -
		// a combination is refused iff it is new and `limit` combinations exist already; nothing else is ever refused
		groups := map[string]bool{}
		var want []string
		for _, sd := range c.Producers[0] {
			switch {
			case groups[sd.MD] || c.Limit == 0 || len(groups) < int(c.Limit):
				groups[sd.MD] = true
				want = append(want, sd.MD+":ok")
			default:
				want = append(want, sd.MD+":refused")
			}
		}
		if fmt.Sprint(want) != fmt.Sprint(o.sendLog) {
			return "metadata-admission-differs", fmt.Sprintf("%s: arrivals were answered %v, the cardinality rule prescribes %v", desc, o.sendLog, want)
		}
	}
	if c.Limit > 0 && len(c.Keys) > 0 {
		groups := map[string]bool{}
		for _, md := range o.acceptedMD {
			groups[md] = true
		}
		if len(groups) > int(c.Limit) {
			return "cardinality-limit-not-enforced", fmt.Sprintf("%s: %d metadata groups accepted with limit %d", desc, len(groups), c.Limit)
		}
	}
	return "", ""
}

type c17Replay struct {
	Case    *c17Case `json:"case"`
	Choices []int    `json:"choices"`
}

func c17Verdict(c *c17Case, o *c17Obs, s *vs.Sched) (string, string) {
	if v := s.Verdict(); v != "" {
		if s.Deadlock && o.finished {
			// a Consume call issued concurrently with Shutdown may stay blocked on the stopped shard's input channel: receivers
			// are stopped before processors, so this is harness-induced and outside the statement
			only := true
			for _, at := range s.BlockedAt {
				if !strings.Contains(at, "Batcher).consume<") {
					only = false
				}
			}
			if only {
				return c17Check(c, o)
			}
		}
		if s.Deadlock {
			return "deadlock:" + s.DeadlockSig(), fmt.Sprintf("%+v: %s", *c, v)
		}
		return "panic:" + strings.SplitN(fmt.Sprint(s.Panic), "\n", 2)[0], fmt.Sprintf("%+v: %s\n%s", *c, v, s.PanicStack)
	}
	return c17Check(c, o)
}

func c17Seqs(alpha []int, maxLen int) [][]int {
	var out [][]int
	var rec func(cur []int)
	rec = func(cur []int) {
		out = append(out, append([]int(nil), cur...))
		if len(cur) == maxLen {
			return
		}
		for _, a := range alpha {
			rec(append(cur, a))
		}
	}
	rec(nil)
	return out
}

func c17Shapes(levels, dim int) []c17Shape {
	var pts []int
	for p := 0; p <= dim; p++ {
		pts = append(pts, p)
	}
	var groupSets [][]int
	if levels == 4 {
		groupSets = c17Seqs(pts, dim)
	} else {
		for _, p := range pts {
			groupSets = append(groupSets, []int{p})
		}
	}
	var idx []int
	for i := range groupSets {
		idx = append(idx, i)
	}
	S := dim
	if levels == 4 {
		S = 1
	}
	var scopeSets [][][]int
	for _, s := range c17Seqs(idx, S) {
		var sc [][]int
		for _, gi := range s {
			sc = append(sc, groupSets[gi])
		}
		scopeSets = append(scopeSets, sc)
	}
	idx = nil
	for i := range scopeSets {
		idx = append(idx, i)
	}
	var out []c17Shape
	for _, r := range c17Seqs(idx, dim) {
		var sh c17Shape
		for _, si := range r {
			sh = append(sh, scopeSets[si])
		}
		out = append(out, sh)
	}
	return out
}

func TestVerif(t *testing.T) {
	ctx := vr.Start("C17", "batch")
	if ctx == nil {
		t.Skip("not driven")
	}
	defer ctx.Finish()
	if ctx.ReplayRaw != nil {
		var rf struct {
			Replay c17Replay `json:"replay"`
		}
		if err := json.Unmarshal(ctx.ReplayRaw, &rf); err != nil {
			t.Fatal(err)
		}
		var o c17Obs
		s := vs.Run(rf.Replay.Choices, c17Body(rf.Replay.Case, &o))
		sig, what := c17Verdict(rf.Replay.Case, &o, s)
		t.Logf("%s %s batches=%+v", sig, what, o.batches)
		if sig != "" {
			ctx.Violate(sig, what, rf.Replay)
		}
		return
	}
	var nodes int64
	explore := func(c *c17Case, bound int, kind string) {
		var o c17Obs
		st := vs.Explore(vs.Opts{Bound: bound, Shard: ctx.Shard, Shards: ctx.Shards, Expired: ctx.Expired}, c17Body(c, &o), func(s *vs.Sched, owned bool) bool {
			sig, what := c17Verdict(c, &o, s)
			if owned {
				ctx.R.Evals++
				ctx.R.Traces++
				var sizes []int
				for _, b := range o.batches {
					sizes = append(sizes, b.size)
				}
				ctx.Outcome(fmt.Sprintf("%s:%s:batches=%v", kind, c.Signal, sizes))
				if sig != "" {
					ctx.Violate(sig, what, c17Replay{c, s.Choices()})
				}
				if ctx.R.Evals%4001 == 3 {
					ctx.Sample(map[string]any{"case": c, "batch_sizes": sizes})
				}
			}
			return sig == ""
		})
		for _, x := range st.Infra {
			ctx.Infra("%+v: %s", *c, x)
		}
		if st.Capped {
			ctx.Cap("bound not completed")
		}
		ctx.R.Trans += st.Steps
		nodes += st.Nodes
	}
	// (a) split layer through the real processor: shapes x (size, max), default schedule only (bound 0, one producer)
	var n int64
	dim := ctx.Param("dim", 2)
	for _, sig := range []string{"logs", "traces", "metrics"} {
		levels := 3
		if sig == "metrics" {
			levels = 4
		}
		for _, sh := range c17Shapes(levels, dim) {
			if sh.items() == 0 {
				continue
			}
			for _, sm := range [][2]uint32{{1, 1}, {2, 2}, {2, 3}, {3, 3}, {0, 2}, {8, 0}} {
				n++
				if !ctx.Mine(n) {
					continue
				}
				if n%64 == 0 && ctx.Expired() {
					return
				}
				c := &c17Case{Signal: sig, Size: sm[0], Max: sm[1], TimeoutMs: 1000, Producers: [][]c17Send{{{Shape: sh}}}}
				if sm[0] == 0 {
					c.TimeoutMs = 0
				}
				ctx.Nontrivial(vr.Hash(sig, fmt.Sprint(sh), sm))
				// bound -1: only the default schedule
				var o c17Obs
				s := vs.Run(nil, c17Body(c, &o))
				sg, what := c17Verdict(c, &o, s)
				ctx.R.Evals++
				ctx.R.Trans += int64(s.Steps)
				if sg != "" {
					ctx.Violate(sg, what, c17Replay{c, nil})
					ctx.Outcome("split:" + sig + ":" + strings.SplitN(sg, ":", 2)[0])
				} else {
					ctx.R.Traces++
					ctx.Outcome("split:" + sig + ":ok")
				}
			}
		}
	}
	// (b) concurrent
	bound := ctx.Param("bound", 1)
	one := func(n int) c17Shape { return c17Shape{{{n}}} }
	var cases []*c17Case
	for _, sm := range [][2]uint32{{2, 0}, {2, 2}, {2, 3}, {3, 3}} {
		for _, conc := range []bool{false, true} {
			cases = append(cases, &c17Case{Signal: "logs", Size: sm[0], Max: sm[1], TimeoutMs: 1000, Producers: [][]c17Send{{{Shape: one(2)}, {Shape: one(1)}}, {{Shape: one(3)}}}, Concurrent: conc})
		}
	}
	// arrivals spread over (virtual) time: the timer has to be re-armed after a timeout flush and after a size flush
	cases = append(cases, &c17Case{Signal: "logs", Size: 3, Max: 0, TimeoutMs: 1000, Producers: [][]c17Send{{{Shape: one(1)}, {Shape: one(1), WaitMs: 1500}}, {{Shape: one(1), WaitMs: 2700}}}, Concurrent: false})
	cases = append(cases, &c17Case{Signal: "traces", Size: 2, Max: 2, TimeoutMs: 1000, Producers: [][]c17Send{{{Shape: one(3), WaitMs: 400}, {Shape: one(1), WaitMs: 700}}, {{Shape: one(1), WaitMs: 2500}}}, Concurrent: false})
	// a trickle: arrivals less than the timeout apart that never reach send_batch_size - the deadline is that of the FIRST
	// pending item
	cases = append(cases, &c17Case{Signal: "logs", Size: 4, Max: 0, TimeoutMs: 1000, Producers: [][]c17Send{{{Shape: one(1)}, {Shape: one(1), WaitMs: 400}, {Shape: one(1), WaitMs: 400}}}, Concurrent: false})
	cases = append(cases, &c17Case{Signal: "metrics", Size: 5, Max: 0, TimeoutMs: 1000, Producers: [][]c17Send{{{Shape: one(1), WaitMs: 300}, {Shape: one(1), WaitMs: 600}}, {{Shape: one(1), WaitMs: 500}}}, Concurrent: false})
	// timeout 0 with a send_batch_size that the arrivals do not reach: "send immediately"
	cases = append(cases, &c17Case{Signal: "logs", Size: 5, Max: 0, TimeoutMs: 0, Producers: [][]c17Send{{{Shape: one(1)}, {Shape: one(2)}}, {{Shape: one(1)}}}, Concurrent: false})
	cases = append(cases, &c17Case{Signal: "metrics", Size: 5, Max: 5, TimeoutMs: 0, Producers: [][]c17Send{{{Shape: one(2)}}, {{Shape: one(1)}}}, Concurrent: false})
	cases = append(cases, &c17Case{Signal: "traces", Size: 0, Max: 0, TimeoutMs: 0, Producers: [][]c17Send{{{Shape: one(2)}}, {{Shape: one(1)}}}, Concurrent: true})
	cases = append(cases, &c17Case{Signal: "metrics", Size: 2, Max: 2, TimeoutMs: 1000, Producers: [][]c17Send{{{Shape: c17Shape{{{1, 2}}}}}, {{Shape: c17Shape{{{2}}}}}}, Concurrent: false})
	// metadata keys and cardinality limit
	cases = append(cases, &c17Case{Signal: "logs", Size: 2, Max: 2, TimeoutMs: 1000, Keys: []string{"k"}, Producers: [][]c17Send{{{Shape: one(1), MD: "a"}, {Shape: one(2), MD: "b"}}, {{Shape: one(1), MD: "a"}, {Shape: one(1), MD: ""}}}, Concurrent: false})
	cases = append(cases, &c17Case{Signal: "logs", Size: 3, Max: 0, TimeoutMs: 1000, Keys: []string{"k"}, Limit: 1, Producers: [][]c17Send{{{Shape: one(1), MD: "a"}, {Shape: one(1), MD: "a;b"}}, {{Shape: one(1), MD: "b"}}}, Concurrent: false})
	cases = append(cases, &c17Case{Signal: "traces", Size: 2, Max: 0, TimeoutMs: 1000, Keys: []string{"k"}, Producers: [][]c17Send{{{Shape: one(1), MD: "a;b"}}, {{Shape: one(1), MD: "b;a"}, {Shape: one(1), MD: "a"}}}, Concurrent: true})
	// value lists that differ only in how they are cut: two values vs one value with a comma; no value vs the empty value
	cases = append(cases, &c17Case{Signal: "logs", Size: 2, Max: 0, TimeoutMs: 1000, Keys: []string{"k"}, Producers: [][]c17Send{{{Shape: one(1), MD: "a;b"}}, {{Shape: one(1), MD: "a,b"}}}, Concurrent: false})
	cases = append(cases, &c17Case{Signal: "metrics", Size: 2, Max: 0, TimeoutMs: 1000, Keys: []string{"k"}, Producers: [][]c17Send{{{Shape: one(1), MD: ""}}, {{Shape: one(1), MD: "<empty>"}}}, Concurrent: false})
	// a downstream that refuses a batch: what arrives afterwards is still flushed by the timer / by size
	for _, sig := range []string{"logs", "traces", "metrics"} {
		for _, fails := range [][]int{{1}, {2}, {1, 2}} {
			cases = append(cases, &c17Case{Signal: sig, Size: 3, Max: 0, TimeoutMs: 1000, SinkFail: fails,
				Producers: [][]c17Send{{{Shape: one(1)}, {Shape: one(1), WaitMs: 1500}, {Shape: one(1), WaitMs: 1500}}}, Concurrent: false})
		}
		cases = append(cases, &c17Case{Signal: sig, Size: 2, Max: 2, TimeoutMs: 1000, SinkFail: []int{1},
			Producers: [][]c17Send{{{Shape: one(2)}, {Shape: one(1), WaitMs: 200}}}, Concurrent: false})
	}
	for _, c := range cases {
		explore(c, bound, "concurrent")
	}
	// (c) every sequence of <= seq arrivals over three metadata values (and "none") x cardinality limit 0/1/2, one producer,
	// default schedule: admission (which arrival is refused), conservation and isolation as a function of the sequence
	mdAlpha := []string{"a", "b", "c", ""}
	var mdSeqs [][]string
	var recMD func(cur []string)
	recMD = func(cur []string) {
		if len(cur) > 0 {
			mdSeqs = append(mdSeqs, append([]string(nil), cur...))
		}
		if len(cur) == ctx.Param("mdseq", 4) {
			return
		}
		for _, a := range mdAlpha {
			recMD(append(cur, a))
		}
	}
	recMD(nil)
	for _, lim := range []uint32{0, 1, 2} {
		for _, sq := range mdSeqs {
			n++
			if !ctx.Mine(n) {
				continue
			}
			var sends []c17Send
			for _, md := range sq {
				sends = append(sends, c17Send{Shape: one(1), MD: md})
			}
			c := &c17Case{Signal: "logs", Size: 2, Max: 0, TimeoutMs: 1000, Keys: []string{"k"}, Limit: lim, Producers: [][]c17Send{sends}, Concurrent: false}
			var o c17Obs
			sc := vs.Run(nil, c17Body(c, &o))
			sg, what := c17Verdict(c, &o, sc)
			ctx.R.Evals++
			ctx.R.Traces++
			ctx.R.Trans += int64(sc.Steps)
			ctx.Outcome(fmt.Sprintf("metadata-seq:refused=%d", o.refused))
			if sg != "" {
				ctx.Violate(sg, what, c17Replay{c, nil})
			}
		}
	}
	ctx.R.States = ctx.R.Evals + nodes
	ctx.R.Extra["bound_completed"] = bound
	_ = sort.Strings
}


// c17MDVals / c17MDString: the harness's spelling of a metadata value list (see c17Send.MD); injective, unlike a comma join
func c17MDVals(md string) []string {
	if md == "" {
		return nil
	}
	var out []string
	for _, v := range strings.Split(md, ";") {
		if v == "<empty>" {
			v = ""
		}
		out = append(out, v)
	}
	return out
}

func c17MDString(vals []string) string {
	var out []string
	for _, v := range vals {
		if v == "" {
			v = "<empty>"
		}
		out = append(out, v)
	}
	return strings.Join(out, ";")
}
