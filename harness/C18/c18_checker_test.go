//go:build verif

package memorylimiter

// C18 — memory limiter refuses data exactly while usage is at or above the soft limit.
// checker part (E2): all reading sequences up to a depth bound over {soft-1, soft, hard-1, hard, hard+1} x post-GC reading
// {soft-1, soft} x elapsed-time class, for a grid of configurations, on the real MemoryLimiter with a virtual clock,
// against a reference refuse/GC machine. lifecycle part (E1): all interleavings of Start/Shutdown of 2-3 users and the
// ticker on the instrumented code: checker alive <=> started users > 0, no thread left, no deadlock.

import (
	"context"
	"encoding/json"
	"fmt"
	"runtime"
	"strings"
	"testing"
	"time"

	"go.uber.org/zap"

	"VERIF/vr"
	"VERIF/vs"
)

const c18MiB = 1024 * 1024

type c18Cfg struct {
	Limit, Spike       uint32 // MiB (fixed mode)
	PctLimit, PctSpike uint32 // percentage mode (total memory 200 MiB)
	SoftIvMs, HardIvMs int64
}

func (c c18Cfg) config() *Config {
	return &Config{CheckInterval: time.Hour, MemoryLimitMiB: c.Limit, MemorySpikeLimitMiB: c.Spike, MemoryLimitPercentage: c.PctLimit, MemorySpikePercentage: c.PctSpike,
		MinGCIntervalWhenSoftLimited: time.Duration(c.SoftIvMs) * time.Millisecond, MinGCIntervalWhenHardLimited: time.Duration(c.HardIvMs) * time.Millisecond}
}

// limits as the documentation defines them (independent of the implementation's arithmetic)
func (c c18Cfg) limits() (soft, hard uint64) {
	if c.Limit != 0 {
		hard = uint64(c.Limit) * c18MiB
		spike := uint64(c.Spike) * c18MiB
		if c.Spike == 0 {
			spike = hard / 5 // default spike limit: 20% of the limit
		}
		return hard - spike, hard
	}
	total := uint64(200) * c18MiB
	hard = total * uint64(c.PctLimit) / 100
	spike := total * uint64(c.PctSpike) / 100
	if c.PctSpike == 0 {
		spike = hard / 5
	}
	return hard - spike, hard
}

type c18Step struct {
	R  int   `json:"reading"`    // index into readings
	P  int   `json:"post_gc"`    // index into post readings
	Dt int64 `json:"elapsed_ms"` // virtual time since the previous check
}

type c18Case struct {
	Cfg   c18Cfg    `json:"config"`
	Steps []c18Step `json:"steps"`
}

func c18Readings(c c18Cfg) ([]uint64, []uint64) {
	soft, hard := c.limits()
	return []uint64{soft - 1, soft, hard - 1, hard, hard + 1}, []uint64{soft - 1, soft}
}

func c18Run(c c18Case) (string, string) {
	vs.ResetInactive()
	readings, post := c18Readings(c.Cfg)
	soft, hard := c.Cfg.limits()
	var cur c18Step
	afterGC := false
	gcs := 0
	ReadMemStatsFn = func(m *runtime.MemStats) {
		if afterGC {
			m.Alloc = post[cur.P]
		} else {
			m.Alloc = readings[cur.R]
		}
	}
	GetMemoryFn = func() (uint64, error) { return 200 * c18MiB, nil }
	vs.GC = func() { gcs++; afterGC = true }
	defer func() { vs.GC = runtime.GC }()
	ml, err := NewMemoryLimiter(c.Cfg.config(), zap.NewNop())
	if err != nil {
		return "construct-error", fmt.Sprintf("%+v: %v", c.Cfg, err)
	}
	sinceGC := time.Duration(0) // reference: elapsed since the last GC (or construction)
	for i, s := range c.Steps {
		cur, afterGC, gcs = s, false, 0
		dt := time.Duration(s.Dt) * time.Millisecond
		vs.Advance(dt)
		sinceGC += dt
		ml.CheckMemLimits()
		// reference machine
		r := readings[s.R]
		interval := time.Duration(c.Cfg.SoftIvMs) * time.Millisecond
		if r >= hard {
			interval = time.Duration(c.Cfg.HardIvMs) * time.Millisecond
		}
		due := r >= soft && sinceGC > interval
		last := r
		wantGC := 0
		if due {
			wantGC, last, sinceGC = 1, post[s.P], 0
		}
		wantRefuse := last >= soft
		if gcs != wantGC {
			return fmt.Sprintf("gc-count:got=%d,want=%d", gcs, wantGC), fmt.Sprintf("config %+v steps %v: at step %d a forced GC ran %d times, the rule prescribes %d (reading=%d soft=%d hard=%d elapsed-since-GC=%v)", c.Cfg, c.Steps, i, gcs, wantGC, r, soft, hard, sinceGC)
		}
		if ml.MustRefuse() != wantRefuse {
			return fmt.Sprintf("refuse:got=%v,want=%v", ml.MustRefuse(), wantRefuse), fmt.Sprintf("config %+v steps %v: after step %d MustRefuse()=%v, but the most recent measurement %d vs soft limit %d prescribes %v", c.Cfg, c.Steps, i, ml.MustRefuse(), last, soft, wantRefuse)
		}
	}
	return "", ""
}

// ---- lifecycle under the scheduler
type c18Life struct {
	Users [][]string `json:"users"` // per user thread: sequence of "start" / "stop"
	// NoHold: the harness does not keep a reference of its own, so the last user's Shutdown can overlap another user's
	// Start (complete stop and restart included). Judged in this mode: no panic, no deadlock, no error from a matched
	// Start/Shutdown, no checker left at the end - and users that are still started at the end are served by a running
	// checker, also when the limiter had been stopped completely in between.
	NoHold bool `json:"no_hold,omitempty"`
	// Refusing: every memory reading is above the hard limit (collections do not help) and the first check has run before
	// the users start: whatever users start or stop afterwards, the limiter stays in refusing mode - "refusing iff the MOST
	// RECENT MEASUREMENT is at or above the soft limit", a Start or Shutdown is not a measurement
	Refusing bool `json:"refusing,omitempty"`
}

type c18LifeObs struct {
	checks      int
	started     int
	violations  []string
	finished    bool
	errs        []string
	liveAtEnd   []string
	fullStops   int
}

func c18LifeBody(sc *c18Life, o *c18LifeObs) func() {
	return func() {
		*o = c18LifeObs{}
		ReadMemStatsFn = func(m *runtime.MemStats) {
			o.checks++
			m.Alloc = 1
			if sc.Refusing {
				m.Alloc = 200 * c18MiB
			}
		}
		ml, err := NewMemoryLimiter(&Config{CheckInterval: time.Second, MemoryLimitMiB: 100, MemorySpikeLimitMiB: 20}, zap.NewNop())
		if err != nil {
			panic(err)
		}
		done := false
		vs.StartClock(func() bool { return done })
		// the harness itself is the first user to start and the last to stop (restart after a complete stop is outside
		// the statement: "keeps running until the last user has shut down and then stops")
		hold := len(sc.Users) > 1 && !sc.NoHold
		if hold {
			// (component.Start's contract: the context "will be cancelled soon" after Start returns - every Start below gets a
			// context that is cancelled as soon as it has returned; the limiter's life does not depend on it)
			sctx, scancel := context.WithCancel(context.Background())
			if err := ml.Start(sctx, nil); err != nil {
				panic(err)
			}
			scancel()
			o.started++
		}
		if sc.Refusing {
			vs.Sleep(1500 * time.Millisecond) // one tick ...
			vs.AwaitQuiescence(nil)           // ... and the check it triggered has completed: the limiter is in refusing mode
			if !ml.MustRefuse() {
				o.violations = append(o.violations, "not refusing after a check that read 200 MiB with limit 100 MiB")
			}
		}
		stillRefusing := func(after string) {
			if sc.Refusing && !ml.MustRefuse() {
				o.violations = append(o.violations, "refusing mode left without a measurement: MustRefuse() is false right after "+after+" although every reading is above the limit")
			}
		}
		var wg vs.WaitGroup
		for ui, seq := range sc.Users {
			seq := seq
			wg.Add(1)
			vs.GoNamed(fmt.Sprintf("user%d", ui+1), func() {
				defer wg.Done()
				mine := 0
				for _, op := range seq {
					if op == "start" {
						sctx, scancel := context.WithCancel(context.Background())
						if err := ml.Start(sctx, nil); err != nil {
							o.errs = append(o.errs, "Start: "+err.Error())
						}
						scancel()
						mine++
						o.started++
						stillRefusing("a user's Start")
					} else {
						err := ml.Shutdown(context.Background())
						if mine == 0 {
							// a Shutdown without a Start of this user: legal only as an error when nobody has started
							if err == nil && o.started == 0 {
								o.violations = append(o.violations, "Shutdown without Start returned nil")
							}
							if err == nil {
								o.started--
							}
							continue
						}
						if err != nil {
							o.errs = append(o.errs, "Shutdown: "+err.Error())
						}
						mine--
						o.started--
						if o.started == 0 {
							o.fullStops++
						}
						if o.started == 0 && !hold {
							// the last user has shut down: the checker must be gone when Shutdown returns
							for _, n := range vs.LiveThreads() {
								if !strings.HasPrefix(n, "user") && n != "main" {
									o.violations = append(o.violations, "checker thread "+n+" still alive after the last user shut down")
								}
							}
						}
					}
				}
			})
		}
		wg.Wait()
		// while users remain started the checker keeps running: a tick must produce a check
		if o.started > 0 {
			before := o.checks
			vs.Sleep(3 * time.Second)
			// (the ticks have been delivered; the check they trigger has run once nothing else can run - a checker that is merely
			// not scheduled yet is not a checker that is gone)
			vs.AwaitQuiescence(nil)
			// also after a complete stop and a new start (every interleaving of the users' starts and shutdowns): the users that
			// are started now are protected by a running checker
			if o.checks == before {
				o.violations = append(o.violations, fmt.Sprintf("no memory check ran during 3 check intervals although %d users are still started", o.started))
			}
			for o.started > 0 {
				_ = ml.Shutdown(context.Background())
				o.started--
			}
			for _, n := range vs.LiveThreads() {
				if n != "main" {
					o.violations = append(o.violations, "checker thread "+n+" still alive after the last user shut down")
				}
			}
		}
		o.liveAtEnd = nil
		for _, n := range vs.LiveThreads() {
			if n != "main" {
				o.liveAtEnd = append(o.liveAtEnd, n)
			}
		}
		done = true
		o.finished = true
	}
}

func c18LifeVerdict(sc *c18Life, o *c18LifeObs, s *vs.Sched) (string, string) {
	if v := s.Verdict(); v != "" {
		if s.Deadlock {
			return "lifecycle-deadlock:" + s.DeadlockSig(), fmt.Sprintf("users %v: %s", sc.Users, v)
		}
		return "lifecycle-panic:" + strings.SplitN(fmt.Sprint(s.Panic), "\n", 2)[0], fmt.Sprintf("users %v: %s\n%s", sc.Users, v, s.PanicStack)
	}
	if len(o.violations) > 0 {
		return "lifecycle:" + strings.SplitN(o.violations[0], " thread ", 2)[0], fmt.Sprintf("users %v: %v", sc.Users, o.violations)
	}
	if len(o.errs) > 0 {
		return "lifecycle-unexpected-error", fmt.Sprintf("users %v: %v", sc.Users, o.errs)
	}
	if len(o.liveAtEnd) > 0 {
		return "lifecycle-thread-left", fmt.Sprintf("users %v: threads alive after the last Shutdown: %v", sc.Users, o.liveAtEnd)
	}
	return "", ""
}

type c18Replay struct {
	Seq     *c18Case `json:"sequence,omitempty"`
	Life    *c18Life `json:"lifecycle,omitempty"`
	Choices []int    `json:"choices,omitempty"`
}

func TestVerif(t *testing.T) {
	ctx := vr.Start("C18", "checker")
	if ctx == nil {
		t.Skip("not driven")
	}
	defer ctx.Finish()
	if ctx.ReplayRaw != nil {
		var rf struct {
			Replay c18Replay `json:"replay"`
		}
		if err := json.Unmarshal(ctx.ReplayRaw, &rf); err != nil {
			t.Fatal(err)
		}
		var sig, what string
		if rf.Replay.Life != nil {
			var o c18LifeObs
			s := vs.Run(rf.Replay.Choices, c18LifeBody(rf.Replay.Life, &o))
			sig, what = c18LifeVerdict(rf.Replay.Life, &o, s)
		} else {
			sig, what = c18Run(*rf.Replay.Seq)
		}
		t.Logf("%s %s", sig, what)
		if sig != "" {
			ctx.Violate(sig, what, rf.Replay)
		}
		return
	}
	var cfgs []c18Cfg
	// the last three set BOTH option families (accepted by validation): the fixed limit takes precedence over the percentage
	// one (processor README), whether the percentage limit is the larger or the smaller of the two
	for _, lim := range []c18Cfg{{Limit: 100, Spike: 20}, {Limit: 100, Spike: 0}, {PctLimit: 50, PctSpike: 10}, {PctLimit: 48, PctSpike: 0},
		{Limit: 100, Spike: 20, PctLimit: 75, PctSpike: 10}, {Limit: 100, Spike: 20, PctLimit: 30, PctSpike: 5}, {Limit: 120, Spike: 0, PctLimit: 50, PctSpike: 0}} {
		for _, iv := range [][2]int64{{0, 0}, {10500, 0}, {10500, 5500}} {
			c := lim
			c.SoftIvMs, c.HardIvMs = iv[0], iv[1]
			cfgs = append(cfgs, c)
		}
	}
	// "every limit ... accepted by validation": limits at and beyond the 32-bit byte boundary (4 GiB), one GC-interval setting
	for _, lim := range []c18Cfg{{Limit: 4095, Spike: 1}, {Limit: 4096, Spike: 1024}, {Limit: 8192, Spike: 0}, {Limit: 6000, Spike: 4096}, {Limit: 1 << 20, Spike: 1 << 19}} {
		lim.SoftIvMs, lim.HardIvMs = 10500, 5500
		cfgs = append(cfgs, lim)
	}
	depth := ctx.Param("depth", 3)
	var steps []c18Step
	for r := 0; r < 5; r++ {
		for p := 0; p < 2; p++ {
			for _, dt := range []int64{2000, 7000, 12000} {
				steps = append(steps, c18Step{r, p, dt})
			}
		}
	}
	var n int64
	for _, cfg := range cfgs {
		var rec func(seq []c18Step, d int)
		rec = func(seq []c18Step, d int) {
			if len(seq) > 0 {
				ctx.R.Evals++
				ctx.R.Trans += int64(len(seq))
				c := c18Case{cfg, append([]c18Step(nil), seq...)}
				sig, what := c18Run(c)
				ctx.Nontrivial(vr.Hash(fmt.Sprint(cfg), fmt.Sprint(seq)))
				if sig != "" {
					ctx.Violate(sig, what, c18Replay{Seq: &c})
					ctx.Outcome("sequence:" + strings.SplitN(sig, ":", 2)[0])
					return
				}
				ctx.R.Traces++
				if ctx.R.Evals%20011 == 3 {
					ctx.Sample(c)
				}
			}
			if d == 0 {
				return
			}
			for _, s := range steps {
				if len(seq) == 0 {
					n++
					if !ctx.Mine(n) {
						continue
					}
				}
				rec(append(seq, s), d-1)
			}
		}
		rec(nil, depth)
	}
	ctx.Outcome("sequence:agree")
	// lifecycle
	lifes := []*c18Life{
		{Users: [][]string{{"start", "stop"}, {"start", "stop"}}},
		{Users: [][]string{{"start", "stop"}, {"start", "stop"}, {"start"}}},
		{Users: [][]string{{"start"}, {"start", "stop"}, {"start", "stop"}}},
		{Users: [][]string{{"stop", "start", "stop"}}},
		{Users: [][]string{{"start", "stop"}, {"start", "stop"}}, NoHold: true},
		{Users: [][]string{{"start", "stop"}, {"start"}}, Refusing: true},
		{Users: [][]string{{"start", "stop"}, {"start", "stop"}, {"start", "stop"}}, NoHold: true},
		// without the harness's own reference and with users that stay: among the interleavings are those in which the limiter
		// is stopped completely before the staying user starts - it is protected by a running checker all the same
		{Users: [][]string{{"start", "stop"}, {"start"}}, NoHold: true},
		{Users: [][]string{{"start", "stop"}, {"start", "stop"}, {"start"}}, NoHold: true},
	}
	bound := ctx.Param("bound", 2)
	var nodes int64
	for li, sc := range lifes {
		sc := sc
		var o c18LifeObs
		st := vs.Explore(vs.Opts{Bound: bound, Shard: ctx.Shard, Shards: ctx.Shards, Expired: ctx.Expired}, c18LifeBody(sc, &o), func(s *vs.Sched, owned bool) bool {
			sig, what := c18LifeVerdict(sc, &o, s)
			if owned {
				ctx.R.Evals++
				ctx.R.Traces++
				ctx.Outcome(fmt.Sprintf("lifecycle%d:checks=%d", li, o.checks))
				if sig != "" {
					ctx.Violate(sig, what, c18Replay{Life: sc, Choices: s.Choices()})
				}
			}
			return sig == ""
		})
		for _, x := range st.Infra {
			ctx.Infra("lifecycle %d %v: %s", li, sc.Users, x)
		}
		if st.Capped {
			ctx.Cap("lifecycle: bound not completed")
		}
		ctx.R.Trans += st.Steps
		nodes += st.Nodes
	}
	ctx.R.States = ctx.R.Evals + nodes
	ctx.R.Extra["bound_completed"] = bound
}
