//go:build verif

package memorylimiterprocessor

// C18 (processor part): while refusing, every consume call of the memory-limiter processor returns a non-permanent error
// and forwards nothing; while not refusing, the payload is forwarded unmodified and downstream's result is returned.
// Finite grid, enumerated completely: 4 signals x {refusing, not refusing} x downstream {ok, error, permanent error} x
// state history {fresh, was refusing before, was accepting before}; the limiter state is driven through the real
// CheckMemLimits with the package's public memory-reading seam.

import (
	"strings"
	"reflect"
	"unsafe"
	"context"
	"encoding/json"
	"errors"
	"fmt"
	"runtime"
	"testing"
	"time"

	"go.opentelemetry.io/collector/consumer"
	"go.opentelemetry.io/collector/consumer/consumererror"
	"go.opentelemetry.io/collector/consumer/xconsumer"
	"go.opentelemetry.io/collector/internal/memorylimiter"
	"go.opentelemetry.io/collector/pdata/plog"
	"go.opentelemetry.io/collector/pdata/pmetric"
	"go.opentelemetry.io/collector/pdata/pprofile"
	"go.opentelemetry.io/collector/pdata/ptrace"
	"go.opentelemetry.io/collector/processor/memorylimiterprocessor/internal/metadata"
	"go.opentelemetry.io/collector/processor/processortest"

	"VERIF/vr"
)

type c18pCase struct {
	Signal     string `json:"signal"`
	History    []bool `json:"refusing_history"` // limiter state sequence; the call is made in the last state
	Downstream string `json:"downstream"`       // ok | error | permanent
	Reloaded   bool   `json:"after_a_reload_with_other_limits,omitempty"`
}

func c18pRun(c c18pCase) (string, string) {
	const mib = 1024 * 1024
	reading := uint64(0)
	memorylimiter.ReadMemStatsFn = func(m *runtime.MemStats) { m.Alloc = reading }
	defer func() { memorylimiter.ReadMemStatsFn = runtime.ReadMemStats }()
	cfg := &Config{CheckInterval: time.Hour, MemoryLimitMiB: 100, MemorySpikeLimitMiB: 20, MinGCIntervalWhenSoftLimited: time.Hour, MinGCIntervalWhenHardLimited: time.Hour}
	// the factory as NewFactory builds it (its cache map allocated whatever its key type is)
	f := &factory{}
	mf := reflect.ValueOf(f).Elem().FieldByName("memoryLimiters")
	reflect.NewAt(mf.Type(), unsafe.Pointer(mf.UnsafeAddr())).Elem().Set(reflect.MakeMap(mf.Type()))
	set := processortest.NewNopSettings(metadata.Type)
	if c.Reloaded {
		// the factory outlives a configuration reload: the same component id was created, started and shut down before with
		// OTHER limits (200/20 MiB); what is created now follows the configuration it is created with
		old := &Config{CheckInterval: time.Hour, MemoryLimitMiB: 200, MemorySpikeLimitMiB: 20, MinGCIntervalWhenSoftLimited: time.Hour, MinGCIntervalWhenHardLimited: time.Hour}
		nl, _ := consumer.NewLogs(func(context.Context, plog.Logs) error { return nil })
		if op, err := f.createLogs(context.Background(), set, old, nl); err == nil {
			if err := op.Start(context.Background(), nil); err == nil {
				_ = op.Shutdown(context.Background())
			}
		}
	}
	var downErr error
	switch c.Downstream {
	case "error":
		downErr = errors.New("downstream failed")
	case "permanent":
		downErr = consumererror.NewPermanent(errors.New("downstream permanent"))
	}
	calls := 0
	var gotPtr, sentPtr string
	ctx := context.Background()
	var consume func() error
	var start func() error
	var shutdown func() error
	var check func()
	desc := fmt.Sprintf("%+v", c)
	switch c.Signal {
	case "logs":
		next, _ := consumer.NewLogs(func(_ context.Context, ld plog.Logs) error {
			calls++
			gotPtr = fmt.Sprint(ld.ResourceLogs().At(0).Resource().Attributes().AsRaw(), ld.LogRecordCount(), ld.IsReadOnly())
			return downErr
		})
		p, err := f.createLogs(ctx, set, cfg, next)
		if err != nil {
			return "create-error", desc + ": " + err.Error()
		}
		ld := plog.NewLogs()
		ld.ResourceLogs().AppendEmpty().Resource().Attributes().PutStr("k", "v")
		ld.ResourceLogs().At(0).ScopeLogs().AppendEmpty().LogRecords().AppendEmpty()
		sentPtr = fmt.Sprint(ld.ResourceLogs().At(0).Resource().Attributes().AsRaw(), ld.LogRecordCount(), ld.IsReadOnly())
		consume = func() error { return p.ConsumeLogs(ctx, ld) }
		start, shutdown = func() error { return p.Start(ctx, nil) }, func() error { return p.Shutdown(ctx) }
	case "traces":
		next, _ := consumer.NewTraces(func(_ context.Context, td ptrace.Traces) error {
			calls++
			gotPtr = fmt.Sprint(td.ResourceSpans().At(0).Resource().Attributes().AsRaw(), td.SpanCount(), td.IsReadOnly())
			return downErr
		})
		p, err := f.createTraces(ctx, set, cfg, next)
		if err != nil {
			return "create-error", desc + ": " + err.Error()
		}
		td := ptrace.NewTraces()
		td.ResourceSpans().AppendEmpty().Resource().Attributes().PutStr("k", "v")
		td.ResourceSpans().At(0).ScopeSpans().AppendEmpty().Spans().AppendEmpty()
		sentPtr = fmt.Sprint(td.ResourceSpans().At(0).Resource().Attributes().AsRaw(), td.SpanCount(), td.IsReadOnly())
		consume = func() error { return p.ConsumeTraces(ctx, td) }
		start, shutdown = func() error { return p.Start(ctx, nil) }, func() error { return p.Shutdown(ctx) }
	case "metrics":
		next, _ := consumer.NewMetrics(func(_ context.Context, md pmetric.Metrics) error {
			calls++
			gotPtr = fmt.Sprint(md.ResourceMetrics().At(0).Resource().Attributes().AsRaw(), md.DataPointCount(), md.IsReadOnly())
			return downErr
		})
		p, err := f.createMetrics(ctx, set, cfg, next)
		if err != nil {
			return "create-error", desc + ": " + err.Error()
		}
		md := pmetric.NewMetrics()
		md.ResourceMetrics().AppendEmpty().Resource().Attributes().PutStr("k", "v")
		md.ResourceMetrics().At(0).ScopeMetrics().AppendEmpty().Metrics().AppendEmpty().SetEmptyGauge().DataPoints().AppendEmpty()
		sentPtr = fmt.Sprint(md.ResourceMetrics().At(0).Resource().Attributes().AsRaw(), md.DataPointCount(), md.IsReadOnly())
		consume = func() error { return p.ConsumeMetrics(ctx, md) }
		start, shutdown = func() error { return p.Start(ctx, nil) }, func() error { return p.Shutdown(ctx) }
	case "profiles":
		next, _ := xconsumer.NewProfiles(func(_ context.Context, pd pprofile.Profiles) error {
			calls++
			gotPtr = fmt.Sprint(pd.ResourceProfiles().At(0).Resource().Attributes().AsRaw(), pd.SampleCount(), pd.IsReadOnly())
			return downErr
		})
		p, err := f.createProfiles(ctx, set, cfg, next)
		if err != nil {
			return "create-error", desc + ": " + err.Error()
		}
		pd := pprofile.NewProfiles()
		pd.ResourceProfiles().AppendEmpty().Resource().Attributes().PutStr("k", "v")
		pd.ResourceProfiles().At(0).ScopeProfiles().AppendEmpty().Profiles().AppendEmpty().Sample().AppendEmpty()
		sentPtr = fmt.Sprint(pd.ResourceProfiles().At(0).Resource().Attributes().AsRaw(), pd.SampleCount(), pd.IsReadOnly())
		consume = func() error { return p.ConsumeProfiles(ctx, pd) }
		start, shutdown = func() error { return p.Start(ctx, nil) }, func() error { return p.Shutdown(ctx) }
	}
	// the limiter shared by the factory for this configuration
	mlp, err := f.getMemoryLimiter(set, cfg)
	if err != nil {
		return "limiter-lookup", desc + ": " + err.Error()
	}
	check = func() { mlp.memlimiter.CheckMemLimits() }
	if err := start(); err != nil {
		return "start-error", desc + ": " + err.Error()
	}
	defer func() { _ = shutdown() }()
	refusing := false
	for _, r := range c.History {
		if r {
			reading = 90 * mib // above soft (80 MiB), below hard: no GC due (interval 1h)
		} else {
			reading = 10 * mib
		}
		check()
		refusing = r
	}
	cerr := consume()
	if refusing {
		if cerr == nil {
			return "refusing-but-accepted", desc + ": the processor returned nil while the limiter refuses"
		}
		if consumererror.IsPermanent(cerr) {
			return "refusal-is-permanent", desc + ": the refusal error is permanent: " + cerr.Error()
		}
		if calls != 0 {
			return "refusing-but-forwarded", desc + ": downstream was invoked while refusing"
		}
		return "", ""
	}
	if calls != 1 {
		return "not-forwarded", fmt.Sprintf("%s: downstream invoked %d times while not refusing", desc, calls)
	}
	if gotPtr != sentPtr {
		return "payload-modified", fmt.Sprintf("%s: downstream observed %s, sent %s", desc, gotPtr, sentPtr)
	}
	if (cerr == nil) != (downErr == nil) || (cerr != nil && !errors.Is(cerr, downErr) && cerr.Error() != downErr.Error()) {
		return "downstream-result-not-returned", fmt.Sprintf("%s: processor returned %v, downstream returned %v", desc, cerr, downErr)
	}
	if downErr != nil && consumererror.IsPermanent(downErr) != consumererror.IsPermanent(cerr) {
		return "downstream-result-class-changed", fmt.Sprintf("%s: processor returned %v, downstream returned %v", desc, cerr, downErr)
	}
	return "", ""
}

func TestVerifProc(t *testing.T) {
	ctx := vr.Start("C18", "processor")
	if ctx == nil {
		t.Skip("not driven")
	}
	defer ctx.Finish()
	if ctx.ReplayRaw != nil {
		var rf struct {
			Replay c18pCase `json:"replay"`
		}
		if err := json.Unmarshal(ctx.ReplayRaw, &rf); err != nil {
			t.Fatal(err)
		}
		sig, what := c18pRun(rf.Replay)
		t.Logf("%s %s", sig, what)
		if sig != "" {
			ctx.Violate(sig+":"+rf.Replay.Signal, what, rf.Replay)
		}
		return
	}
	hists := [][]bool{{false}, {true}, {true, false}, {false, true}, {true, true}, {true, false, true}, {false, true, false}}
	for _, sig := range []string{"logs", "traces", "metrics", "profiles"} {
		for _, h := range hists {
			for _, d := range []string{"ok", "error", "permanent", "ok+reloaded"} {
				c := c18pCase{Signal: sig, History: h, Downstream: strings.TrimSuffix(d, "+reloaded"), Reloaded: strings.HasSuffix(d, "+reloaded")}
				ctx.R.Evals++
				ctx.R.Trans += int64(len(h) + 1)
				ctx.Nontrivial(vr.Hash(fmt.Sprint(c)))
				s, what := c18pRun(c)
				if s != "" {
					ctx.Violate(s+":"+sig, what, c)
					ctx.Outcome(s)
				} else {
					ctx.R.Traces++
					ctx.Outcome(fmt.Sprintf("refusing=%v", h[len(h)-1]))
				}
				ctx.Sample(c)
			}
		}
	}
	ctx.R.States = ctx.R.Evals
}
