//go:build verif

package memorylimiterextension

// C18 (extension part) — "(and the extension's check)": the memory limiter extension built by its factory from every
// configuration of a small grid; every sequence of memory readings up to a depth bound is fed through the limiter's real
// CheckMemLimits (public memory-reading seam); after every check the extension's MustRefuse() must be true exactly when
// the latest reading is at or above limit minus spike limit. Start/Shutdown of the extension start and stop the checker.

import (
	"context"
	"encoding/json"
	"fmt"
	"runtime"
	"testing"
	"time"

	"go.opentelemetry.io/collector/extension/extensiontest"
	"go.opentelemetry.io/collector/internal/memorylimiter"

	"VERIF/vr"
)

type c18eCase struct {
	LimitMiB uint32   `json:"limit_mib"`
	SpikeMiB uint32   `json:"spike_limit_mib"`
	Readings []uint64 `json:"readings_mib"`
}

func c18eRun(c c18eCase) (string, string) {
	const mib = 1024 * 1024
	reading := uint64(0)
	memorylimiter.ReadMemStatsFn = func(m *runtime.MemStats) { m.Alloc = reading }
	defer func() { memorylimiter.ReadMemStatsFn = runtime.ReadMemStats }()
	f := NewFactory()
	cfg := f.CreateDefaultConfig().(*Config)
	cfg.CheckInterval = time.Hour
	cfg.MemoryLimitMiB, cfg.MemorySpikeLimitMiB = c.LimitMiB, c.SpikeMiB
	// forced collections never help in this grid (the reading is what the seam says) and are not rate limited
	cfg.MinGCIntervalWhenSoftLimited, cfg.MinGCIntervalWhenHardLimited = 0, 0
	ext, err := f.Create(context.Background(), extensiontest.NewNopSettings(f.Type()), cfg)
	if err != nil {
		return "create-error", fmt.Sprintf("%+v: %v", c, err)
	}
	ml, ok := ext.(*memoryLimiterExtension)
	if !ok {
		return "harness", fmt.Sprintf("unexpected extension type %T", ext)
	}
	if err := ext.Start(context.Background(), nil); err != nil {
		return "start-error", fmt.Sprintf("%+v: %v", c, err)
	}
	spike := uint64(c.SpikeMiB) * mib
	if spike == 0 {
		spike = uint64(c.LimitMiB) * mib / 5 // documented default: 20% of the limit
	}
	soft := uint64(c.LimitMiB)*mib - spike
	for i, r := range c.Readings {
		reading = r * mib
		ml.memLimiter.CheckMemLimits()
		want := reading >= soft
		if got := ml.MustRefuse(); got != want {
			_ = ext.Shutdown(context.Background())
			return fmt.Sprintf("extension-refuse:got=%v,want=%v", got, want), fmt.Sprintf("%+v: after reading %d (%d MiB, soft limit %d MiB) the extension's MustRefuse() is %v", c, i, r, soft/mib, got)
		}
	}
	if err := ext.Shutdown(context.Background()); err != nil {
		return "shutdown-error", fmt.Sprintf("%+v: %v", c, err)
	}
	if err := ext.Shutdown(context.Background()); err == nil {
		return "second-shutdown-accepted", fmt.Sprintf("%+v: a second Shutdown of the stopped extension returned nil (the checker was not stopped by the first one?)", c)
	}
	return "", ""
}

func TestVerifExt(t *testing.T) {
	ctx := vr.Start("C18", "extension")
	if ctx == nil {
		t.Skip("not driven")
	}
	defer ctx.Finish()
	if ctx.ReplayRaw != nil {
		var rf struct {
			Replay c18eCase `json:"replay"`
		}
		if err := json.Unmarshal(ctx.ReplayRaw, &rf); err != nil {
			t.Fatal(err)
		}
		sig, what := c18eRun(rf.Replay)
		t.Logf("%s %s", sig, what)
		if sig != "" {
			ctx.Violate(sig, what, rf.Replay)
		}
		return
	}
	depth := ctx.Param("depth", 4)
	for _, lim := range [][2]uint32{{100, 20}, {100, 0}, {50, 49}} {
		soft := uint64(lim[0] - lim[1])
		if lim[1] == 0 {
			soft = uint64(lim[0]) - uint64(lim[0])/5
		}
		alpha := []uint64{0, soft - 1, soft, soft + 1, uint64(lim[0]), uint64(lim[0]) + 10}
		var rec func(cur []uint64)
		rec = func(cur []uint64) {
			if len(cur) > 0 {
				c := c18eCase{LimitMiB: lim[0], SpikeMiB: lim[1], Readings: append([]uint64(nil), cur...)}
				ctx.R.Evals++
				ctx.R.Trans += int64(len(cur))
				ctx.Nontrivial(vr.Hash(fmt.Sprint(c)))
				sig, what := c18eRun(c)
				if sig != "" {
					ctx.Violate(sig, what, c)
					ctx.Outcome(sig)
					return
				}
				ctx.R.Traces++
				ctx.Outcome("agree")
				if ctx.R.Evals%997 == 3 {
					ctx.Sample(c)
				}
			}
			if len(cur) == depth {
				return
			}
			for _, a := range alpha {
				rec(append(cur, a))
			}
		}
		rec(nil)
	}
	ctx.R.States = ctx.R.Evals
}
