//go:build verif

package queuebatch

// C02, sequential unit — "every sizer, capacity ... every sequence of request sizes including zero-sized and
// larger-than-capacity requests": ALL operation sequences up to a depth bound over
//   Offer(size) for size in {0,1,2,3}, Read, Done(oldest in-flight), Done(newest in-flight)
// on the real memory queue and the real persistent queue, capacities 1..3 (items-like sizer) and a requests-like sizer,
// single thread (each sequence runs as one thread under the scheduler so that an unexpected wait is a deadlock verdict,
// not a hang), compared step by step with the sequential bounded-FIFO model:
//   memory: refusal (full / too large) exactly as the model says, zero-sized offers accepted and never handed over, FIFO,
//           Size() == summed size of accepted-but-unfinished requests after every step;
//   persistent: refusal exactly when reported size + request size > capacity, FIFO, 0 <= Size() <= capacity;
//   both: after draining and finishing everything Size() == 0 and every accepted non-empty request was handed over once.

import (
	"context"
	"encoding/json"
	"errors"
	"fmt"
	"sort"
	"strconv"
	"strings"
	"testing"

	"go.opentelemetry.io/collector/component"
	"go.opentelemetry.io/collector/component/componenttest"
	"go.opentelemetry.io/collector/pipeline"

	"VERIF/vr"
	"VERIF/vs"
)

type c02SeqCase struct {
	Kind     string `json:"kind"` // mem | pq
	Cap      int64  `json:"capacity"`
	Requests bool   `json:"requests_sizer"` // every request counts 1 whatever its size
	Ops      []int  `json:"ops"`            // 0..3 offer(size) | 4 read | 5 done(oldest) | 6 done(newest)
	// StartIndex (persistent queue): the queue starts on a storage whose read and write index both equal this value - the
	// state of a queue that has already accepted and finished that many requests in earlier incarnations (a non-initial
	// start state: behaviour must not depend on how far the indices have advanced)
	StartIndex uint64 `json:"start_index,omitempty"`
}

func (c c02SeqCase) String() string {
	var s []string
	for _, o := range c.Ops {
		switch {
		case o < 4:
			s = append(s, fmt.Sprintf("offer(%d)", o))
		case o == 4:
			s = append(s, "read")
		case o == 5:
			s = append(s, "done(oldest)")
		default:
			s = append(s, "done(newest)")
		}
	}
	if c.StartIndex > 0 {
		return fmt.Sprintf("%s cap=%d requests-sizer=%v start-index=%d [%s]", c.Kind, c.Cap, c.Requests, c.StartIndex, strings.Join(s, " "))
	}
	return fmt.Sprintf("%s cap=%d requests-sizer=%v [%s]", c.Kind, c.Cap, c.Requests, strings.Join(s, " "))
}

type c02SeqReqSizer struct{}

func (c02SeqReqSizer) Sizeof(c02Req) int64 { return 1 }

// result: "" ok | "inapplicable" (op not enabled in the model: the sequence is a duplicate of its prefix) | violation text
func c02SeqRun(c c02SeqCase) (sig, what string, applicable bool) {
	applicable = true
	var res, resWhat string
	body := func() {
		res, resWhat, applicable = "", "", true
		fail := func(s, w string) { res, resWhat = s, c.String()+": "+w }
		bg := context.Background()
		var rq readableQueue[c02Req]
		sizeOf := func(s int64) int64 {
			if c.Requests {
				return 1
			}
			return s
		}
		if c.Kind == "pq" {
			set := persistentQueueSettings[c02Req]{
				sizer: c02Sizer{}, capacity: c.Cap, signal: pipeline.SignalTraces, storageID: component.MustNewID("st"), encoding: c02Enc{},
				id: component.MustNewID("x"), telemetry: componenttest.NewNopTelemetrySettings(),
			}
			if c.Requests {
				set.sizer = c02SeqReqSizer{}
			}
			rq = newPersistentQueue[c02Req](set)
		} else {
			set := memoryQueueSettings[c02Req]{sizer: c02Sizer{}, capacity: c.Cap}
			if c.Requests {
				set.sizer = c02SeqReqSizer{}
			}
			rq = newMemoryQueue[c02Req](set)
		}
		stored := map[string][]byte{}
		if c.StartIndex > 0 {
			stored[readIndexKey] = itemIndexToBytes(c.StartIndex)
			stored[writeIndexKey] = itemIndexToBytes(c.StartIndex)
		}
		host := c02Host{ext: map[component.ID]component.Component{component.MustNewID("st"): &c02Ext{cl: &c02Store{m: stored}}}}
		if err := rq.Start(bg, host); err != nil {
			panic(err)
		}
		type item struct {
			id   int
			size int64
			d    Done
		}
		var queued, inflight []item
		handed := map[int]int{}
		accepted := map[int]bool{}
		msize := int64(0) // model: summed size of accepted-but-unfinished requests
		next := 0
		check := func(step int) bool {
			n := rq.Size()
			if n < 0 || n > c.Cap {
				fail("seq:size-out-of-bounds", fmt.Sprintf("after step %d Size()=%d, capacity %d", step, n, c.Cap))
				return false
			}
			if c.Kind == "mem" && n != msize {
				fail("seq:size-differs-from-model", fmt.Sprintf("after step %d Size()=%d, accepted-but-unfinished requests sum to %d", step, n, msize))
				return false
			}
			return true
		}
		for step, op := range c.Ops {
			switch {
			case op < 4:
				raw := int64(op)
				sz := sizeOf(raw)
				if c.Kind == "pq" && raw == 0 && !c.Requests {
					applicable = false // empty requests and the persistent queue: outside the statement ("every non-empty request")
					return
				}
				next++
				before := rq.Size()
				err := rq.Offer(bg, c02Req{next, raw})
				want := "ok"
				ref := msize
				if c.Kind == "pq" {
					ref = before // the statement ties refusal to the REPORTED size
				}
				switch {
				case c.Kind == "mem" && sz == 0:
					want = "ok-ignored"
				case c.Kind == "mem" && sz > c.Cap:
					want = "toolarge"
				case ref+sz > c.Cap:
					want = "full"
				}
				got := "ok"
				switch {
				case err == nil:
				case errors.Is(err, ErrQueueIsFull):
					got = "full"
				case errors.Is(err, errSizeTooLarge):
					got = "toolarge"
				default:
					got = "other:" + err.Error()
				}
				if want == "ok-ignored" {
					if got != "ok" {
						fail("seq:offer-result", fmt.Sprintf("step %d: empty request returned %s", step, got))
						return
					}
				} else if got != want && !(c.Kind == "pq" && want == "full" && got == "toolarge") {
					fail("seq:offer-result", fmt.Sprintf("step %d: offer of size %d with size %d/%d returned %s, the model says %s", step, sz, ref, c.Cap, got, want))
					return
				} else if got == "ok" {
					queued = append(queued, item{next, sz, nil})
					accepted[next] = true
					msize += sz
				}
			case op == 4:
				if len(queued) == 0 {
					applicable = false
					return
				}
				_, r, d, ok := rq.Read(bg)
				if !ok {
					fail("seq:read-failed", fmt.Sprintf("step %d: Read returned ok=false on a running, non-empty queue", step))
					return
				}
				if r.ID != queued[0].id {
					fail("seq:fifo", fmt.Sprintf("step %d: Read handed over request %d, the oldest accepted one is %d", step, r.ID, queued[0].id))
					return
				}
				handed[r.ID]++
				it := queued[0]
				it.d = d
				queued = queued[1:]
				inflight = append(inflight, it)
			default:
				if len(inflight) == 0 || (op == 6 && len(inflight) < 2) {
					applicable = false
					return
				}
				i := 0
				if op == 6 {
					i = len(inflight) - 1
				}
				inflight[i].d.OnDone(nil)
				msize -= inflight[i].size
				inflight = append(inflight[:i], inflight[i+1:]...)
			}
			if !check(step) {
				return
			}
		}
		// drain and finish everything
		for len(queued) > 0 {
			_, r, d, ok := rq.Read(bg)
			if !ok || r.ID != queued[0].id {
				fail("seq:fifo", fmt.Sprintf("drain: Read returned (%d, ok=%v), expected %d", r.ID, ok, queued[0].id))
				return
			}
			handed[r.ID]++
			d.OnDone(nil)
			queued = queued[1:]
		}
		for _, it := range inflight {
			it.d.OnDone(nil)
		}
		if n := rq.Size(); n != 0 {
			fail("seq:size-not-zero-when-idle", fmt.Sprintf("every accepted request has finished but Size()=%d", n))
			return
		}
		for id := range accepted {
			if handed[id] != 1 {
				fail("seq:hand-off-count", fmt.Sprintf("request %d was handed over %d times", id, handed[id]))
				return
			}
		}
		_ = rq.Shutdown(bg)
	}
	s := vs.Run(nil, body)
	if v := s.Verdict(); v != "" {
		if s.Deadlock {
			return "seq:unexpected-wait", c.String() + ": " + v, true
		}
		return "seq:panic", c.String() + ": " + v + "\n" + s.PanicStack, true
	}
	return res, resWhat, applicable
}

func TestVerifSeq(t *testing.T) {
	ctx := vr.Start("C02", "seq")
	if ctx == nil {
		t.Skip("not driven")
	}
	defer ctx.Finish()
	if ctx.ReplayRaw != nil {
		var rf struct {
			Replay c02SeqCase `json:"replay"`
		}
		if err := json.Unmarshal(ctx.ReplayRaw, &rf); err != nil {
			t.Fatal(err)
		}
		sig, what, _ := c02SeqRun(rf.Replay)
		t.Logf("%s %s", sig, what)
		if sig != "" {
			ctx.Violate(sig, what, rf.Replay)
		}
		return
	}
	depth := ctx.Param("depth", 6)
	var n int64
	for _, kind := range []string{"mem", "pq"} {
		for _, reqSizer := range []bool{false, true} {
			for _, cap := range []int64{1, 2, 3} {
				var rec func(ops []int)
				rec = func(ops []int) {
					if len(ops) > 0 {
						c := c02SeqCase{Kind: kind, Cap: cap, Requests: reqSizer, Ops: append([]int(nil), ops...)}
						sig, what, applicable := c02SeqRun(c)
						if !applicable {
							return // the last op is not enabled here: nothing new below this node
						}
						ctx.R.Evals++
						ctx.R.Trans++
						ctx.Nontrivial(vr.Hash(kind, reqSizer, cap, fmt.Sprint(ops)))
						if sig != "" {
							ctx.Violate(sig+":"+kind, what, c)
							ctx.Outcome(sig)
							return
						}
						ctx.R.Traces++
						ctx.Outcome("ok:" + kind)
						if ctx.R.Evals%20011 == 3 {
							ctx.Sample(c)
						}
					}
					if len(ops) == depth {
						return
					}
					for op := 0; op < 7; op++ {
						if reqSizer && op > 1 && op < 4 {
							continue // with the requests sizer sizes 1..3 are the same request
						}
						if len(ops) == 1 {
							n++
							if !ctx.Mine(n) {
								continue
							}
						}
						rec(append(ops, op))
					}
				}
				rec(nil)
			}
		}
	}
	// non-initial start states of the persistent queue: the indices have advanced to just below a value at which some
	// rendering of the index (any base 11..36, decimal widths, binary widths) coincides with one of the queue's own
	// bookkeeping keys or changes its width; every operation sequence up to depth `idxdepth` from there
	starts := map[uint64]bool{8: true, 98: true, 998: true, 254: true, 65534: true, 4294967294: true}
	for _, key := range []string{readIndexKey, writeIndexKey, currentlyDispatchedItemsKey, queueSizeKey} {
		for base := 11; base <= 36; base++ {
			if v, err := strconv.ParseUint(key, base, 64); err == nil && v > 1 {
				starts[v-1] = true
				starts[v-2] = true
			}
		}
	}
	var startList []uint64
	for v := range starts {
		startList = append(startList, v)
	}
	sort.Slice(startList, func(i, j int) bool { return startList[i] < startList[j] })
	ctx.R.Extra["start_indices"] = len(startList)
	idxDepth := ctx.Param("idxdepth", 4)
	for _, st := range startList {
		n++
		if !ctx.Mine(n) {
			continue
		}
		var rec func(ops []int)
		rec = func(ops []int) {
			if len(ops) > 0 {
				c := c02SeqCase{Kind: "pq", Cap: 3, Requests: true, Ops: append([]int(nil), ops...), StartIndex: st}
				sig, what, applicable := c02SeqRun(c)
				if !applicable {
					return
				}
				ctx.R.Evals++
				ctx.R.Trans++
				ctx.Nontrivial(vr.Hash("start", st, fmt.Sprint(ops)))
				if sig != "" {
					ctx.Violate(sig+":pq", what, c)
					ctx.Outcome(sig)
					return
				}
				ctx.R.Traces++
				ctx.Outcome("ok:pq:advanced-indices")
			}
			if len(ops) == idxDepth {
				return
			}
			for _, op := range []int{1, 4, 5} { // offer(1), read, done(oldest)
				rec(append(ops, op))
			}
		}
		rec(nil)
	}
	ctx.R.States = ctx.R.Evals
}
