//go:build verif

package queuebatch

// C02 — sending queue: exactly-once hand-off, FIFO, bounded size, no lost wake-ups.
// Engine E1: all interleavings (deviation-bounded) of producers / consumers / completions / cancellations / shutdown
// on the real memoryQueue, persistentQueue, asyncQueue and cond (instrumented copies), judged by a linearizability
// check against a sequential bounded-queue model plus deadlock detection.

import (
	"context"
	"encoding/binary"
	"encoding/json"
	"errors"
	"fmt"
	"sort"
	"strings"
	"testing"

	"go.opentelemetry.io/collector/component"
	"go.opentelemetry.io/collector/component/componenttest"
	"go.opentelemetry.io/collector/extension/xextension/storage"
	"go.opentelemetry.io/collector/pipeline"

	"VERIF/vr"
	"VERIF/vs"
)

type c02Req struct {
	ID   int
	Size int64
}

type c02Sizer struct{}

func (c02Sizer) Sizeof(r c02Req) int64 { return r.Size }

type c02Enc struct{}

func (c02Enc) Marshal(r c02Req) ([]byte, error) {
	b := binary.LittleEndian.AppendUint64(nil, uint64(r.ID))
	return binary.LittleEndian.AppendUint64(b, uint64(r.Size)), nil
}
func (c02Enc) Unmarshal(b []byte) (c02Req, error) {
	if len(b) != 16 {
		return c02Req{}, errors.New("bad")
	}
	return c02Req{int(binary.LittleEndian.Uint64(b)), int64(binary.LittleEndian.Uint64(b[8:]))}, nil
}

// plain in-memory storage client (no crashes here; crash behaviour is C01)
type c02Store struct{ m map[string][]byte }

func (s *c02Store) Get(_ context.Context, k string) ([]byte, error) { return s.m[k], nil }
func (s *c02Store) Set(_ context.Context, k string, v []byte) error { s.m[k] = v; return nil }
func (s *c02Store) Delete(_ context.Context, k string) error       { delete(s.m, k); return nil }
func (s *c02Store) Batch(_ context.Context, ops ...*storage.Operation) error {
	for _, op := range ops {
		switch op.Type {
		case storage.Get:
			op.Value = s.m[op.Key]
		case storage.Set:
			s.m[op.Key] = op.Value
		case storage.Delete:
			delete(s.m, op.Key)
		}
	}
	return nil
}
func (s *c02Store) Close(context.Context) error { return nil }

type c02Ext struct {
	component.StartFunc
	component.ShutdownFunc
	cl storage.Client
}

func (e *c02Ext) GetClient(context.Context, component.Kind, component.ID, string) (storage.Client, error) {
	return e.cl, nil
}

type c02Host struct{ ext map[component.ID]component.Component }

func (h c02Host) GetExtensions() map[component.ID]component.Component { return h.ext }

type c02Offer struct {
	ID   int   `json:"id"`
	Size int64 `json:"size"`
	Ctx  int   `json:"ctx"` // 0 = background, k>0 = cancellable context k
}

type c02Scn struct {
	Name          string       `json:"name"`
	Kind          string       `json:"kind"` // mem | pq
	Cap           int64        `json:"cap"`
	Block         bool         `json:"block"`
	WFR           bool         `json:"wfr"`
	Consumers     int          `json:"consumers"`      // asyncQueue consumers (0 = manual reads by the harness)
	ConsumerPoint bool         `json:"consumer_point"` // consumer yields between hand-off and OnDone
	Producers     [][]c02Offer `json:"producers"`
	Cancel        []int        `json:"cancel"`    // contexts cancelled (in order) by a canceller thread
	Observers     int          `json:"observers"` // Size() calls by an observer thread
	Prefill       []c02Offer   `json:"prefill"`   // offered by the main thread before anything is spawned
	PreRead       int          `json:"preread"`   // manual: items read by the main thread before spawning
	Completer     bool         `json:"completer"` // manual: a thread completes the pre-read items
	Shutdown      string       `json:"shutdown"`  // end | concurrent | none
	Big           bool         `json:"big"`       // many threads: explored with bound-1 (the small ones with bound)
	// FullOK: the scenario may legitimately end with producers blocked on a full queue that nobody drains. A final state
	// in which every thread is blocked is then judged by the statement's liveness clause instead of being a deadlock per
	// se: a producer may stay blocked only if its request does NOT fit (accepted-but-unfinished size + its size > capacity).
	FullOK bool `json:"full_ok,omitempty"`
	// HoldUntil: every consumer keeps the request it was handed (does not finish it, does not come back for more) until this
	// many requests have been handed over in total: an accepted request then reaches a consumer only if an IDLE consumer is
	// woken for it ("every ... request whose enqueue succeeded is handed to a consumer")
	HoldUntil int `json:"hold_until,omitempty"`
}

const (
	opOffer = iota
	opRead
	opDone
	opSize
)

type c02Op struct {
	Kind      int
	ID        int
	Size      int64
	Res       string // offer: ok | full | toolarge | invalid | ctx | result:<x> | other:<x>
	N         int64  // size observed
	Ctx       int
	Call, Ret int
	Who       string
}

func (o *c02Op) String() string {
	switch o.Kind {
	case opOffer:
		return fmt.Sprintf("[%d,%d]%s:Offer(id=%d,size=%d,ctx=%d)=%s", o.Call, o.Ret, o.Who, o.ID, o.Size, o.Ctx, o.Res)
	case opRead:
		return fmt.Sprintf("[%d,%d]%s:Read()=%d", o.Call, o.Ret, o.Who, o.ID)
	case opDone:
		return fmt.Sprintf("[%d,%d]%s:Done(%d)", o.Call, o.Ret, o.Who, o.ID)
	}
	return fmt.Sprintf("[%d,%d]%s:Size()=%d", o.Call, o.Ret, o.Who, o.N)
}

type c02Hist struct {
	clk          int
	ops          []*c02Op
	cancelAt     map[int]int // ctx -> time of cancel
	shutdownCall int
	shutdownRet  int
	finalSize    int64
	finished     bool
	handed       map[int]int
	lastRet      map[string]int // consumer thread -> time of its previous consume return
	sizes        map[int]int64
}

func (h *c02Hist) tick() int { h.clk++; return h.clk }

func c02Classify(err error, id int) string {
	switch {
	case err == nil:
		return "ok"
	case errors.Is(err, ErrQueueIsFull):
		return "full"
	case errors.Is(err, errSizeTooLarge):
		return "toolarge"
	case errors.Is(err, errInvalidSize):
		return "invalid"
	case errors.Is(err, context.Canceled):
		return "ctx"
	case strings.HasPrefix(err.Error(), "result-"):
		return "result:" + strings.TrimPrefix(err.Error(), "result-")
	}
	return "other:" + err.Error()
}

func c02Build(sc *c02Scn) readableQueue[c02Req] {
	if sc.Kind == "pq" {
		return newPersistentQueue[c02Req](persistentQueueSettings[c02Req]{
			sizer: c02Sizer{}, capacity: sc.Cap, blockOnOverflow: sc.Block, signal: pipeline.SignalTraces,
			storageID: component.MustNewID("st"), encoding: c02Enc{}, id: component.MustNewID("x"), telemetry: componenttest.NewNopTelemetrySettings(),
		})
	}
	return newMemoryQueue[c02Req](memoryQueueSettings[c02Req]{sizer: c02Sizer{}, capacity: sc.Cap, waitForResult: sc.WFR, blockOnOverflow: sc.Block})
}

func c02Body(sc *c02Scn, h *c02Hist) func() {
	return func() {
		*h = c02Hist{cancelAt: map[int]int{}, handed: map[int]int{}, lastRet: map[string]int{}, sizes: map[int]int64{}}
		bg := context.Background()
		ctxs := map[int]context.Context{0: bg}
		cancels := map[int]context.CancelFunc{}
		for _, p := range append(append([][]c02Offer{}, sc.Producers...), sc.Prefill) {
			for _, o := range p {
				h.sizes[o.ID] = o.Size
				if _, ok := ctxs[o.Ctx]; !ok {
					ctxs[o.Ctx], cancels[o.Ctx] = context.WithCancel(bg)
				}
			}
		}
		rq := c02Build(sc)
		var q Queue[c02Req] = rq
		consume := func(_ context.Context, r c02Req, d Done) {
			if vs.Killed() {
				return
			}
			who := vs.CurName()
			t := h.tick()
			h.ops = append(h.ops, &c02Op{Kind: opRead, ID: r.ID, Call: h.lastRet[who], Ret: t, Who: who})
			h.handed[r.ID]++
			if sc.HoldUntil > 0 {
				vs.Block(func() bool { return len(h.handed) >= sc.HoldUntil })
			}
			if sc.ConsumerPoint {
				vs.Point()
			}
			op := &c02Op{Kind: opDone, ID: r.ID, Call: h.tick(), Who: who}
			h.ops = append(h.ops, op)
			d.OnDone(fmt.Errorf("result-%d", r.ID))
			op.Ret = h.tick()
			h.lastRet[who] = op.Ret
		}
		if sc.Consumers > 0 {
			q = newAsyncQueue(rq, sc.Consumers, consume)
		}
		host := c02Host{ext: map[component.ID]component.Component{component.MustNewID("st"): &c02Ext{cl: &c02Store{m: map[string][]byte{}}}}}
		if err := q.Start(bg, host); err != nil {
			panic(err)
		}
		offer := func(who string, o c02Offer) {
			op := &c02Op{Kind: opOffer, ID: o.ID, Size: o.Size, Ctx: o.Ctx, Call: h.tick(), Who: who}
			h.ops = append(h.ops, op)
			err := q.Offer(ctxs[o.Ctx], c02Req{o.ID, o.Size})
			op.Res = c02Classify(err, o.ID)
			op.Ret = h.tick()
		}
		for _, o := range sc.Prefill {
			offer("main", o)
		}
		type fl struct {
			id int
			d  Done
		}
		var inflight []fl
		for i := 0; i < sc.PreRead; i++ {
			op := &c02Op{Kind: opRead, Call: h.tick(), Who: "main"}
			h.ops = append(h.ops, op)
			_, r, d, ok := rq.Read(bg)
			if !ok {
				panic("pre-read failed")
			}
			op.ID, op.Ret = r.ID, h.tick()
			h.handed[r.ID]++
			inflight = append(inflight, fl{r.ID, d})
		}
		var wg vs.WaitGroup
		for pi, p := range sc.Producers {
			p := p
			who := fmt.Sprintf("producer%d", pi+1)
			wg.Add(1)
			vs.GoNamed(who, func() {
				for _, o := range p {
					offer(who, o)
				}
				wg.Done()
			})
		}
		if len(sc.Cancel) > 0 {
			wg.Add(1)
			vs.GoNamed("canceller", func() {
				for _, c := range sc.Cancel {
					vs.Point()
					h.cancelAt[c] = h.tick()
					cancels[c]()
				}
				wg.Done()
			})
		}
		if sc.Observers > 0 {
			wg.Add(1)
			vs.GoNamed("observer", func() {
				for i := 0; i < sc.Observers; i++ {
					op := &c02Op{Kind: opSize, Call: h.tick(), Who: "observer"}
					h.ops = append(h.ops, op)
					op.N = q.Size()
					op.Ret = h.tick()
				}
				wg.Done()
			})
		}
		if sc.Completer {
			wg.Add(1)
			vs.GoNamed("completer", func() {
				for _, f := range inflight {
					op := &c02Op{Kind: opDone, ID: f.id, Call: h.tick(), Who: "completer"}
					h.ops = append(h.ops, op)
					f.d.OnDone(nil)
					op.Ret = h.tick()
				}
				wg.Done()
			})
		}
		if sc.Shutdown == "concurrent" {
			wg.Add(1)
			vs.GoNamed("shutdown", func() {
				h.shutdownCall = h.tick()
				_ = q.Shutdown(bg)
				h.shutdownRet = h.tick()
				wg.Done()
			})
		}
		wg.Wait()
		if sc.HoldUntil > 0 {
			// "while the queue is running": the shutdown comes after the hand-overs the scenario is about (a consumer that is
			// never woken leaves this thread, and the holding consumer, blocked: a deadlock verdict)
			vs.Block(func() bool { return len(h.handed) >= sc.HoldUntil })
		}
		if sc.Shutdown == "end" {
			h.shutdownCall = h.tick()
			_ = q.Shutdown(bg)
			h.shutdownRet = h.tick()
		}
		op := &c02Op{Kind: opSize, Call: h.tick(), Who: "main"}
		op.N = q.Size()
		op.Ret = h.tick()
		h.ops = append(h.ops, op)
		h.finalSize = op.N
		for _, c := range cancels {
			c()
		}
		h.finished = true
	}
}

// ---- sequential bounded-queue model + brute-force linearizability check (histories have <= ~16 operations)

type c02Model struct {
	queue    []int
	inflight map[int]bool
	size     int64 // accepted-unfinished (memory queue: the reported size)
	queued   int64
}

func (m *c02Model) clone() *c02Model {
	n := &c02Model{queue: append([]int(nil), m.queue...), inflight: map[int]bool{}, size: m.size, queued: m.queued}
	for k := range m.inflight {
		n.inflight[k] = true
	}
	return n
}

func (m *c02Model) key() string {
	var fl []int
	for k := range m.inflight {
		fl = append(fl, k)
	}
	sort.Ints(fl)
	return fmt.Sprint(m.queue, fl, m.size)
}

// step returns the possible successor models when op is linearized now (empty = not allowed now).
func (m *c02Model) step(sc *c02Scn, h *c02Hist, o *c02Op) []*c02Model {
	pq := sc.Kind == "pq"
	switch o.Kind {
	case opOffer:
		accept := func() []*c02Model {
			if o.Size == 0 && !pq {
				return []*c02Model{m} // zero-sized: accepted and ignored
			}
			// memory: reported size = accepted-unfinished. persistent: reported size lies between the queued size and
			// queued + in-flight (it is reset when the queue runs empty), so only the necessary condition is required.
			// persistent: the reported size is reset when the queue runs empty and clamped at zero afterwards, so it can be
			// anything between 0 and queued + in-flight; the statement ties refusal to the REPORTED size, hence an accept
			// is never contradicted by the model there (a refusal still needs queued + in-flight + size > capacity).
			if !pq && m.size+o.Size > sc.Cap {
				return nil
			}
			n := m.clone()
			n.queue = append(n.queue, o.ID)
			n.size += o.Size
			n.queued += o.Size
			return []*c02Model{n}
		}
		switch {
		case o.Res == "ok" || strings.HasPrefix(o.Res, "result:"):
			return accept()
		case o.Res == "full":
			if sc.Block {
				return nil
			}
			if m.size+o.Size > sc.Cap { // persistent: necessary condition with the upper bound of the reported size
				return []*c02Model{m}
			}
			return nil
		case o.Res == "toolarge":
			if o.Size > sc.Cap && !pq {
				return []*c02Model{m}
			}
			return nil
		case o.Res == "invalid":
			if o.Size < 0 && !pq {
				return []*c02Model{m}
			}
			return nil
		case o.Res == "ctx":
			// legal only if the context was cancelled before the call returned (checked by the caller); the request may
			// have been enqueued already (wait-for-result) or not.
			out := []*c02Model{m}
			if sc.WFR {
				out = append(out, accept()...)
			}
			return out
		}
		return nil
	case opRead:
		if len(m.queue) == 0 || m.queue[0] != o.ID {
			return nil
		}
		n := m.clone()
		n.queue = n.queue[1:]
		n.inflight[o.ID] = true
		n.queued -= h.sizes[o.ID]
		return []*c02Model{n}
	case opDone:
		if !m.inflight[o.ID] {
			return nil
		}
		n := m.clone()
		delete(n.inflight, o.ID)
		n.size -= h.sizes[o.ID]
		return []*c02Model{n}
	case opSize:
		if pq {
			if o.N >= 0 && o.N <= sc.Cap {
				return []*c02Model{m}
			}
			return nil
		}
		if o.N == m.size {
			return []*c02Model{m}
		}
		return nil
	}
	return nil
}

func c02Linearizable(sc *c02Scn, h *c02Hist, fifo bool) bool {
	ops := h.ops
	n := len(ops)
	if n > 30 {
		panic("history too long for the brute-force checker")
	}
	memo := map[string]bool{}
	var rec func(done uint32, m *c02Model) bool
	rec = func(done uint32, m *c02Model) bool {
		if done == (uint32(1)<<n)-1 {
			return true
		}
		k := fmt.Sprint(done, "|", m.key())
		if memo[k] {
			return false
		}
		memo[k] = true
		// an op may be linearized next if no other pending op returned before it was called
		minRet := int(^uint(0) >> 1)
		for i, o := range ops {
			if done&(1<<i) == 0 && o.Ret < minRet {
				minRet = o.Ret
			}
		}
		for i, o := range ops {
			if done&(1<<i) != 0 || o.Call > minRet {
				continue
			}
			for _, nm := range m.step(sc, h, o) {
				if !fifo && o.Kind == opRead {
					// several consumers: hand-off order between consumers is not constrained beyond the queue order,
					// which the model already applies at the linearization point.
				}
				if rec(done|1<<i, nm) {
					return true
				}
			}
		}
		return false
	}
	return rec(0, &c02Model{inflight: map[int]bool{}})
}

func c02HistString(h *c02Hist) string {
	var l []string
	for _, o := range h.ops {
		l = append(l, o.String())
	}
	return strings.Join(l, " ; ")
}

// c02Check judges one completed execution. Returns (signature, explanation) or "".
func c02Check(sc *c02Scn, h *c02Hist) (string, string) {
	fam := sc.Kind
	if !h.finished {
		return "unfinished:" + fam, "main thread did not finish"
	}
	accepted := map[int]bool{}
	for _, o := range h.ops {
		if o.Kind != opOffer {
			continue
		}
		switch {
		case o.Res == "ok", strings.HasPrefix(o.Res, "result:"):
			accepted[o.ID] = true
			if strings.HasPrefix(o.Res, "result:") {
				if !sc.WFR {
					return "unexpected-result:" + fam, "offer returned a consumer result without wait_for_result: " + o.String()
				}
				if o.Res != fmt.Sprintf("result:%d", o.ID) {
					return "wfr-wrong-result:" + fam, "wait-for-result producer received another request's outcome: " + o.String()
				}
			} else if sc.WFR && o.Size > 0 && sc.Consumers > 0 {
				return "wfr-no-result:" + fam, "wait-for-result producer returned nil although its consumer reported an error: " + o.String()
			}
		case o.Res == "ctx":
			ct, ok := h.cancelAt[o.Ctx]
			if !ok || ct > o.Ret {
				return "ctx-error-without-cancel:" + fam, "offer returned a context error although its context had not ended: " + o.String()
			}
		case o.Res == "full", o.Res == "toolarge", o.Res == "invalid":
			if h.handed[o.ID] > 0 {
				return "refused-handed:" + fam, "a refused request was handed to a consumer: " + o.String()
			}
		default:
			return "unexpected-error:" + fam, "offer returned an unexpected error: " + o.String()
		}
	}
	for id, n := range h.handed {
		if n > 1 {
			return "double-handoff:" + fam, fmt.Sprintf("request %d handed over %d times", id, n)
		}
	}
	for _, o := range h.ops {
		if o.Kind == opSize && (o.N < 0 || o.N > sc.Cap) {
			return "size-out-of-range:" + fam, "reported size outside [0, capacity]: " + o.String()
		}
	}
	// a stopped persistent queue keeps what was not dispatched for the next start (C01/C03); only the memory queue drains
	drained := sc.Consumers > 0 && sc.Shutdown == "end" && sc.Kind == "mem"
	if drained {
		for id := range accepted {
			if h.sizes[id] > 0 && h.handed[id] != 1 {
				return "accepted-not-handed:" + fam, fmt.Sprintf("accepted request %d handed over %d times by the time the drained queue stopped", id, h.handed[id])
			}
		}
		if h.finalSize != 0 {
			return "final-size-nonzero:" + fam, fmt.Sprintf("size %d after every accepted request finished", h.finalSize)
		}
	}
	if sc.Shutdown == "concurrent" {
		// running-phase claims only up to the shutdown call: accepted before shutdown was requested => handed exactly once
		for _, o := range h.ops {
			if o.Kind == opOffer && o.Res == "ok" && o.Size > 0 && o.Ret < h.shutdownCall && sc.Consumers > 0 && sc.Kind == "mem" && h.handed[o.ID] != 1 {
				return "accepted-not-drained:" + fam, fmt.Sprintf("request %d accepted before shutdown was requested, handed %d times when Shutdown returned", o.ID, h.handed[o.ID])
			}
		}
		return "", ""
	}
	if !c02Linearizable(sc, h, sc.Consumers <= 1) {
		return "not-linearizable:" + fam, "history is not linearizable w.r.t. the sequential bounded FIFO queue model: " + c02HistString(h)
	}
	return "", ""
}

func c02Scenarios(ctx *vr.Ctx) []*c02Scn {
	var l []*c02Scn
	one := func(id int) c02Offer { return c02Offer{ID: id, Size: 1} }
	for _, kind := range []string{"mem", "pq"} {
		// D1 capacity pressure
		for _, cons := range []int{1, 2} {
			l = append(l, &c02Scn{Name: fmt.Sprintf("D1-%s-c%d", kind, cons), Kind: kind, Cap: 2, Consumers: cons, ConsumerPoint: true, Big: cons == 2,
				Producers: [][]c02Offer{{one(1), one(2)}, {one(3), one(4)}}, Observers: 2, Shutdown: "end"})
		}
		// D1b: block on overflow under capacity pressure
		l = append(l, &c02Scn{Name: "D1b-" + kind, Kind: kind, Cap: 1, Block: true, Consumers: 1, ConsumerPoint: true,
			Producers: [][]c02Offer{{one(1), one(2)}, {one(3)}}, Observers: 1, Shutdown: "end"})
		// D2 block-on-overflow + cancellation, manual completions
		l = append(l, &c02Scn{Name: "D2-" + kind, Kind: kind, Cap: 2, Block: true, Prefill: []c02Offer{one(1), one(2)}, PreRead: 2, Completer: true,
			Producers: [][]c02Offer{{{ID: 3, Size: 1, Ctx: 1}}, {{ID: 4, Size: 1, Ctx: 2}}}, Cancel: []int{1, 2}, Shutdown: "none"})
		// D2b: one cancellable and one plain blocked producer, single completion frees one slot
		l = append(l, &c02Scn{Name: "D2b-" + kind, Kind: kind, Cap: 2, Block: true, Prefill: []c02Offer{one(1), one(2)}, PreRead: 2, Completer: true,
			Producers: [][]c02Offer{{{ID: 3, Size: 1, Ctx: 1}}, {{ID: 4, Size: 1}}}, Cancel: []int{1}, Consumers: 0, Shutdown: "none"})
		// D2c: space freed while the queue is NOT empty must still wake the blocked producer
		l = append(l, &c02Scn{Name: "D2c-" + kind, Kind: kind, Cap: 3, Block: true, Prefill: []c02Offer{one(1), one(2), one(3)}, PreRead: 1, Completer: true,
			Producers: [][]c02Offer{{one(4)}}, Observers: 1, Shutdown: "none"})
		// D2d: ONE completion, two blocked producers, the first one cancellable: the freed slot must go to whoever still wants it
		l = append(l, &c02Scn{Name: "D2d-" + kind, Kind: kind, Cap: 1, Block: true, Prefill: []c02Offer{one(1)}, PreRead: 1, Completer: true,
			Producers: [][]c02Offer{{{ID: 2, Size: 1, Ctx: 1}}, {one(3)}}, Cancel: []int{1}, FullOK: true, Shutdown: "none"})
		// D8: nothing ever frees space (one accepted request, nobody reads) - the blocked producer's only way out is its
		// context ("or returns with its context's error when the context ends first")
		l = append(l, &c02Scn{Name: "D8-" + kind, Kind: kind, Cap: 1, Block: true, Prefill: []c02Offer{one(1)},
			Producers: [][]c02Offer{{{ID: 2, Size: 1, Ctx: 1}}}, Cancel: []int{1}, Shutdown: "none"})
		// D4 sizes: zero, cap, cap+1 with an items-like sizer
		l = append(l, &c02Scn{Name: "D4-" + kind, Kind: kind, Cap: 3, Consumers: 1, ConsumerPoint: true,
			Producers: [][]c02Offer{{{ID: 1, Size: 0}, {ID: 2, Size: 3}}, {{ID: 3, Size: 4}, {ID: 4, Size: 2}}}, Observers: 1, Shutdown: "end"})
		// D7: two idle consumers, two accepted requests, nobody comes back for more before both were handed over
		l = append(l, &c02Scn{Name: "D7-" + kind, Kind: kind, Cap: 2, Consumers: 2, ConsumerPoint: true, HoldUntil: 2,
			Producers: [][]c02Offer{{one(1), one(2)}}, Shutdown: "end"})
		// D5 shutdown during traffic
		l = append(l, &c02Scn{Name: "D5-" + kind, Kind: kind, Cap: 2, Consumers: 2, ConsumerPoint: true, Big: true,
			Producers: [][]c02Offer{{one(1), one(2)}, {one(3)}}, Shutdown: "concurrent"})
	}
	// D3 wait-for-result (memory only)
	// (the cancellable request has a size of its own: whatever per-request bookkeeping is recycled when its producer gives up
	// must not be the one a later, differently sized request then uses)
	l = append(l, &c02Scn{Name: "D3-mem", Kind: "mem", Cap: 3, Block: true, WFR: true, Consumers: 1, ConsumerPoint: true,
		Producers: [][]c02Offer{{{ID: 1, Size: 2, Ctx: 1}}, {one(2), one(3)}}, Cancel: []int{1}, Shutdown: "end"})
	l = append(l, &c02Scn{Name: "D3b-mem", Kind: "mem", Cap: 1, WFR: true, Consumers: 2, ConsumerPoint: false, Big: true,
		Producers: [][]c02Offer{{one(1)}, {one(2)}, {one(3)}}, Shutdown: "end"})
	// D3c: wait-for-result AND block-on-overflow with real overflow: the second producer waits for space that only the
	// completion of the first one's request frees
	l = append(l, &c02Scn{Name: "D3c-mem", Kind: "mem", Cap: 1, Block: true, WFR: true, Consumers: 1, ConsumerPoint: true,
		Producers: [][]c02Offer{{one(1)}, {one(2)}}, Shutdown: "end"})
	// G: a generated family instead of more hand-picked drivers - every combination of queue kind, capacity 1/2,
	// block_on_overflow, wait_for_result (memory), 1/2 consumers, five producer patterns over sizes 1/2 (never larger than
	// the capacity) and shutdown at the end / concurrent with the traffic (non-blocking, no wait-for-result), judged like
	// the D scenarios (linearizable against the bounded FIFO model, exactly-once hand-off, size bounds, no lost wake-up).
	// Explored with one deviation less than the small hand-written scenarios.
	patterns := [][][]int64{{{1}}, {{1, 1}}, {{1}, {1}}, {{1, 2}}, {{2}, {1}}}
	gCons, gObs := []int{1, 2}, 1
	if ctx.Quick() {
		// quick tier: one consumer, no observer thread, three patterns (the full family runs in the thorough tier)
		patterns = [][][]int64{{{1, 1}}, {{1}, {1}}, {{1, 2}}}
		gCons, gObs = []int{1}, 0
	}
	for _, kind := range []string{"mem", "pq"} {
		for _, capa := range []int64{1, 2} {
			for _, block := range []bool{false, true} {
				for _, wfr := range []bool{false, true} {
					if wfr && kind != "mem" {
						continue
					}
					for _, cons := range gCons {
						for pi, pat := range patterns {
							fits := true
							var prods [][]c02Offer
							id := 0
							for _, p := range pat {
								var offers []c02Offer
								for _, sz := range p {
									id++
									offers = append(offers, c02Offer{ID: id, Size: sz})
									fits = fits && sz <= capa
								}
								prods = append(prods, offers)
							}
							if !fits {
								continue
							}
							for _, sd := range []string{"end", "concurrent"} {
								if sd == "concurrent" && (block || wfr) {
									continue // a producer parked in Offer while the queue is shut down is outside "while running"
								}
								l = append(l, &c02Scn{Name: fmt.Sprintf("G-%s-cap%d-block%v-wfr%v-c%d-p%d-%s", kind, capa, block, wfr, cons, pi, sd), Kind: kind, Cap: capa,
									Block: block, WFR: wfr, Consumers: cons, ConsumerPoint: true, Big: true, Producers: prods, Observers: gObs, Shutdown: sd})
							}
						}
					}
				}
			}
		}
	}
	if !ctx.Quick() {
		for _, kind := range []string{"mem", "pq"} {
			l = append(l, &c02Scn{Name: "T1-" + kind, Kind: kind, Cap: 2, Block: true, Consumers: 2, ConsumerPoint: true, Big: true,
				Producers: [][]c02Offer{{one(1), {ID: 2, Size: 2}}, {one(3), one(4)}}, Observers: 2, Shutdown: "end"})
			// (nobody drains: the size-2 producer may legitimately stay blocked when one of the others got in)
			l = append(l, &c02Scn{Name: "T2-" + kind, Kind: kind, Cap: 2, Block: true, Prefill: []c02Offer{one(1), one(2)}, PreRead: 2, Completer: true,
				Producers: [][]c02Offer{{{ID: 3, Size: 1, Ctx: 1}}, {{ID: 4, Size: 1, Ctx: 2}}, {{ID: 5, Size: 2}}}, Cancel: []int{1, 2}, FullOK: true, Shutdown: "none"})
		}
	}
	return l
}

// ---- D6: the bare context-aware cond
type c02CondScn struct {
	Waiters    int   `json:"waiters"`
	Signals    int   `json:"signals"`
	Broadcast  bool  `json:"broadcast"`
	Cancel     []int `json:"cancel"`
	TwoSignals bool  `json:"two_signallers"`
}

type c02CondObs struct {
	res      []string
	cancelAt map[int]bool
	late     bool
	finished bool
}

func c02CondBody(sc *c02CondScn, o *c02CondObs) func() {
	return func() {
		*o = c02CondObs{res: make([]string, sc.Waiters), cancelAt: map[int]bool{}}
		var mu vs.Mutex
		c := newCond(&mu)
		bg := context.Background()
		var wg vs.WaitGroup
		cancels := make([]context.CancelFunc, sc.Waiters)
		for i := 0; i < sc.Waiters; i++ {
			i := i
			cx, cancel := context.WithCancel(bg)
			cancels[i] = cancel
			wg.Add(1)
			vs.GoNamed(fmt.Sprintf("waiter%d", i+1), func() {
				mu.Lock()
				err := c.Wait(cx)
				mu.Unlock()
				o.res[i] = fmt.Sprint(err)
				wg.Done()
			})
		}
		sig := func(n int) func() {
			return func() {
				for k := 0; k < n; k++ {
					mu.Lock()
					if sc.Broadcast {
						c.Broadcast()
					} else {
						c.Signal()
					}
					mu.Unlock()
				}
				wg.Done()
			}
		}
		if sc.TwoSignals {
			wg.Add(2)
			vs.GoNamed("signaller1", sig(sc.Signals))
			vs.GoNamed("signaller2", sig(sc.Signals))
		} else {
			wg.Add(1)
			vs.GoNamed("signaller1", sig(sc.Signals))
		}
		if len(sc.Cancel) > 0 {
			wg.Add(1)
			vs.GoNamed("canceller", func() {
				for _, k := range sc.Cancel {
					vs.Point()
					o.cancelAt[k] = true
					cancels[k]()
				}
				wg.Done()
			})
		}
		// late cancellation releases waiters that were legitimately not signalled, so that only real deadlocks remain
		vs.GoDaemon("late-cancel", func() {
			vs.Point()
			o.late = true
			for k := range cancels {
				cancels[k]()
			}
		})
		wg.Wait()
		o.finished = true
	}
}

type c02Replay struct {
	Scn     *c02Scn     `json:"scenario,omitempty"`
	Cond    *c02CondScn `json:"cond,omitempty"`
	Choices []int       `json:"choices"`
}

func c02RunOne(rp c02Replay, logf func(string, ...any)) (string, string) {
	vs.S.LogOn = logf != nil
	defer func() { vs.S.LogOn = false }()
	if rp.Cond != nil {
		var o c02CondObs
		s := vs.Run(rp.Choices, c02CondBody(rp.Cond, &o))
		return c02CondVerdict(rp.Cond, &o, s)
	}
	var h c02Hist
	s := vs.Run(rp.Choices, c02Body(rp.Scn, &h))
	if logf != nil {
		logf("history: %s", c02HistString(&h))
	}
	return c02Verdict(rp.Scn, &h, s)
}

func c02Verdict(sc *c02Scn, h *c02Hist, s *vs.Sched) (string, string) {
	if v := s.Verdict(); v != "" {
		if s.Deadlock && sc.FullOK && !strings.Contains(s.DeadlockSig(), "chan-send@(*cond).") {
			var msize int64
			for _, o := range h.ops {
				if o.Kind == opOffer && o.Ret > 0 && o.Res == "ok" {
					msize += o.Size
				}
				if o.Kind == opDone && o.Ret > 0 {
					msize -= h.sizes[o.ID]
				}
			}
			lost := ""
			for _, o := range h.ops {
				if o.Kind == opOffer && o.Ret == 0 && msize+o.Size <= sc.Cap {
					lost = fmt.Sprintf("%s is blocked in Offer(id=%d,size=%d) although accepted-but-unfinished requests sum to %d of capacity %d", o.Who, o.ID, o.Size, msize, sc.Cap)
				}
			}
			if lost == "" {
				return "", "" // everybody left is blocked on a legitimately full queue
			}
			return "lost-wakeup:" + sc.Kind, fmt.Sprintf("scenario %s: %s and no thread can run; history so far: %s", sc.Name, lost, c02HistString(h))
		}
		if s.Deadlock {
			return "deadlock:" + sc.Kind + ":" + c02Cancelled(len(h.cancelAt)) + ":" + s.DeadlockSig(), fmt.Sprintf("scenario %s: all threads blocked (%v at %v); history so far: %s", sc.Name, s.Blocked, s.BlockedAt, c02HistString(h))
		}
		return "panic:" + sc.Kind + ":" + firstLine(fmt.Sprint(s.Panic)), fmt.Sprintf("scenario %s: %s\n%s", sc.Name, v, s.PanicStack)
	}
	sig, what := c02Check(sc, h)
	if sig != "" {
		what = "scenario " + sc.Name + ": " + what
	}
	return sig, what
}

func c02CondVerdict(sc *c02CondScn, o *c02CondObs, s *vs.Sched) (string, string) {
	if v := s.Verdict(); v != "" {
		if s.Deadlock {
			n := len(o.cancelAt)
			if o.late {
				n = 2
			}
			return "deadlock:cond:" + c02Cancelled(n) + ":" + s.DeadlockSig(), fmt.Sprintf("bare cond %+v: all threads blocked (%v at %v)", *sc, s.Blocked, s.BlockedAt)
		}
		return "panic:cond:" + firstLine(fmt.Sprint(s.Panic)), v
	}
	for i, r := range o.res {
		if r != "<nil>" && !o.cancelAt[i] && !o.late {
			return "cond-ctx-error-without-cancel", fmt.Sprintf("waiter %d returned %q without cancellation", i, r)
		}
	}
	return "", ""
}

// c02Cancelled is part of a deadlock's signature: how many contexts had been cancelled (the known cond defect needs >= 2).
func c02Cancelled(n int) string {
	if n >= 2 {
		return "cancelled=2+"
	}
	return fmt.Sprintf("cancelled=%d", n)
}

func firstLine(s string) string {
	if i := strings.IndexByte(s, '\n'); i >= 0 {
		s = s[:i]
	}
	if len(s) > 120 {
		s = s[:120]
	}
	return s
}

func TestVerif(t *testing.T) {
	ctx := vr.Start("C02", "queue")
	if ctx == nil {
		t.Skip("not driven")
	}
	defer ctx.Finish()

	if ctx.ReplayRaw != nil {
		var rf struct {
			Replay c02Replay `json:"replay"`
		}
		if err := json.Unmarshal(ctx.ReplayRaw, &rf); err != nil {
			t.Fatal(err)
		}
		sig, what := c02RunOne(rf.Replay, t.Logf)
		for _, l := range vs.S.Log {
			t.Log(l)
		}
		if sig != "" {
			ctx.Violate(sig, what, rf.Replay)
		}
		return
	}

	pbound := ctx.Param("bound", 2)
	startBound := ctx.Param("start_bound", pbound) // thorough: iterative deepening from the quick tier's bound
	totalNodes := int64(0)
	type unit struct {
		name    string
		big     bool
		body    func()
		verdict func(s *vs.Sched) (string, string)
		mk      func(ch []int) c02Replay
	}
	var units []unit
	// runAt explores one scenario with at most b deviations (one less for the many-thread scenarios); true = completed
	runAt := func(u unit, b int) bool {
		bound := b
		if u.big {
			bound--
		}
		name := u.name
		if b == startBound {
			// determinism self-test: the default schedule twice
			s1 := vs.Run(nil, u.body)
			sig1, _ := u.verdict(s1)
			c1 := fmt.Sprint(s1.Choices(), s1.Steps)
			s2 := vs.Run(nil, u.body)
			sig2, _ := u.verdict(s2)
			if c1 != fmt.Sprint(s2.Choices(), s2.Steps) || sig1 != sig2 {
				ctx.Infra("determinism self-test failed for %s", name)
				return false
			}
		}
		opts := vs.Opts{Bound: bound, Shard: ctx.Shard, Shards: ctx.Shards, Expired: ctx.Expired}
		st := vs.Explore(opts, u.body, func(s *vs.Sched, owned bool) bool {
			sig, what := u.verdict(s)
			if owned {
				ctx.R.Evals++
				ctx.R.Traces++
				if sig != "" {
					ctx.Violate(sig, what, u.mk(s.Choices()))
					ctx.Outcome(name + ":" + strings.SplitN(sig, ":", 2)[0])
				} else {
					ctx.Outcome(name + ":ok")
				}
				if ctx.R.Evals%5003 == 1 {
					ctx.Sample(map[string]any{"scenario": name, "choices": fmt.Sprint(s.Choices()), "verdict": sig})
				}
			}
			return sig == "" // a violating execution is reported once and not expanded
		})
		for _, x := range st.Infra {
			ctx.Infra("%s bound %d: %s", name, bound, x)
		}
		ctx.R.Extra[fmt.Sprintf("execs_%s_bound%d", name, bound)] = st.Counted
		ctx.R.Trans += st.Steps
		totalNodes += st.Nodes
		if st.MaxThreads > 0 {
			if v, _ := ctx.R.Extra["max_threads"].(int); st.MaxThreads > v {
				ctx.R.Extra["max_threads"] = st.MaxThreads
			}
		}
		return !st.Capped
	}
	for _, sc := range c02Scenarios(ctx) {
		sc := sc
		if only := ctx.ParamS("only", ""); only != "" && !strings.Contains(sc.Name, only) {
			continue
		}
		h := new(c02Hist)
		units = append(units, unit{sc.Name, sc.Big, c02Body(sc, h), func(s *vs.Sched) (string, string) { return c02Verdict(sc, h, s) },
			func(ch []int) c02Replay { return c02Replay{Scn: sc, Choices: ch} }})
		ctx.Nontrivial(vr.HashS(sc.Name))
	}
	conds := []*c02CondScn{
		{Waiters: 2, Signals: 2},
		{Waiters: 2, Signals: 2, Cancel: []int{0, 1}},
		{Waiters: 2, Signals: 1, Cancel: []int{0}, TwoSignals: true},
		{Waiters: 2, Signals: 1, Broadcast: true, Cancel: []int{1}},
	}
	for i, sc := range conds {
		sc := sc
		o := new(c02CondObs)
		name := fmt.Sprintf("D6-cond-%d", i)
		units = append(units, unit{name, sc.TwoSignals, c02CondBody(sc, o), func(s *vs.Sched) (string, string) { return c02CondVerdict(sc, o, s) },
			func(ch []int) c02Replay { return c02Replay{Cond: sc, Choices: ch} }})
		ctx.Nontrivial(vr.HashS(name))
	}
	// iterative deepening: every scenario with <= b deviations before any with b+1; the completed bound is reported
	completed := startBound - 1
	for b := startBound; b <= pbound; b++ {
		all := true
		for _, u := range units {
			if !runAt(u, b) {
				all = false
				ctx.Cap(fmt.Sprintf("%s: bound %d not completed", u.name, b))
			}
			if ctx.Expired() {
				all = false
				break
			}
		}
		if !all {
			if b > startBound {
				ctx.Cap(fmt.Sprintf("time budget reached while deepening to bound %d; every scenario is complete up to bound %d", b, completed))
			}
			break
		}
		completed = b
	}
	ctx.R.States = totalNodes
	ctx.R.Extra["bound_completed"] = completed
}
