//go:build verif

package service

// C10, service level — the real service.Service (extensions + pipeline graph) with instrumented components, including
// components SHARED across signals through sharedcomponent.Map (the way the OTLP receiver is), under every extension
// dependency DAG over <= 3 extensions, every listing order, three pipeline topologies and every single failure position
// (Start of k fails / Shutdown of k fails; pairs in thorough). The life cycle is driven the way the collector drives it:
// Start; Shutdown (also after a failed Start).
//
// Oracle, from the global event log: every extension starts before any pipeline component and after the extensions it
// depends on; shutdown is the reverse (pipeline components before extensions, dependents before their dependencies);
// along every data edge u->v, Start(v) precedes Start(u) and Shutdown(u) precedes Shutdown(v); every component (the inner
// component of a shared one included) is started at most once and shut down exactly once; a start failure is returned by
// Start and nothing is started after it; a shutdown failure is reported by Shutdown and does not stop the others.

import (
	"context"
	"encoding/json"
	"fmt"
	"os"
	"reflect"
	"sort"
	"strings"
	"testing"

	"go.uber.org/zap/zapcore"
	"gonum.org/v1/gonum/graph"
	"gonum.org/v1/gonum/graph/topo"

	"go.opentelemetry.io/collector/component"
	"go.opentelemetry.io/collector/component/componentstatus"
	"go.opentelemetry.io/collector/config/configtelemetry"
	"go.opentelemetry.io/collector/confmap"
	"go.opentelemetry.io/collector/connector"
	"go.opentelemetry.io/collector/consumer"
	"go.opentelemetry.io/collector/exporter"
	"go.opentelemetry.io/collector/extension"
	"go.opentelemetry.io/collector/internal/sharedcomponent"
	"go.opentelemetry.io/collector/pdata/plog"
	"go.opentelemetry.io/collector/pdata/pmetric"
	"go.opentelemetry.io/collector/pdata/ptrace"
	"go.opentelemetry.io/collector/pipeline"
	"go.opentelemetry.io/collector/processor"
	"go.opentelemetry.io/collector/receiver"
	"go.opentelemetry.io/collector/service/extensions"
	"go.opentelemetry.io/collector/service/pipelines"
	"go.opentelemetry.io/collector/service/telemetry"

	"VERIF/vr"
)

type sWorld struct {
	events    []string
	failStart map[string]bool
	failStop  map[string]bool
	deps      map[string][]string // extension name -> names it depends on
	recvMap   *sharedcomponent.Map[component.ID, *sComp]
	expMap    *sharedcomponent.Map[component.ID, *sComp]
	keys      map[string]bool
	// watched[watcher extension][source instance] = the statuses that watcher was told about that instance, in order
	// (every extension of this unit is a status watcher: C11's clause about what watchers are shown, at service level)
	watched map[string]map[string][]componentstatus.Status
}

var sW *sWorld

type sComp struct{ key string }

func (c *sComp) Start(context.Context, component.Host) error {
	sW.events = append(sW.events, "start "+c.key)
	if sW.failStart[c.key] {
		return fmt.Errorf("start of %s failed", c.key)
	}
	return nil
}

func (c *sComp) Shutdown(context.Context) error {
	sW.events = append(sW.events, "stop "+c.key)
	if sW.failStop[c.key] {
		return fmt.Errorf("stop of %s failed", c.key)
	}
	return nil
}
func (c *sComp) Capabilities() consumer.Capabilities { return consumer.Capabilities{} }

func sMk(key string) *sComp {
	sW.keys[key] = true
	return &sComp{key}
}

type sExt struct {
	*sComp
	deps []component.ID
}

func (e *sExt) Dependencies() []component.ID { return e.deps }

func (e *sExt) ComponentStatusChanged(source *componentstatus.InstanceID, event *componentstatus.Event) {
	m := sW.watched[e.key]
	if m == nil {
		m = map[string][]componentstatus.Status{}
		sW.watched[e.key] = m
	}
	var pls []string
	source.AllPipelineIDs(func(p pipeline.ID) bool { pls = append(pls, p.String()); return true })
	sort.Strings(pls)
	k := source.Kind().String() + "/" + source.ComponentID().String() + "@" + strings.Join(pls, ",")
	m[k] = append(m[k], event.Status())
}

// sLegal: the documented state diagram (docs/component-status.md)
var sLegal = map[componentstatus.Status][]componentstatus.Status{
	componentstatus.StatusNone:             {componentstatus.StatusStarting},
	componentstatus.StatusStarting:         {componentstatus.StatusOK, componentstatus.StatusRecoverableError, componentstatus.StatusPermanentError, componentstatus.StatusFatalError, componentstatus.StatusStopping},
	componentstatus.StatusOK:               {componentstatus.StatusRecoverableError, componentstatus.StatusPermanentError, componentstatus.StatusFatalError, componentstatus.StatusStopping},
	componentstatus.StatusRecoverableError: {componentstatus.StatusOK, componentstatus.StatusPermanentError, componentstatus.StatusFatalError, componentstatus.StatusStopping},
	componentstatus.StatusPermanentError:   {componentstatus.StatusStopping},
	componentstatus.StatusStopping:         {componentstatus.StatusRecoverableError, componentstatus.StatusPermanentError, componentstatus.StatusFatalError, componentstatus.StatusStopped},
}

// sWatcherOracle: for every instance, what EACH watcher extension was shown is a path of the state diagram that begins with
// Starting, and every watcher was shown the same.
func sWatcherOracle(d string, add func(sig, what string)) {
	var ws []string
	for w := range sW.watched {
		ws = append(ws, w)
	}
	sort.Strings(ws)
	srcs := map[string]bool{}
	for _, w := range ws {
		for k := range sW.watched[w] {
			srcs[k] = true
		}
	}
	// every extension that exists is a watcher, also one that was told nothing
	for k := range sW.keys {
		if strings.HasPrefix(k, "ext/") && sW.watched[k] == nil {
			ws = append(ws, k)
		}
	}
	sort.Strings(ws)
	var ss []string
	for k := range srcs {
		ss = append(ss, k)
	}
	sort.Strings(ss)
	for _, src := range ss {
		var first []componentstatus.Status
		for i, w := range ws {
			seq := sW.watched[w][src]
			cur := componentstatus.StatusNone
			for j, st := range seq {
				ok := false
				for _, n := range sLegal[cur] {
					ok = ok || n == st
				}
				if !ok {
					add("watcher-shown-illegal-sequence", fmt.Sprintf("%s: watcher %s was shown %v for instance %s: event #%d (%v) is not a legal successor of %v", d, w, seq, src, j, st, cur))
					break
				}
				cur = st
			}
			if i == 0 {
				first = seq
			} else if fmt.Sprint(seq) != fmt.Sprint(first) {
				add("watchers-shown-different-sequences", fmt.Sprintf("%s: for instance %s watcher %s was shown %v, watcher %s %v", d, src, ws[0], first, w, seq))
			}
		}
	}
}

var (
	sT  = component.MustNewType("vv")
	sTS = component.MustNewType("vsh")
)

type sShared struct {
	*sharedcomponent.Component[*sComp]
	consumer.ConsumeTracesFunc
	consumer.ConsumeLogsFunc
	consumer.ConsumeMetricsFunc
}

func (sShared) Capabilities() consumer.Capabilities { return consumer.Capabilities{} }

type sTC struct {
	*sComp
	consumer.ConsumeTracesFunc
}
type sLC struct {
	*sComp
	consumer.ConsumeLogsFunc
}
type sMC struct {
	*sComp
	consumer.ConsumeMetricsFunc
}

func sSettings() Settings {
	st := component.StabilityLevelStable
	cfg := func() component.Config { return &struct{}{} }
	nopT := func(context.Context, ptrace.Traces) error { return nil }
	nopL := func(context.Context, plog.Logs) error { return nil }
	nopM := func(context.Context, pmetric.Metrics) error { return nil }
	rf := receiver.NewFactory(sT, cfg,
		receiver.WithTraces(func(_ context.Context, s receiver.Settings, _ component.Config, _ consumer.Traces) (receiver.Traces, error) {
			return sMk("recv/traces/" + s.ID.Name()), nil
		}, st),
		receiver.WithLogs(func(_ context.Context, s receiver.Settings, _ component.Config, _ consumer.Logs) (receiver.Logs, error) {
			return sMk("recv/logs/" + s.ID.Name()), nil
		}, st),
		receiver.WithMetrics(func(_ context.Context, s receiver.Settings, _ component.Config, _ consumer.Metrics) (receiver.Metrics, error) {
			return sMk("recv/metrics/" + s.ID.Name()), nil
		}, st))
	sharedRecv := func(id component.ID) (*sharedcomponent.Component[*sComp], error) {
		return sW.recvMap.LoadOrStore(id, func() (*sComp, error) { return sMk("recv/shared/" + id.Name()), nil })
	}
	rsf := receiver.NewFactory(sTS, cfg,
		receiver.WithTraces(func(_ context.Context, s receiver.Settings, _ component.Config, _ consumer.Traces) (receiver.Traces, error) {
			return sharedRecv(s.ID)
		}, st),
		receiver.WithLogs(func(_ context.Context, s receiver.Settings, _ component.Config, _ consumer.Logs) (receiver.Logs, error) {
			return sharedRecv(s.ID)
		}, st),
		receiver.WithMetrics(func(_ context.Context, s receiver.Settings, _ component.Config, _ consumer.Metrics) (receiver.Metrics, error) {
			return sharedRecv(s.ID)
		}, st))
	pf := processor.NewFactory(sT, cfg,
		processor.WithTraces(func(_ context.Context, s processor.Settings, _ component.Config, n consumer.Traces) (processor.Traces, error) {
			return sTC{sMk("proc/traces/" + s.ID.Name()), n.ConsumeTraces}, nil
		}, st),
		processor.WithLogs(func(_ context.Context, s processor.Settings, _ component.Config, n consumer.Logs) (processor.Logs, error) {
			return sLC{sMk("proc/logs/" + s.ID.Name()), n.ConsumeLogs}, nil
		}, st),
		processor.WithMetrics(func(_ context.Context, s processor.Settings, _ component.Config, n consumer.Metrics) (processor.Metrics, error) {
			return sMC{sMk("proc/metrics/" + s.ID.Name()), n.ConsumeMetrics}, nil
		}, st))
	ef := exporter.NewFactory(sT, cfg,
		exporter.WithTraces(func(_ context.Context, s exporter.Settings, _ component.Config) (exporter.Traces, error) {
			return sTC{sMk("exp/traces/" + s.ID.Name()), nopT}, nil
		}, st),
		exporter.WithLogs(func(_ context.Context, s exporter.Settings, _ component.Config) (exporter.Logs, error) {
			return sLC{sMk("exp/logs/" + s.ID.Name()), nopL}, nil
		}, st),
		exporter.WithMetrics(func(_ context.Context, s exporter.Settings, _ component.Config) (exporter.Metrics, error) {
			return sMC{sMk("exp/metrics/" + s.ID.Name()), nopM}, nil
		}, st))
	sharedExp := func(id component.ID) (sShared, error) {
		c, err := sW.expMap.LoadOrStore(id, func() (*sComp, error) { return sMk("exp/shared/" + id.Name()), nil })
		return sShared{c, nopT, nopL, nopM}, err
	}
	esf := exporter.NewFactory(sTS, cfg,
		exporter.WithTraces(func(_ context.Context, s exporter.Settings, _ component.Config) (exporter.Traces, error) {
			return sharedExp(s.ID)
		}, st),
		exporter.WithLogs(func(_ context.Context, s exporter.Settings, _ component.Config) (exporter.Logs, error) {
			return sharedExp(s.ID)
		}, st),
		exporter.WithMetrics(func(_ context.Context, s exporter.Settings, _ component.Config) (exporter.Metrics, error) {
			return sharedExp(s.ID)
		}, st))
	cf := connector.NewFactory(sT, cfg,
		connector.WithTracesToLogs(func(_ context.Context, s connector.Settings, _ component.Config, n consumer.Logs) (connector.Traces, error) {
			return sTC{sMk("conn/traces>logs/" + s.ID.Name()), func(ctx context.Context, _ ptrace.Traces) error { return n.ConsumeLogs(ctx, plog.NewLogs()) }}, nil
		}, st))
	xf := extension.NewFactory(sT, cfg, func(_ context.Context, s extension.Settings, _ component.Config) (extension.Extension, error) {
		var deps []component.ID
		for _, d := range sW.deps[s.ID.Name()] {
			deps = append(deps, component.NewIDWithName(sT, d))
		}
		return &sExt{sMk("ext/" + s.ID.Name()), deps}, nil
	}, st)
	ids := func(t component.Type, names ...string) map[component.ID]component.Config {
		m := map[component.ID]component.Config{}
		for _, n := range names {
			m[component.NewIDWithName(t, n)] = &struct{}{}
		}
		return m
	}
	rc := ids(sT, "r")
	for k, v := range ids(sTS, "rs") {
		rc[k] = v
	}
	ec := ids(sT, "e")
	for k, v := range ids(sTS, "es") {
		ec[k] = v
	}
	return Settings{
		BuildInfo:           component.NewDefaultBuildInfo(),
		CollectorConf:       confmap.New(),
		ReceiversConfigs:    rc,
		ReceiversFactories:  map[component.Type]receiver.Factory{sT: rf, sTS: rsf},
		ProcessorsConfigs:   ids(sT, "p1", "p2"),
		ProcessorsFactories: map[component.Type]processor.Factory{sT: pf},
		ExportersConfigs:    ec,
		ExportersFactories:  map[component.Type]exporter.Factory{sT: ef, sTS: esf},
		ConnectorsConfigs:   ids(sT, "c"),
		ConnectorsFactories: map[component.Type]connector.Factory{sT: cf},
		ExtensionsConfigs:   ids(sT, "x1", "x2", "x3"),
		ExtensionsFactories: map[component.Type]extension.Factory{sT: xf},
		AsyncErrorChannel:   make(chan error, 8),
	}
}

// topologies: pipeline id -> (receivers, processors, exporters), by "type/name"
type sTopo struct {
	Name  string                 `json:"name"`
	Pipes map[string][3][]string `json:"pipelines"`
	// data edges between component keys (u sends to v)
	Edges [][2]string `json:"edges"`
	// graph nodes through which a shared inner component is reached: inner key -> downstream keys per node
}

func sTopos() []sTopo {
	return []sTopo{
		{Name: "plain", Pipes: map[string][3][]string{"traces": {{"vv/r"}, {"vv/p1"}, {"vv/e"}}},
			Edges: [][2]string{{"recv/traces/r", "proc/traces/p1"}, {"proc/traces/p1", "exp/traces/e"}}},
		{Name: "shared-receiver-and-exporter", Pipes: map[string][3][]string{
			"traces": {{"vsh/rs"}, {"vv/p1"}, {"vsh/es", "vv/c"}},
			"logs":   {{"vsh/rs", "vv/c"}, {"vv/p2"}, {"vsh/es"}},
		}, Edges: [][2]string{
			{"recv/shared/rs", "proc/traces/p1"}, {"recv/shared/rs", "proc/logs/p2"},
			{"proc/traces/p1", "exp/shared/es"}, {"proc/traces/p1", "conn/traces>logs/c"},
			{"conn/traces>logs/c", "proc/logs/p2"}, {"proc/logs/p2", "exp/shared/es"},
		}},
		{Name: "shared-receiver-minimal", Pipes: map[string][3][]string{
			"traces": {{"vsh/rs"}, nil, {"vv/e"}},
			"logs":   {{"vsh/rs"}, {"vv/p1"}, {"vv/e"}},
		}, Edges: [][2]string{
			{"recv/shared/rs", "exp/traces/e"}, {"recv/shared/rs", "proc/logs/p1"}, {"proc/logs/p1", "exp/logs/e"},
		}},
		{Name: "shared-exporter-minimal", Pipes: map[string][3][]string{
			"traces":  {{"vv/r"}, {"vv/p1"}, {"vsh/es"}},
			"metrics": {{"vv/r"}, nil, {"vsh/es"}},
		}, Edges: [][2]string{
			{"recv/traces/r", "proc/traces/p1"}, {"proc/traces/p1", "exp/shared/es"}, {"recv/metrics/r", "exp/shared/es"},
		}},
	}
}

// sChooser owns the tie-breaking of the topological sorts (in the real code: Go's randomised map iteration order inside
// gonum's Tarjan traversal). Sort calls are named by life-cycle phase and position ("new#1", "new#2", "start#1", "stop#1");
// the call named Free is explored exhaustively (every answer sequence), all other calls take the first candidate.
type sChooser struct {
	free   string
	phase  string
	n      int
	cur    string
	prefix []int
	trace  [][2]int
}

func (c *sChooser) setPhase(p string) { c.phase, c.n = p, 0 }
func (c *sChooser) begin()            { c.n++; c.cur = fmt.Sprintf("%s#%d", c.phase, c.n) }
func (c *sChooser) pick(n int) int {
	if c.cur != c.free {
		return 0
	}
	ch := 0
	if len(c.trace) < len(c.prefix) {
		ch = c.prefix[len(c.trace)]
		if ch >= n {
			panic(fmt.Sprintf("replay divergence: choice %d of %d at point %d", ch, n, len(c.trace)))
		}
	}
	c.trace = append(c.trace, [2]int{ch, n})
	return ch
}

var sCh *sChooser

// canonical, run-independent key of a graph node: the extension graph numbers its nodes in map iteration order, so its
// node IDs are not stable; the pipeline graph's IDs are hashes of the node's identity and are
func sNodeKey(n graph.Node) string {
	v := reflect.ValueOf(n)
	if v.Kind() == reflect.Ptr {
		v = v.Elem()
	}
	if v.Kind() == reflect.Struct {
		if f := v.FieldByName("extID"); f.IsValid() {
			return fmt.Sprintf("ext:%v", f)
		}
	}
	return fmt.Sprintf("id:%020d", uint64(n.ID()))
}

type sCase struct {
	Free      string              `json:"free_sort,omitempty"`
	Choices   []int               `json:"choices,omitempty"`
	Topo      int                 `json:"topology"`
	Exts      []string            `json:"extensions"` // listing order
	Deps      map[string][]string `json:"dependencies"`
	FailStart []string            `json:"fail_start"`
	FailStop  []string            `json:"fail_stop"`
}

func sCID(s string) component.ID {
	p := strings.SplitN(s, "/", 2)
	return component.NewIDWithName(component.MustNewType(p[0]), p[1])
}

func sBuild(c sCase) (*Service, error) {
	sW = &sWorld{failStart: map[string]bool{}, failStop: map[string]bool{}, deps: c.Deps, keys: map[string]bool{}, watched: map[string]map[string][]componentstatus.Status{},
		recvMap: sharedcomponent.NewMap[component.ID, *sComp](), expMap: sharedcomponent.NewMap[component.ID, *sComp]()}
	for _, k := range c.FailStart {
		sW.failStart[k] = true
	}
	for _, k := range c.FailStop {
		sW.failStop[k] = true
	}
	tp := sTopos()[c.Topo]
	pc := pipelines.Config{}
	for sigName, p := range tp.Pipes {
		var sig pipeline.Signal
		switch sigName {
		case "traces":
			sig = pipeline.SignalTraces
		case "logs":
			sig = pipeline.SignalLogs
		default:
			sig = pipeline.SignalMetrics
		}
		cfg := &pipelines.PipelineConfig{}
		for _, x := range p[0] {
			cfg.Receivers = append(cfg.Receivers, sCID(x))
		}
		for _, x := range p[1] {
			cfg.Processors = append(cfg.Processors, sCID(x))
		}
		for _, x := range p[2] {
			cfg.Exporters = append(cfg.Exporters, sCID(x))
		}
		pc[pipeline.NewID(sig)] = cfg
	}
	var xs extensions.Config
	for _, x := range c.Exts {
		xs = append(xs, component.NewIDWithName(sT, x))
	}
	return New(context.Background(), sSettings(), Config{
		Extensions: xs,
		Pipelines:  pc,
		Telemetry: telemetry.Config{
			Logs:    telemetry.LogsConfig{Level: zapcore.FatalLevel, Encoding: "console", OutputPaths: []string{"/dev/null"}, ErrorOutputPaths: []string{"/dev/null"}},
			Metrics: telemetry.MetricsConfig{Level: configtelemetry.LevelNone},
		},
	})
}

func sRun(c sCase) [][2]string {
	var out [][2]string
	add := func(sig, what string) { out = append(out, [2]string{sig, what}) }
	d := fmt.Sprintf("topology=%s extensions=%v deps=%v fail_start=%v fail_stop=%v free_sort=%s choices=%v", sTopos()[c.Topo].Name, c.Exts, c.Deps, c.FailStart, c.FailStop, c.Free, c.Choices)
	sCh = &sChooser{free: c.Free, prefix: c.Choices}
	topo.VerifPick, topo.VerifSortBegin, topo.VerifKey = sCh.pick, sCh.begin, sNodeKey
	sCh.setPhase("new")
	srv, err := sBuild(c)
	if err != nil {
		return [][2]string{{"build-failed", d + ": " + err.Error()}}
	}
	sCh.setPhase("start")
	startErr := srv.Start(context.Background())
	nStart := len(sW.events)
	sCh.setPhase("stop")
	stopErr := srv.Shutdown(context.Background())
	ev := sW.events
	d += fmt.Sprintf(" events=%v start-error=%v shutdown-error=%v", ev, startErr, stopErr)
	if sProp == "C11" {
		sWatcherOracle(d, add)
		return out
	}
	startAt, stopAt := map[string]int{}, map[string]int{}
	starts, stops := map[string]int{}, map[string]int{}
	for i, e := range ev {
		p := strings.SplitN(e, " ", 2)
		if p[0] == "start" {
			starts[p[1]]++
			if _, ok := startAt[p[1]]; !ok {
				startAt[p[1]] = i
			}
			if i >= nStart {
				add("started-during-shutdown", fmt.Sprintf("%s: %s was started after Start had returned", d, p[1]))
			}
		} else {
			stops[p[1]]++
			if _, ok := stopAt[p[1]]; !ok {
				stopAt[p[1]] = i
			}
			if i < nStart {
				add("stopped-during-start", fmt.Sprintf("%s: %s was shut down before Start returned", d, p[1]))
			}
		}
	}
	var keys []string
	for k := range sW.keys {
		keys = append(keys, k)
	}
	sort.Strings(keys)
	for _, k := range keys {
		if starts[k] > 1 {
			add("started-twice", fmt.Sprintf("%s: %s was started %d times", d, k, starts[k]))
		}
		if stops[k] != 1 {
			add(fmt.Sprintf("shutdown-count:%d", stops[k]), fmt.Sprintf("%s: %s was shut down %d times", d, k, stops[k]))
		}
	}
	// start failure semantics
	if len(c.FailStart) > 0 {
		failedAt := -1
		for _, k := range c.FailStart {
			if i, ok := startAt[k]; ok && (failedAt < 0 || i < failedAt) {
				failedAt = i
			}
		}
		if failedAt >= 0 {
			if startErr == nil {
				add("start-failure-not-returned", d)
			}
			for k, i := range startAt {
				if i > failedAt {
					add("started-after-start-failure", fmt.Sprintf("%s: %s was started after the failing start", d, k))
				}
			}
		}
	} else if startErr != nil {
		add("start-error-without-failure", d)
	}
	anyStopFail := false
	for _, k := range c.FailStop {
		if _, ok := stopAt[k]; ok {
			anyStopFail = true
			if stopErr == nil || !strings.Contains(stopErr.Error(), "stop of "+k+" failed") {
				add("shutdown-failure-not-reported", fmt.Sprintf("%s: the failing shutdown of %s is not in the returned error", d, k))
			}
		}
	}
	if !anyStopFail && stopErr != nil {
		add("shutdown-error-without-failure", d)
	}
	isExt := func(k string) bool { return strings.HasPrefix(k, "ext/") }
	for _, x := range keys {
		if !isExt(x) {
			continue
		}
		for _, p := range keys {
			if isExt(p) {
				continue
			}
			if sx, ok := startAt[p]; ok {
				if ex, ok2 := startAt[x]; !ok2 || ex > sx {
					add("pipeline-component-started-before-extension", fmt.Sprintf("%s: %s started before extension %s", d, p, x))
				}
			}
			if stopAt[p] > stopAt[x] {
				add("extension-stopped-before-pipeline-component", fmt.Sprintf("%s: extension %s was shut down before %s", d, x, p))
			}
		}
		for _, dep := range c.Deps[strings.TrimPrefix(x, "ext/")] {
			dk := "ext/" + dep
			if sx, ok := startAt[x]; ok {
				if sd, ok2 := startAt[dk]; !ok2 || sd > sx {
					add("extension-started-before-dependency", fmt.Sprintf("%s: %s started before its dependency %s", d, x, dk))
				}
			}
			if stopAt[x] > stopAt[dk] {
				add("extension-stopped-after-dependency", fmt.Sprintf("%s: %s was shut down after its dependency %s", d, x, dk))
			}
		}
	}
	for _, e := range sTopos()[c.Topo].Edges {
		u, v := e[0], e[1]
		shared := strings.Contains(u, "/shared/")
		if su, ok := startAt[u]; ok {
			if sv, ok2 := startAt[v]; !ok2 || sv > su {
				sig := "started-before-downstream"
				if shared {
					sig = "shared-component-started-before-downstream"
				}
				add(sig, fmt.Sprintf("%s: %s was started before %s, which it sends data to", d, u, v))
			}
		}
		if stopAt[u] > stopAt[v] {
			sig := "stopped-before-upstream"
			if strings.Contains(v, "/shared/") {
				sig = "shared-component-stopped-before-upstream"
			}
			add(sig, fmt.Sprintf("%s: %s was shut down before %s, which sends data to it", d, v, u))
		}
	}
	// one report per signature
	seen := map[string]bool{}
	var uniq [][2]string
	for _, v := range out {
		if !seen[v[0]] {
			seen[v[0]] = true
			uniq = append(uniq, v)
		}
	}
	return uniq
}

// all dependency relations over the listed extensions that are acyclic
func sDAGs(xs []string) []map[string][]string {
	var pairs [][2]string
	for _, a := range xs {
		for _, b := range xs {
			if a != b {
				pairs = append(pairs, [2]string{a, b})
			}
		}
	}
	var out []map[string][]string
	for mask := 0; mask < 1<<len(pairs); mask++ {
		deps := map[string][]string{}
		for i, p := range pairs {
			if mask&(1<<i) != 0 {
				deps[p[0]] = append(deps[p[0]], p[1])
			}
		}
		// acyclic?
		state := map[string]int{}
		var cyc func(n string) bool
		cyc = func(n string) bool {
			if state[n] == 1 {
				return true
			}
			if state[n] == 2 {
				return false
			}
			state[n] = 1
			for _, m := range deps[n] {
				if cyc(m) {
					return true
				}
			}
			state[n] = 2
			return false
		}
		bad := false
		for _, x := range xs {
			if cyc(x) {
				bad = true
			}
		}
		if !bad {
			out = append(out, deps)
		}
	}
	return out
}

// sProp: the same driver serves C10 (life-cycle order) and, as unit "service-watchers", C11 (what status watchers are shown)
var sProp = "C10"

func TestVerifService(t *testing.T) {
	unit := "service"
	if strings.Contains(os.Getenv("VERIF_PARAMS"), "prop=C11") {
		sProp, unit = "C11", "service-watchers"
	}
	ctx := vr.Start(sProp, unit)
	if ctx == nil {
		t.Skip("not driven")
	}
	defer ctx.Finish()
	if ctx.ReplayRaw != nil {
		var rf struct {
			Replay sCase `json:"replay"`
		}
		if err := json.Unmarshal(ctx.ReplayRaw, &rf); err != nil {
			t.Fatal(err)
		}
		for _, v := range sRun(rf.Replay) {
			t.Logf("%s %s", v[0], v[1])
			ctx.Violate(v[0], v[1], rf.Replay)
		}
		return
	}
	pairs := ctx.Param("pairs", 0) == 1
	// (the last two list an extension twice: service::extensions is a plain list and nothing rejects a repeated id - the
	// extension is still one component: started once, stopped once, told every status event once)
	extLists := [][]string{nil, {"x1"}, {"x1", "x2"}, {"x2", "x1"}, {"x1", "x2", "x3"}, {"x3", "x1", "x2"}, {"x2", "x3", "x1"}, {"x1", "x1"}, {"x1", "x2", "x1"}}
	var n int64
	leaves := map[string]int64{}
	defer func() {
		for k, v := range leaves {
			ctx.R.Extra["sort_orders_"+k] = float64(v)
		}
	}()
	for ti := range sTopos() {
		for xi, xs := range extLists {
			// two decoupled sweeps: every extension configuration over the plain topology, every topology with one extension
			if ti != 0 && xi != 1 {
				continue
			}
			var uniq []string
			for _, x := range xs {
				dup := false
				for _, y := range uniq {
					dup = dup || x == y
				}
				if !dup {
					uniq = append(uniq, x)
				}
			}
			for _, deps := range sDAGs(uniq) {
				// discover the component keys of this configuration
				base := sCase{Topo: ti, Exts: xs, Deps: deps}
				sCh = &sChooser{}
				topo.VerifPick, topo.VerifSortBegin, topo.VerifKey = sCh.pick, sCh.begin, sNodeKey
				if _, err := sBuild(base); err != nil {
					ctx.Infra("build: %v", err)
					continue
				}
				var keys []string
				for k := range sW.keys {
					keys = append(keys, k)
				}
				sort.Strings(keys)
				plans := [][2][]string{{nil, nil}}
				for _, k := range keys {
					plans = append(plans, [2][]string{{k}, nil}, [2][]string{nil, {k}})
				}
				if pairs {
					for i, k1 := range keys {
						for _, k2 := range keys {
							plans = append(plans, [2][]string{{k1}, {k2}})
						}
						for _, k2 := range keys[i+1:] {
							plans = append(plans, [2][]string{nil, {k1, k2}})
						}
					}
				}
				for _, pl := range plans {
					frees := []string{"new#1", "new#2", "start#1", "stop#1"}
					if len(pl[0])+len(pl[1]) > 0 && ti != 0 {
						// with a failure injected, only the sort that orders the failing phase is explored
						frees = []string{"start#1"}
						if len(pl[1]) > 0 {
							frees = []string{"stop#1"}
						}
						if len(pl[0]) > 0 && len(pl[1]) > 0 {
							frees = []string{"start#1", "stop#1"}
						}
					}
					if only := ctx.ParamS("only_free", ""); only != "" {
						frees = []string{only}
					}
					if ot := ctx.Param("only_topo", -1); ot >= 0 && ot != ti {
						continue
					}
					if ctx.Param("no_fail", 0) == 1 && len(pl[0])+len(pl[1]) > 0 {
						continue
					}
					for _, free := range frees {
						if ti != 0 && free == "new#1" {
							continue // creation order of the pipeline components: not observable by this property
						}
						n++
						if !ctx.Mine(n) {
							continue
						}
						var prefix []int
						for {
							if ctx.R.Evals%512 == 0 && ctx.Expired() {
								ctx.Cap("time budget")
								return
							}
							c := sCase{Topo: ti, Exts: xs, Deps: deps, FailStart: pl[0], FailStop: pl[1], Free: free, Choices: prefix}
							ctx.R.Evals++
							ctx.R.Trans++
							ctx.Nontrivial(vr.Hash(fmt.Sprint(c)))
							vs := sRun(c)
							for _, v := range vs {
								ctx.Violate(v[0], v[1], c)
								ctx.Outcome(v[0])
							}
							if len(vs) == 0 {
								ctx.R.Traces++
								ctx.Outcome(fmt.Sprintf("ordered:start-fail=%d,stop-fail=%d", len(pl[0]), len(pl[1])))
							}
							if ctx.R.Evals%5001 == 7 {
								ctx.Sample(c)
							}
							tr := sCh.trace
							leaves[free]++
							i := len(tr) - 1
							for i >= 0 && tr[i][0]+1 >= tr[i][1] {
								i--
							}
							if i < 0 {
								break
							}
							prefix = nil
							for _, x := range tr[:i] {
								prefix = append(prefix, x[0])
							}
							prefix = append(prefix, tr[i][0]+1)
						}
					}
				}
			}
		}
	}
	ctx.R.States = ctx.R.Evals
}
