//go:build verif

package VERIFPKG

// C08 — OTLP protobuf and JSON codecs are lossless, consistent and total.
// Engine E4 (exhaustive exploration): the value-deviation universe over the generated OTLP structs (every leaf path x every
// boundary value of its kind, every one-of alternative, empty-vs-absent containers; pairs of deviations in thorough),
// JSON alternative spellings (64-bit integers as numbers, enums as names), and all short byte / JSON-token strings offered
// to every unmarshaler. Oracle: round trips, Size == len(encoding), cross-codec commutation, fixed point, no panic.

import (
	"bytes"
	"encoding/json"
	"fmt"
	"math"
	"reflect"
	"regexp"
	"sort"
	"strings"
	"testing"

	"VERIF/vr"
)

// adapter provided by each signal package
type c08Codec struct {
	Name          string
	Root          reflect.Type               // the Export*ServiceRequest struct
	Wrap          func(rootPtr any) any      // payload from an orig pointer
	Orig          func(payload any) any      // orig pointer of a payload
	MarshalProto  func(p any) ([]byte, error)
	Size          func(p any) int
	UnmarshalPB   func(b []byte) (any, error)
	MarshalJSON   func(p any) ([]byte, error)
	UnmarshalJSON func(b []byte) (any, error)
	JSONRootKey   string
}

type c08Leaf struct {
	path string
	set  func(root reflect.Value, val reflect.Value) // materialises the path and stores val
	typ  reflect.Type
	json string // JSON field name of the leaf
}

// the encodings returned for the previous payload of the same codec, and copies of what they were
var c08Prev struct {
	codec          string
	pb, js         []byte
	pbCopy, jsCopy string
}

var c08OneofAlts = map[reflect.Type][]reflect.Type{}
var c08OnPath = map[reflect.Type]int{}

func c08JSONName(f reflect.StructField) string {
	tag := f.Tag.Get("protobuf")
	name := ""
	for _, p := range strings.Split(tag, ",") {
		if strings.HasPrefix(p, "json=") {
			return strings.TrimPrefix(p, "json=")
		}
		if strings.HasPrefix(p, "name=") {
			name = strings.TrimPrefix(p, "name=")
		}
	}
	// lowerCamel of the proto name
	parts := strings.Split(name, "_")
	for i := 1; i < len(parts); i++ {
		if parts[i] != "" {
			parts[i] = strings.ToUpper(parts[i][:1]) + parts[i][1:]
		}
	}
	return strings.Join(parts, "")
}

func c08EnumLeaves(t reflect.Type, path, jsonName string, mk func(root reflect.Value) reflect.Value, depth int, out *[]c08Leaf) {
	switch t.Kind() {
	case reflect.Ptr:
		c08EnumLeaves(t.Elem(), path, jsonName, func(root reflect.Value) reflect.Value {
			p := mk(root)
			if p.IsNil() {
				p.Set(reflect.New(t.Elem()))
			}
			return p.Elem()
		}, depth, out)
	case reflect.Struct:
		if c08OnPath[t] >= 2 || depth > 40 { // each message type at most twice on a path
			return
		}
		c08OnPath[t]++
		defer func() { c08OnPath[t]-- }()
		for i := 0; i < t.NumField(); i++ {
			f := t.Field(i)
			// Deprecated* fields are not part of the public data model (no accessor)
			if !f.IsExported() || strings.HasPrefix(f.Name, "XXX_") || strings.HasPrefix(f.Name, "Deprecated") {
				continue
			}
			i := i
			c08EnumLeaves(f.Type, path+"."+f.Name, c08JSONName(f), func(root reflect.Value) reflect.Value { return mk(root).Field(i) }, depth+1, out)
		}
	case reflect.Slice:
		if t.Elem().Kind() == reflect.Uint8 { // bytes
			*out = append(*out, c08Leaf{path, func(root, val reflect.Value) { mk(root).Set(val) }, t, jsonName})
			return
		}
		*out = append(*out, c08Leaf{path + "[]", func(root, val reflect.Value) { mk(root).Set(val) }, t, jsonName})
		c08EnumLeaves(t.Elem(), path+"[0]", jsonName, func(root reflect.Value) reflect.Value {
			// the element that carries the value is FOLLOWED by a default (empty) element: whatever a decoder keeps from one
			// element to the next (a reused scratch value, a cursor) shows in the second one
			s := mk(root)
			if s.Len() == 0 {
				s.Set(reflect.MakeSlice(t, 2, 2))
				if t.Elem().Kind() == reflect.Ptr {
					s.Index(1).Set(reflect.New(t.Elem().Elem()))
				}
			}
			return s.Index(0)
		}, depth+1, out)
	case reflect.Interface: // one-of
		for _, at := range c08OneofAlts[t] {
			at := at
			mkAlt := func(root reflect.Value) reflect.Value {
				iv := mk(root)
				if iv.IsNil() || iv.Elem().Type() != at {
					iv.Set(reflect.New(at.Elem()))
					// a message alternative always holds a message (SetEmptyGauge, SetEmptyMap, ... allocate it)
					for i := 0; i < at.Elem().NumField(); i++ {
						if f := iv.Elem().Elem().Field(i); f.Kind() == reflect.Ptr && f.Type().Elem().Kind() == reflect.Struct && f.CanSet() {
							f.Set(reflect.New(f.Type().Elem()))
						}
					}
				}
				return iv.Elem()
			}
			// the alternative PRESENT with its zero content (explicit presence: an optional field that is set to 0, an empty
			// message alternative) - different from the one-of being absent
			*out = append(*out, c08Leaf{path + "<" + at.Elem().Name() + ">:present-with-zero-content", func(root, _ reflect.Value) { mkAlt(root) }, c08PresentT, ""})
			c08EnumLeaves(at, path+"<"+at.Elem().Name()+">", jsonName, mkAlt, depth+1, out)
		}
	default:
		*out = append(*out, c08Leaf{path, func(root, val reflect.Value) { mk(root).Set(val) }, t, jsonName})
	}
}

func c08RegisterOneofs(t reflect.Type, seen map[reflect.Type]bool) {
	for t.Kind() == reflect.Ptr || t.Kind() == reflect.Slice {
		t = t.Elem()
	}
	if t.Kind() != reflect.Struct || seen[t] {
		return
	}
	seen[t] = true
	if m, ok := reflect.PointerTo(t).MethodByName("XXX_OneofWrappers"); ok {
		ws := m.Func.Call([]reflect.Value{reflect.Zero(reflect.PointerTo(t))})[0].Interface().([]interface{})
		for i := 0; i < t.NumField(); i++ {
			f := t.Field(i)
			if f.Type.Kind() == reflect.Interface {
				for _, w := range ws {
					wt := reflect.TypeOf(w)
					if wt.Implements(f.Type) {
						c08OneofAlts[f.Type] = append(c08OneofAlts[f.Type], wt)
						c08RegisterOneofs(wt, seen)
					}
				}
			}
		}
	}
	for i := 0; i < t.NumField(); i++ {
		c08RegisterOneofs(t.Field(i).Type, seen)
	}
}

func c08IsEnum(t reflect.Type) bool {
	if t.Kind() != reflect.Int32 || t.PkgPath() == "" {
		return false
	}
	_, ok := t.MethodByName("String")
	return ok
}

type c08Present struct{}

var c08PresentT = reflect.TypeOf(c08Present{})

// c08LongLens: element counts of the long scalar slices (thorough adds 2048: 16 KiB of eight-byte elements)
var c08LongLens = []int{15, 16, 17, 127, 128}

func c08Boundary(t reflect.Type) []reflect.Value {
	var vs []reflect.Value
	if t == c08PresentT {
		return []reflect.Value{reflect.ValueOf(c08Present{})}
	}
	add := func(x any) { vs = append(vs, reflect.ValueOf(x).Convert(t)) }
	switch t.Kind() {
	case reflect.Bool:
		add(true)
	case reflect.Int32:
		if c08IsEnum(t) {
			// every named value + one unnamed
			for x := int32(1); x < 40; x++ {
				v := reflect.ValueOf(x).Convert(t)
				name := v.MethodByName("String").Call(nil)[0].String()
				if name != fmt.Sprint(x) {
					vs = append(vs, v)
				}
			}
			add(int32(99))
			return vs
		}
		for _, x := range []int32{1, -1, math.MaxInt32, math.MinInt32, 9} {
			add(x)
		}
	case reflect.Int64:
		for _, x := range []int64{1, -1, math.MaxInt64, math.MinInt64, 1 << 53, 1<<31 + 1} {
			add(x)
		}
	case reflect.Uint32:
		for _, x := range []uint32{1, math.MaxUint32, 1 << 31} {
			add(x)
		}
	case reflect.Uint64:
		for _, x := range []uint64{1, math.MaxUint64, 1 << 63, 1<<53 + 1} {
			add(x)
		}
	case reflect.Float64:
		for _, x := range []float64{1.5, math.Copysign(0, -1), math.NaN(), math.Inf(1), math.Inf(-1), math.SmallestNonzeroFloat64, math.MaxFloat64, 1e21, -1e-7} {
			add(x)
		}
	case reflect.String:
		for _, x := range []string{"a", "é \"\\<>&\u2028", "\x00", strings.Repeat("x", 300), "12", " ", strings.Repeat("y", 127), strings.Repeat("y", 128)} {
			add(x)
		}
	case reflect.Slice:
		if t.Elem().Kind() == reflect.Uint8 {
			vs = append(vs, reflect.ValueOf([]byte{}).Convert(t), reflect.ValueOf([]byte{0, 255, 1}).Convert(t), reflect.ValueOf([]byte("<html>&")).Convert(t),
				reflect.ValueOf(bytes.Repeat([]byte{7}, 127)).Convert(t), reflect.ValueOf(bytes.Repeat([]byte{7}, 128)).Convert(t))
		} else {
			vs = append(vs, reflect.MakeSlice(t, 0, 0)) // present but empty
			if k := t.Elem().Kind(); k == reflect.Ptr || k == reflect.Struct {
				s := reflect.MakeSlice(t, 1, 1) // one default element
				if k == reflect.Ptr {
					s.Index(0).Set(reflect.New(t.Elem().Elem()))
				}
				vs = append(vs, s)
			}
			if k := t.Elem().Kind(); k != reflect.Ptr && k != reflect.Struct && k != reflect.Interface {
				for _, b := range c08Boundary(t.Elem()) {
					s := reflect.MakeSlice(t, 2, 2)
					s.Index(1).Set(b)
					vs = append(vs, s)
				}
				// lengths around the points where the length prefix of the (packed) encoding grows by a byte: 127/128 bytes
				// is 16 eight-byte elements or 127/128 one-byte elements
				if eb := c08Boundary(t.Elem()); len(eb) > 0 && k != reflect.String {
					for _, n := range c08LongLens {
						s := reflect.MakeSlice(t, n, n)
						for i := 0; i < n; i++ {
							s.Index(i).Set(eb[0])
						}
						vs = append(vs, s)
					}
				}
			} else if k == reflect.Ptr {
				s := reflect.MakeSlice(t, 2, 2) // two default elements
				s.Index(0).Set(reflect.New(t.Elem().Elem()))
				s.Index(1).Set(reflect.New(t.Elem().Elem()))
				vs = append(vs, s)
			} else if k == reflect.Struct {
				vs = append(vs, reflect.MakeSlice(t, 2, 2))
			}
		}
	case reflect.Array:
		a := reflect.New(t).Elem()
		for i := 0; i < a.Len(); i++ {
			a.Index(i).SetUint(uint64(255 - i))
		}
		vs = append(vs, a)
		b := reflect.New(t).Elem()
		b.Index(a.Len() - 1).SetUint(1)
		vs = append(vs, b)
	}
	return vs
}

// canonical (API-level) equality: nil == empty container, NaN == NaN, -0 == +0, nil pointer == pointer to zero message
// c08RelaxEmptyBytes / c08Cause: root-cause classification of a difference that c08Eq found. A pcommon Value of type Bytes
// that holds no bytes (Value.SetEmptyBytes(), FromRaw([]byte{})) is written as an ABSENT one-of by both marshalers (the
// generated code skips a nil/empty bytes field), so it decodes as a Value of type Empty - a recorded finding
// (known_findings.json). A difference that disappears when exactly that is tolerated is attributed to it; any other
// difference keeps its own signature.
var c08RelaxEmptyBytes bool

func c08Cause(a, b reflect.Value) string {
	c08RelaxEmptyBytes = true
	defer func() { c08RelaxEmptyBytes = false }()
	if c08Eq(a, b) {
		return "empty-bytes-value-is-encoded-as-an-absent-value"
	}
	return ""
}

func c08Eq(a, b reflect.Value) bool {
	if a.Kind() != b.Kind() {
		return false
	}
	switch a.Kind() {
	case reflect.Ptr:
		if a.IsNil() && b.IsNil() {
			return true
		}
		if a.IsNil() {
			return c08Eq(reflect.Zero(b.Type().Elem()), b.Elem())
		}
		if b.IsNil() {
			return c08Eq(a.Elem(), reflect.Zero(a.Type().Elem()))
		}
		return c08Eq(a.Elem(), b.Elem())
	case reflect.Interface:
		if c08RelaxEmptyBytes && a.IsNil() != b.IsNil() {
			// classification only (see c08Cause): a bytes alternative with no bytes on one side, nothing on the other
			x := a
			if a.IsNil() {
				x = b
			}
			if e := x.Elem(); e.Kind() == reflect.Ptr && !e.IsNil() && strings.HasSuffix(e.Type().Elem().Name(), "_BytesValue") && e.Elem().NumField() == 1 && e.Elem().Field(0).Len() == 0 {
				return true
			}
		}
		if a.IsNil() || b.IsNil() {
			return a.IsNil() == b.IsNil()
		}
		if a.Elem().Type() != b.Elem().Type() {
			return false
		}
		return c08Eq(a.Elem(), b.Elem())
	case reflect.Struct:
		for i := 0; i < a.NumField(); i++ {
			f := a.Type().Field(i)
			if !f.IsExported() || strings.HasPrefix(f.Name, "XXX_") {
				continue
			}
			if !c08Eq(a.Field(i), b.Field(i)) {
				return false
			}
		}
		return true
	case reflect.Slice, reflect.Array:
		if a.Len() != b.Len() {
			return false
		}
		for i := 0; i < a.Len(); i++ {
			if !c08Eq(a.Index(i), b.Index(i)) {
				return false
			}
		}
		return true
	case reflect.Float64:
		x, y := a.Float(), b.Float()
		return x == y || (math.IsNaN(x) && math.IsNaN(y))
	default:
		return a.Interface() == b.Interface()
	}
}

type c08Dev struct {
	Leaf  int `json:"leaf"`
	Value int `json:"value"`
}

type c08Case struct {
	Codec string   `json:"codec"`
	Kind  string   `json:"kind"` // deviation | bytes | json
	Devs  []c08Dev `json:"deviations,omitempty"`
	Paths []string `json:"paths,omitempty"`
	Bytes []byte   `json:"bytes,omitempty"`
	Text  string   `json:"text,omitempty"`
}

func c08LastSeg(p string) string {
	if i := strings.LastIndex(p, "."); i >= 0 {
		p = p[i+1:]
	}
	return regexp.MustCompile(`\[0?\]$`).ReplaceAllString(p, "")
}

func c08Trunc(s string) string {
	if len(s) > 200 {
		return s[:200] + "…"
	}
	return s
}

var c08QuotedInt = regexp.MustCompile(`"(-?[0-9]+)"`)

// c08CheckPayload runs all codec oracles on one payload. leafs describe the deviating leaves (for signatures and spellings).
func c08CheckPayload(c *c08Codec, root reflect.Value, leafs []c08Leaf, vals []reflect.Value) (sig, what string) {
	seg := "zero-payload"
	if len(leafs) > 0 {
		seg = c08LastSeg(leafs[len(leafs)-1].path)
	}
	desc := ""
	for i, l := range leafs {
		desc += fmt.Sprintf("%s = %s; ", l.path, c08Trunc(fmt.Sprintf("%#v", vals[i].Interface())))
	}
	defer func() {
		if r := recover(); r != nil {
			sig, what = "panic:"+c.Name+":"+seg, fmt.Sprintf("%s panic: %v", desc, r)
		}
	}()
	p := c.Wrap(root.Interface())
	pb, err := c.MarshalProto(p)
	if err != nil {
		return "proto-marshal-error:" + c.Name + ":" + seg, desc + err.Error()
	}
	// what an EARLIER call returned belongs to its caller: it must not change when the marshaler is used again
	if c08Prev.codec == c.Name && (string(c08Prev.pb) != c08Prev.pbCopy || string(c08Prev.js) != c08Prev.jsCopy) {
		c08Prev.codec = ""
		return "earlier-encoding-changed-by-a-later-marshal-call:" + c.Name, desc + " (the bytes returned for the previous payload were modified)"
	}
	if c.Size == nil {
		// the wrapper has no size method
	} else if n := c.Size(p); n != len(pb) {
		return "size-mismatch:" + c.Name + ":" + seg, fmt.Sprintf("%s Size()=%d len(encoding)=%d", desc, n, len(pb))
	}
	back, err := c.UnmarshalPB(pb)
	if err != nil {
		return "proto-unmarshal-error:" + c.Name + ":" + seg, desc + err.Error()
	}
	if !c08Eq(reflect.ValueOf(c.Orig(back)), reflect.ValueOf(c.Orig(p))) {
		if cause := c08Cause(reflect.ValueOf(c.Orig(back)), reflect.ValueOf(c.Orig(p))); cause != "" {
			return "proto-roundtrip-differs:" + cause, desc
		}
		return "proto-roundtrip-differs:" + c.Name + ":" + seg, desc
	}
	// the legacy wire form of the same payload (what an old sender puts on the wire: scope_spans / scope_logs /
	// scope_metrics under their deprecated field number 1000) is one of "every byte string offered to an unmarshaler":
	// it decodes, so it must re-encode to a fixed point, and the size reported for what it decoded to must be the length
	// of its encoding. (Whether the decoder migrates the field - the request wrappers and JSON readers do, the plain
	// protobuf unmarshalers keep it as it is - is not part of the statement and not judged.)
	if lb, ok := c08LegacyBytes(c, pb); ok {
		lback, err := c.UnmarshalPB(lb)
		if err != nil {
			return "legacy-encoding-rejected:" + c.Name + ":" + seg, desc + err.Error()
		}
		if sig, what := c08CheckBytes(c, lb, false); sig != "" {
			return "legacy-encoding:" + sig, desc + what
		}
		if c.Size != nil {
			e1, _ := c.MarshalProto(lback)
			if n := c.Size(lback); n != len(e1) {
				return "size-mismatch:" + c.Name + ":" + seg, fmt.Sprintf("%s (decoded from the legacy wire form) Size()=%d len(encoding)=%d", desc, n, len(e1))
			}
		}
	}
	js, err := c.MarshalJSON(p)
	if err != nil {
		return "json-marshal-error:" + c.Name + ":" + seg, desc + err.Error()
	}
	jback, err := c.UnmarshalJSON(js)
	if err != nil {
		return "json-unmarshal-error:" + c.Name + ":" + seg, desc + c08Trunc(err.Error()) + " json=" + c08Trunc(string(js))
	}
	if !c08Eq(reflect.ValueOf(c.Orig(jback)), reflect.ValueOf(c.Orig(p))) {
		if cause := c08Cause(reflect.ValueOf(c.Orig(jback)), reflect.ValueOf(c.Orig(p))); cause != "" {
			return "json-roundtrip-differs:" + cause, desc + " json=" + c08Trunc(string(js))
		}
		return "json-roundtrip-differs:" + c.Name + ":" + seg, desc + " json=" + c08Trunc(string(js))
	}
	pb2, err := c.MarshalProto(jback)
	if err != nil || !bytes.Equal(pb, pb2) {
		return "cross-codec-bytes-differ:" + c.Name + ":" + seg, desc + " json=" + c08Trunc(string(js))
	}
	if string(pb) != string(append([]byte(nil), pb...)) || !bytes.Equal(pb, pb2) {
		return "cross-codec-bytes-differ:" + c.Name + ":" + seg, desc
	}
	// ... and again now that BOTH marshalers have been used for this payload (a marshaler that hands out memory it will
	// write to again changes the previous payload's encoding only when it is called the next time)
	if c08Prev.codec == c.Name && (string(c08Prev.pb) != c08Prev.pbCopy || string(c08Prev.js) != c08Prev.jsCopy) {
		c08Prev.codec = ""
		return "earlier-encoding-changed-by-a-later-marshal-call:" + c.Name, desc + " (the bytes returned for the previous payload were modified)"
	}
	c08Prev.codec, c08Prev.pb, c08Prev.pbCopy, c08Prev.js, c08Prev.jsCopy = c.Name, pb, string(pb), js, string(js)
	// alternative spellings: the deviating 64-bit integer leaf written as a JSON number instead of a string
	for _, l := range leafs {
		k := l.typ.Kind()
		if k == reflect.Slice {
			k = l.typ.Elem().Kind()
		}
		if (k != reflect.Int64 && k != reflect.Uint64) || l.json == "" {
			continue
		}
		re := regexp.MustCompile(`("` + regexp.QuoteMeta(l.json) + `":\s*)("-?[0-9]+"|\[[^\]]*\])`)
		alt := re.ReplaceAllFunc(js, func(m []byte) []byte {
			sub := re.FindSubmatch(m)
			return append(append([]byte{}, sub[1]...), c08QuotedInt.ReplaceAll(sub[2], []byte("$1"))...)
		})
		if bytes.Equal(alt, js) {
			continue
		}
		aback, err := c.UnmarshalJSON(alt)
		if err != nil {
			return "json-int64-as-number-rejected:" + c.Name + ":" + seg, desc + c08Trunc(err.Error()) + " json=" + c08Trunc(string(alt))
		}
		if !c08Eq(reflect.ValueOf(c.Orig(aback)), reflect.ValueOf(c.Orig(p))) {
			return "json-int64-as-number-differs:" + c.Name + ":" + seg, desc + " json=" + c08Trunc(string(alt))
		}
	}
	// ill-sized values in the place of a fixed-size id (hex string): shorter, longer - by one byte, by a whole other id, by
	// kilobytes -, odd, not hex: rejected or accepted, but never a panic ("decoding arbitrary bytes never panics", here
	// for bytes that are well-formed JSON of the right shape)
	for _, l := range leafs {
		if l.typ.Kind() != reflect.Array || l.json == "" {
			continue
		}
		re := regexp.MustCompile(`("` + regexp.QuoteMeta(l.json) + `":\s*")([0-9a-fA-F]+)(")`)
		m := re.FindSubmatch(js)
		if m == nil {
			continue
		}
		hexv := string(m[2])
		for _, v := range []string{"", "0", "zz", hexv[:len(hexv)-2], hexv + "00", hexv + hexv, hexv + "0", strings.Repeat("ab", 4096)} {
			alt := re.ReplaceAll(js, []byte("${1}"+v+"${3}"))
			var pan any
			func() {
				defer func() { pan = recover() }()
				_, _ = c.UnmarshalJSON(alt)
			}()
			if pan != nil {
				return "json-decode-panic:" + c.Name + ":" + seg, fmt.Sprintf("%s %q written with %d hex digits: the JSON decoder panicked: %v", desc, l.json, len(v), pan)
			}
		}
	}
	// enums written as names instead of numbers
	for i, l := range leafs {
		if c08IsEnum(l.typ) && l.json != "" {
			name := vals[i].MethodByName("String").Call(nil)[0].String()
			num := fmt.Sprint(vals[i].Int())
			if name == num {
				continue
			}
			re := regexp.MustCompile(`"` + regexp.QuoteMeta(l.json) + `":\s*` + num + `\b`)
			alt := re.ReplaceAll(js, []byte(`"`+l.json+`":"`+name+`"`))
			if bytes.Equal(alt, js) {
				return "json-enum-not-a-number:" + c.Name + ":" + seg, desc + " the marshaler did not write the enum as a number: " + c08Trunc(string(js))
			}
			aback, err := c.UnmarshalJSON(alt)
			if err != nil {
				return "json-enum-name-rejected:" + c.Name + ":" + seg, desc + c08Trunc(err.Error()) + " json=" + c08Trunc(string(alt))
			}
			if !c08Eq(reflect.ValueOf(c.Orig(aback)), reflect.ValueOf(c.Orig(p))) {
				return "json-enum-name-differs:" + c.Name + ":" + seg, desc + " json=" + c08Trunc(string(alt))
			}
			// the ZERO member is never written by the marshaler (default value): spell it in the place of this value, once by
			// name and once as the number 0 - "enum values written either as numbers or as names, with the same result"
			if vals[i].Int() == 1 {
				zname := reflect.Zero(l.typ).MethodByName("String").Call(nil)[0].String()
				if zname != "0" {
					altName := re.ReplaceAll(js, []byte(`"`+l.json+`":"`+zname+`"`))
					altNum := re.ReplaceAll(js, []byte(`"`+l.json+`":0`))
					bn, errN := c.UnmarshalJSON(altNum)
					if errN != nil {
						return "json-enum-zero-number-rejected:" + c.Name + ":" + seg, desc + c08Trunc(errN.Error()) + " json=" + c08Trunc(string(altNum))
					}
					bz, errZ := c.UnmarshalJSON(altName)
					if errZ != nil {
						return "json-enum-name-rejected:" + c.Name + ":" + seg, desc + "zero member by name: " + c08Trunc(errZ.Error()) + " json=" + c08Trunc(string(altName))
					}
					if !c08Eq(reflect.ValueOf(c.Orig(bz)), reflect.ValueOf(c.Orig(bn))) {
						return "json-enum-name-differs:" + c.Name + ":" + seg, desc + " zero member by name vs as 0, json=" + c08Trunc(string(altName))
					}
				}
			}
		}
	}
	return "", ""
}

func c08HasNumericString(vals []reflect.Value) bool {
	for _, v := range vals {
		if v.Kind() == reflect.String && c08QuotedInt.MatchString(`"`+v.String()+`"`) {
			return true
		}
	}
	return false
}

// c08CheckBytes: arbitrary input never panics; what decodes re-encodes to a fixed point.
func c08CheckBytes(c *c08Codec, b []byte, isJSON bool) (sig, what string) {
	kind := "proto"
	if isJSON {
		kind = "json"
	}
	defer func() {
		if r := recover(); r != nil {
			sig, what = "panic-on-arbitrary-input:"+c.Name+":"+kind, fmt.Sprintf("input %q: panic: %v", b, r)
		}
	}()
	dec, enc := c.UnmarshalPB, c.MarshalProto
	if isJSON {
		dec, enc = c.UnmarshalJSON, c.MarshalJSON
	}
	p, err := dec(b)
	if err != nil {
		return "", ""
	}
	e1, err := enc(p)
	if err != nil {
		return "reencode-error:" + c.Name + ":" + kind, fmt.Sprintf("input %q decoded but does not re-encode: %v", b, err)
	}
	p2, err := dec(e1)
	if err != nil {
		return "reencode-not-decodable:" + c.Name + ":" + kind, fmt.Sprintf("input %q: enc(dec(b)) = %q is rejected: %v", b, e1, err)
	}
	e2, err := enc(p2)
	if err != nil || !bytes.Equal(e1, e2) {
		return "no-fixed-point:" + c.Name + ":" + kind, fmt.Sprintf("input %q: enc(dec(b)) = %q but enc(dec(enc(dec(b)))) = %q", b, e1, e2)
	}
	return "", ""
}

func c08Main(t *testing.T, c *c08Codec) { c08MainMulti(t, c.Name, c) }

// c08MainMulti runs several codecs hosted in one package (e.g. the export request and response wrappers) as one unit.
func c08MainMulti(t *testing.T, unit string, codecs ...*c08Codec) {
	ctx := vr.Start("C08", unit)
	if ctx == nil {
		t.Skip("not driven")
	}
	defer ctx.Finish()
	if ctx.ReplayRaw != nil {
		var rf struct {
			Replay c08Case `json:"replay"`
		}
		if err := json.Unmarshal(ctx.ReplayRaw, &rf); err != nil {
			t.Fatal(err)
		}
		for _, c := range codecs {
			if c.Name == rf.Replay.Codec || len(codecs) == 1 {
				c08Run(t, ctx, c)
			}
		}
		return
	}
	for _, c := range codecs {
		c08Run(t, ctx, c)
	}
	ctx.R.States = ctx.R.Evals
}

func c08Run(t *testing.T, ctx *vr.Ctx, c *c08Codec) {
	c08OneofAlts, c08OnPath = map[reflect.Type][]reflect.Type{}, map[reflect.Type]int{}
	c08RegisterOneofs(c.Root, map[reflect.Type]bool{})
	var leaves []c08Leaf
	c08EnumLeaves(c.Root, "", "", func(root reflect.Value) reflect.Value { return root }, 0, &leaves)
	bvals := make([][]reflect.Value, len(leaves))
	for i, l := range leaves {
		bvals[i] = c08Boundary(l.typ)
	}
	ctx.R.Extra["leaf_paths_"+c.Name] = len(leaves)
	runDevs := func(devs []c08Dev) (string, string, []string) {
		root := reflect.New(c.Root)
		var ls []c08Leaf
		var vs []reflect.Value
		var paths []string
		for _, d := range devs {
			leaves[d.Leaf].set(root.Elem(), bvals[d.Leaf][d.Value])
			ls = append(ls, leaves[d.Leaf])
			vs = append(vs, bvals[d.Leaf][d.Value])
			paths = append(paths, leaves[d.Leaf].path)
		}
		s, w := c08CheckPayload(c, root, ls, vs)
		return s, w, paths
	}
	if ctx.ReplayRaw != nil {
		var rf struct {
			Replay c08Case `json:"replay"`
		}
		if err := json.Unmarshal(ctx.ReplayRaw, &rf); err != nil {
			t.Fatal(err)
		}
		var sig, what string
		switch rf.Replay.Kind {
		case "deviation":
			sig, what, _ = runDevs(rf.Replay.Devs)
		case "bytes":
			sig, what = c08CheckBytes(c, rf.Replay.Bytes, false)
		default:
			sig, what = c08CheckBytes(c, []byte(rf.Replay.Text), true)
		}
		t.Logf("%s %s", sig, what)
		if sig != "" {
			ctx.Violate(sig, what, rf.Replay)
		}
		return
	}
	var n int64
	record := func(kind, sig, what string, cs c08Case, nontrivial bool, h uint64) {
		ctx.R.Evals++
		ctx.R.Trans++
		if nontrivial {
			ctx.Nontrivial(h)
		}
		if sig != "" {
			ctx.Violate(sig, what, cs)
			ctx.Outcome(kind + ":" + strings.SplitN(sig, ":", 2)[0])
		} else {
			ctx.R.Traces++
			ctx.Outcome(kind + ":ok")
		}
		if ctx.R.Evals%7001 == 13 {
			ctx.Sample(cs)
		}
	}
	// 0 and 1 deviations
	{
		s, w, _ := runDevs(nil)
		record("deviation", s, w, c08Case{Codec: c.Name, Kind: "deviation"}, false, 0)
	}
	for li := range leaves {
		for vi := range bvals[li] {
			n++
			if !ctx.Mine(n) {
				continue
			}
			d := []c08Dev{{li, vi}}
			s, w, paths := runDevs(d)
			record("deviation", s, w, c08Case{Codec: c.Name, Kind: "deviation", Devs: d, Paths: paths}, true, vr.Hash(c.Name, li, vi))
		}
	}
	// 2 deviations (thorough): pairs within the same message or parent/child messages
	if ctx.Param("pairs", 0) == 1 {
		parent := func(p string) string {
			if i := strings.LastIndex(p, "."); i >= 0 {
				return p[:i]
			}
			return ""
		}
		for a := range leaves {
			for b := a + 1; b < len(leaves); b++ {
				pa, pb := parent(leaves[a].path), parent(leaves[b].path)
				if !(pa == pb || parent(pa) == pb || pa == parent(pb)) {
					continue
				}
				for va := range bvals[a] {
					for vb := range bvals[b] {
						n++
						if !ctx.Mine(n) {
							continue
						}
						if n%4096 == 0 && ctx.Expired() {
							return
						}
						d := []c08Dev{{a, va}, {b, vb}}
						s, w, paths := runDevs(d)
						record("deviation2", s, w, c08Case{Codec: c.Name, Kind: "deviation", Devs: d, Paths: paths}, true, vr.Hash(c.Name, a, va, b, vb))
					}
				}
			}
		}
	}
	// arbitrary bytes over a protobuf-significant alphabet
	alpha := []byte{0x0a, 0x12, 0x1a, 0x22, 0x08, 0x10, 0x09, 0x0d, 0x0b, 0x0c, 0x00, 0x01, 0x02, 0x7f, 0x80, 0xff}
	maxLen := ctx.Param("bytes", 3)
	var recB func(cur []byte)
	recB = func(cur []byte) {
		n++
		if ctx.Mine(n) {
			s, w := c08CheckBytes(c, cur, false)
			record("bytes", s, w, c08Case{Codec: c.Name, Kind: "bytes", Bytes: append([]byte(nil), cur...)}, len(cur) > 0, vr.Hash(c.Name, "b", string(cur)))
		}
		if len(cur) == maxLen {
			return
		}
		for _, a := range alpha {
			recB(append(cur, a))
		}
	}
	recB(nil)
	toks := []string{"{", "}", "[", "]", ":", ",", `"` + c.JSONRootKey + `"`, `"a"`, "1", "null", `"1"`, `"resource"`, "true"}
	maxTok := ctx.Param("jsontokens", 4)
	var recJ func(cur string, k int)
	recJ = func(cur string, k int) {
		n++
		if ctx.Mine(n) {
			s, w := c08CheckBytes(c, []byte(cur), true)
			record("json", s, w, c08Case{Codec: c.Name, Kind: "json", Text: cur}, cur != "", vr.Hash(c.Name, "j", cur))
		}
		if k == maxTok {
			return
		}
		for _, tk := range toks {
			recJ(cur+tk, k+1)
		}
	}
	recJ("", 0)
	ctx.R.States = ctx.R.Evals
	_ = sort.Strings
}


// c08LegacyBytes re-encodes pb with every non-empty repeated field X that has a sibling DeprecatedX moved to that sibling
// (generated Marshal of the protobuf struct itself; no migration code involved). ok=false when the payload has no such field
// or nothing to move.
func c08LegacyBytes(c *c08Codec, pb []byte) ([]byte, bool) {
	x := reflect.New(c.Root)
	um, ok := x.Interface().(interface{ Unmarshal([]byte) error })
	if !ok || um.Unmarshal(pb) != nil {
		return nil, false
	}
	moved := false
	var walk func(v reflect.Value, depth int)
	walk = func(v reflect.Value, depth int) {
		if depth > 8 {
			return
		}
		switch v.Kind() {
		case reflect.Ptr:
			if !v.IsNil() {
				walk(v.Elem(), depth+1)
			}
		case reflect.Slice:
			if v.Type().Elem().Kind() != reflect.Uint8 {
				for i := 0; i < v.Len(); i++ {
					walk(v.Index(i), depth+1)
				}
			}
		case reflect.Struct:
			t := v.Type()
			for i := 0; i < t.NumField(); i++ {
				f := t.Field(i)
				if strings.HasPrefix(f.Name, "Deprecated") {
					if sib, ok := t.FieldByName(strings.TrimPrefix(f.Name, "Deprecated")); ok && sib.Type == f.Type && f.Type.Kind() == reflect.Slice {
						sv := v.FieldByIndex(sib.Index)
						if sv.Len() > 0 {
							v.Field(i).Set(sv)
							sv.Set(reflect.Zero(sib.Type))
							moved = true
						}
					}
					continue
				}
				if f.IsExported() && !strings.HasPrefix(f.Name, "XXX_") {
					walk(v.Field(i), depth+1)
				}
			}
		}
	}
	walk(x, 0)
	if !moved {
		return nil, false
	}
	m, ok := x.Interface().(interface{ Marshal() ([]byte, error) })
	if !ok {
		return nil, false
	}
	b, err := m.Marshal()
	return b, err == nil
}
