//go:build verif

package plog

import (
	"reflect"
	"testing"

	otlpcollectorlog "go.opentelemetry.io/collector/pdata/internal/data/protogen/collector/logs/v1"
)

var c08Logs = &c08Codec{
	Name: "plog", Root: reflect.TypeOf(otlpcollectorlog.ExportLogsServiceRequest{}), JSONRootKey: "resourceLogs",
	Wrap:          func(r any) any { return newLogs(r.(*otlpcollectorlog.ExportLogsServiceRequest)) },
	Orig:          func(p any) any { return p.(Logs).getOrig() },
	MarshalProto:  func(p any) ([]byte, error) { return (&ProtoMarshaler{}).MarshalLogs(p.(Logs)) },
	Size:          func(p any) int { return (&ProtoMarshaler{}).LogsSize(p.(Logs)) },
	UnmarshalPB:   func(b []byte) (any, error) { return (&ProtoUnmarshaler{}).UnmarshalLogs(b) },
	MarshalJSON:   func(p any) ([]byte, error) { return (&JSONMarshaler{}).MarshalLogs(p.(Logs)) },
	UnmarshalJSON: func(b []byte) (any, error) { return (&JSONUnmarshaler{}).UnmarshalLogs(b) },
}

func TestVerif(t *testing.T) { c08Main(t, c08Logs) }
