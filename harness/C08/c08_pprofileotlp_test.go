//go:build verif

package pprofileotlp

// C08 - "The same holds for the OTLP export request and response wrappers": ExportRequest / ExportResponse of this signal.

import (
	"reflect"
	"testing"

	"go.opentelemetry.io/collector/pdata/internal"
	otlpcollectorprofile "go.opentelemetry.io/collector/pdata/internal/data/protogen/collector/profiles/v1development"
)

func c08State() *internal.State { s := internal.StateMutable; return &s }

var c08Req = &c08Codec{
	Name: "pprofileotlp-request", Root: reflect.TypeOf(otlpcollectorprofile.ExportProfilesServiceRequest{}), JSONRootKey: "resourceProfiles",
	Wrap:         func(r any) any { return ExportRequest{orig: r.(*otlpcollectorprofile.ExportProfilesServiceRequest), state: c08State()} },
	Orig:         func(p any) any { return p.(ExportRequest).orig },
	MarshalProto: func(p any) ([]byte, error) { return p.(ExportRequest).MarshalProto() },
	UnmarshalPB: func(b []byte) (any, error) {
		r := NewExportRequest()
		return r, r.UnmarshalProto(b)
	},
	MarshalJSON: func(p any) ([]byte, error) { return p.(ExportRequest).MarshalJSON() },
	UnmarshalJSON: func(b []byte) (any, error) {
		r := NewExportRequest()
		return r, r.UnmarshalJSON(b)
	},
}

var c08Resp = &c08Codec{
	Name: "pprofileotlp-response", Root: reflect.TypeOf(otlpcollectorprofile.ExportProfilesServiceResponse{}), JSONRootKey: "partialSuccess",
	Wrap:         func(r any) any { return ExportResponse{orig: r.(*otlpcollectorprofile.ExportProfilesServiceResponse), state: c08State()} },
	Orig:         func(p any) any { return p.(ExportResponse).orig },
	MarshalProto: func(p any) ([]byte, error) { return p.(ExportResponse).MarshalProto() },
	UnmarshalPB: func(b []byte) (any, error) {
		r := NewExportResponse()
		return r, r.UnmarshalProto(b)
	},
	MarshalJSON: func(p any) ([]byte, error) { return p.(ExportResponse).MarshalJSON() },
	UnmarshalJSON: func(b []byte) (any, error) {
		r := NewExportResponse()
		return r, r.UnmarshalJSON(b)
	},
}

func TestVerif(t *testing.T) { c08MainMulti(t, "pprofileotlp", c08Req, c08Resp) }
