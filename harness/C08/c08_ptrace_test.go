//go:build verif

package ptrace

import (
	"reflect"
	"testing"

	otlpcollectortrace "go.opentelemetry.io/collector/pdata/internal/data/protogen/collector/trace/v1"
)

var c08Traces = &c08Codec{
	Name: "ptrace", Root: reflect.TypeOf(otlpcollectortrace.ExportTraceServiceRequest{}), JSONRootKey: "resourceSpans",
	Wrap:          func(r any) any { return newTraces(r.(*otlpcollectortrace.ExportTraceServiceRequest)) },
	Orig:          func(p any) any { return p.(Traces).getOrig() },
	MarshalProto:  func(p any) ([]byte, error) { return (&ProtoMarshaler{}).MarshalTraces(p.(Traces)) },
	Size:          func(p any) int { return (&ProtoMarshaler{}).TracesSize(p.(Traces)) },
	UnmarshalPB:   func(b []byte) (any, error) { return (&ProtoUnmarshaler{}).UnmarshalTraces(b) },
	MarshalJSON:   func(p any) ([]byte, error) { return (&JSONMarshaler{}).MarshalTraces(p.(Traces)) },
	UnmarshalJSON: func(b []byte) (any, error) { return (&JSONUnmarshaler{}).UnmarshalTraces(b) },
}

func TestVerif(t *testing.T) { c08Main(t, c08Traces) }
