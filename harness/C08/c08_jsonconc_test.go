//go:build verif

package pprofileotlp

// C08 (unit json-concurrent) - the OTLP/JSON decoders of all four signals share one process-wide iterator pool
// (jsoniter.ConfigFastest): "decoding what the marshaler produced yields a payload equal to the original" also has to hold
// for two decodes that overlap in time, whatever was decoded - or rejected - before. Phase 1 (sequential): one entry point
// is offered rejected inputs. Phase 2: two threads decode two different valid documents through two entry points under the
// controlled scheduler; the only scheduling point inside a decode is the moment right after its iterator was borrowed
// (hook in a build overlay of jsoniter's pool.go). Each must decode exactly its own document.

import (
	"encoding/json"
	"fmt"
	"runtime/debug"
	"strings"
	"testing"

	jsoniter "github.com/json-iterator/go"

	"go.opentelemetry.io/collector/pdata/plog"
	"go.opentelemetry.io/collector/pdata/plog/plogotlp"
	"go.opentelemetry.io/collector/pdata/pmetric"
	"go.opentelemetry.io/collector/pdata/pmetric/pmetricotlp"
	"go.opentelemetry.io/collector/pdata/ptrace"
	"go.opentelemetry.io/collector/pdata/ptrace/ptraceotlp"

	"VERIF/vr"
	"VERIF/vs"
)

// an entry point decodes a document and returns its canonical re-encoding
type c08jEntry struct {
	name string
	doc  func(tag string) []byte
	dec  func(b []byte) (string, error)
}

func c08jEntries() []c08jEntry {
	logs := func(tag string) plog.Logs {
		ld := plog.NewLogs()
		ld.ResourceLogs().AppendEmpty().ScopeLogs().AppendEmpty().LogRecords().AppendEmpty().Body().SetStr(tag)
		return ld
	}
	traces := func(tag string) ptrace.Traces {
		td := ptrace.NewTraces()
		td.ResourceSpans().AppendEmpty().ScopeSpans().AppendEmpty().Spans().AppendEmpty().SetName(tag)
		return td
	}
	metrics := func(tag string) pmetric.Metrics {
		md := pmetric.NewMetrics()
		md.ResourceMetrics().AppendEmpty().ScopeMetrics().AppendEmpty().Metrics().AppendEmpty().SetName(tag)
		return md
	}
	must := func(b []byte, err error) []byte {
		if err != nil {
			panic(err)
		}
		return b
	}
	return []c08jEntry{
		{"plogotlp.ExportRequest", func(t string) []byte { return must(plogotlp.NewExportRequestFromLogs(logs(t)).MarshalJSON()) },
			func(b []byte) (string, error) {
				r := plogotlp.NewExportRequest()
				if err := r.UnmarshalJSON(b); err != nil {
					return "", err
				}
				o, err := r.MarshalJSON()
				return string(o), err
			}},
		{"ptraceotlp.ExportRequest", func(t string) []byte { return must(ptraceotlp.NewExportRequestFromTraces(traces(t)).MarshalJSON()) },
			func(b []byte) (string, error) {
				r := ptraceotlp.NewExportRequest()
				if err := r.UnmarshalJSON(b); err != nil {
					return "", err
				}
				o, err := r.MarshalJSON()
				return string(o), err
			}},
		{"pmetricotlp.ExportRequest", func(t string) []byte { return must(pmetricotlp.NewExportRequestFromMetrics(metrics(t)).MarshalJSON()) },
			func(b []byte) (string, error) {
				r := pmetricotlp.NewExportRequest()
				if err := r.UnmarshalJSON(b); err != nil {
					return "", err
				}
				o, err := r.MarshalJSON()
				return string(o), err
			}},
		{"plogotlp.ExportResponse", func(t string) []byte {
			r := plogotlp.NewExportResponse()
			r.PartialSuccess().SetErrorMessage(t)
			return must(r.MarshalJSON())
		}, func(b []byte) (string, error) {
			r := plogotlp.NewExportResponse()
			if err := r.UnmarshalJSON(b); err != nil {
				return "", err
			}
			o, err := r.MarshalJSON()
			return string(o), err
		}},
		{"ptraceotlp.ExportResponse", func(t string) []byte {
			r := ptraceotlp.NewExportResponse()
			r.PartialSuccess().SetErrorMessage(t)
			return must(r.MarshalJSON())
		}, func(b []byte) (string, error) {
			r := ptraceotlp.NewExportResponse()
			if err := r.UnmarshalJSON(b); err != nil {
				return "", err
			}
			o, err := r.MarshalJSON()
			return string(o), err
		}},
		{"pmetricotlp.ExportResponse", func(t string) []byte {
			r := pmetricotlp.NewExportResponse()
			r.PartialSuccess().SetErrorMessage(t)
			return must(r.MarshalJSON())
		}, func(b []byte) (string, error) {
			r := pmetricotlp.NewExportResponse()
			if err := r.UnmarshalJSON(b); err != nil {
				return "", err
			}
			o, err := r.MarshalJSON()
			return string(o), err
		}},
		{"pprofileotlp.ExportResponse", func(t string) []byte {
			r := NewExportResponse()
			r.PartialSuccess().SetErrorMessage(t)
			return must(r.MarshalJSON())
		}, func(b []byte) (string, error) {
			r := NewExportResponse()
			if err := r.UnmarshalJSON(b); err != nil {
				return "", err
			}
			o, err := r.MarshalJSON()
			return string(o), err
		}},
		{"plog.JSONUnmarshaler", func(t string) []byte { return must((&plog.JSONMarshaler{}).MarshalLogs(logs(t))) },
			func(b []byte) (string, error) {
				ld, err := (&plog.JSONUnmarshaler{}).UnmarshalLogs(b)
				if err != nil {
					return "", err
				}
				o, err := (&plog.JSONMarshaler{}).MarshalLogs(ld)
				return string(o), err
			}},
	}
}

var c08jRejected = [][]byte{[]byte(`{"partialSuccess": {"errorMessage": 7}}`), []byte(`{"resourceLogs": [{"scopeLogs": 3}]}`), []byte(`{`), []byte(`[]`), []byte(`{"partialSuccess":`)}

type c08jCase struct {
	Bad int `json:"entry_point_offered_rejected_inputs"`
	A   int `json:"first_concurrent_decoder"`
	B   int `json:"second_concurrent_decoder"`
}

type c08jObs struct {
	res      [2]string
	err      [2]error
	finished bool
}

func c08jBody(c *c08jCase, es []c08jEntry, o *c08jObs) func() {
	return func() {
		*o = c08jObs{}
		defer debug.SetGCPercent(debug.SetGCPercent(-1)) // a collection empties sync.Pool: keep the pool's contents a function of the execution
		jsoniter.VerifAfterBorrow = nil
		for _, b := range c08jRejected {
			_, _ = es[c.Bad].dec(b)
		}
		jsoniter.VerifAfterBorrow = vs.Point
		defer func() { jsoniter.VerifAfterBorrow = nil }()
		docs := [2][]byte{es[c.A].doc("first document"), es[c.B].doc("second document, a longer one")}
		var wg vs.WaitGroup
		for t := 0; t < 2; t++ {
			t := t
			e := es[c.A]
			if t == 1 {
				e = es[c.B]
			}
			wg.Add(1)
			vs.GoNamed(fmt.Sprintf("decoder%d", t+1), func() {
				defer wg.Done()
				o.res[t], o.err[t] = e.dec(docs[t])
			})
		}
		wg.Wait()
		o.finished = true
	}
}

func c08jVerdict(c *c08jCase, es []c08jEntry, o *c08jObs, s *vs.Sched) (string, string) {
	desc := fmt.Sprintf("rejected inputs offered to %s, then %s and %s decode concurrently", es[c.Bad].name, es[c.A].name, es[c.B].name)
	if v := s.Verdict(); v != "" {
		return "json-concurrent:" + strings.SplitN(fmt.Sprint(s.Panic), "\n", 2)[0], desc + ": " + v + "\n" + s.PanicStack
	}
	if !o.finished {
		return "json-concurrent:unfinished", desc
	}
	want := [2]string{string(es[c.A].doc("first document")), string(es[c.B].doc("second document, a longer one"))}
	for t := 0; t < 2; t++ {
		if o.err[t] != nil {
			return "json-concurrent:marshaler-output-rejected", fmt.Sprintf("%s: decoder %d rejected what the marshaler produced: %v", desc, t+1, o.err[t])
		}
		if o.res[t] != want[t] {
			return "json-concurrent:decoded-something-else", fmt.Sprintf("%s: decoder %d decoded %s, its document was %s", desc, t+1, o.res[t], want[t])
		}
	}
	return "", ""
}

type c08jReplay struct {
	Case    *c08jCase `json:"case"`
	Choices []int     `json:"choices"`
}

func TestVerifJSONConcurrent(t *testing.T) {
	ctx := vr.Start("C08", "json-concurrent")
	if ctx == nil {
		t.Skip("not driven")
	}
	defer ctx.Finish()
	es := c08jEntries()
	if ctx.ReplayRaw != nil {
		var rf struct {
			Replay c08jReplay `json:"replay"`
		}
		if err := json.Unmarshal(ctx.ReplayRaw, &rf); err != nil {
			t.Fatal(err)
		}
		var o c08jObs
		s := vs.Run(rf.Replay.Choices, c08jBody(rf.Replay.Case, es, &o))
		sig, what := c08jVerdict(rf.Replay.Case, es, &o, s)
		t.Logf("%s %s", sig, what)
		if sig != "" {
			ctx.Violate(sig, what, rf.Replay)
		}
		return
	}
	bound := ctx.Param("bound", 2)
	var n int64
	for bad := range es {
		for a := range es {
			for b := range es {
				n++
				if !ctx.Mine(n) {
					continue
				}
				c := &c08jCase{Bad: bad, A: a, B: b}
				var o c08jObs
				st := vs.Explore(vs.Opts{Bound: bound, Shard: 0, Shards: 1, Expired: ctx.Expired}, c08jBody(c, es, &o), func(s *vs.Sched, owned bool) bool {
					sig, what := c08jVerdict(c, es, &o, s)
					ctx.R.Evals++
					ctx.R.Traces++
					ctx.Outcome("each-decoder-decoded-its-own-document")
					if sig != "" {
						ctx.Violate(sig, what, c08jReplay{c, s.Choices()})
					}
					return sig == ""
				})
				for _, x := range st.Infra {
					ctx.Infra("%+v: %s", *c, x)
				}
				ctx.R.Trans += st.Steps
				ctx.R.States += st.Nodes
				ctx.Nontrivial(vr.Hash(bad, a, b))
			}
		}
	}
}
