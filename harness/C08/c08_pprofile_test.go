//go:build verif

package pprofile

import (
	"reflect"
	"testing"

	otlpcollectorprofile "go.opentelemetry.io/collector/pdata/internal/data/protogen/collector/profiles/v1development"
)

var c08Profiles = &c08Codec{
	Name: "pprofile", Root: reflect.TypeOf(otlpcollectorprofile.ExportProfilesServiceRequest{}), JSONRootKey: "resourceProfiles",
	Wrap:          func(r any) any { return newProfiles(r.(*otlpcollectorprofile.ExportProfilesServiceRequest)) },
	Orig:          func(p any) any { return p.(Profiles).getOrig() },
	MarshalProto:  func(p any) ([]byte, error) { return (&ProtoMarshaler{}).MarshalProfiles(p.(Profiles)) },
	Size:          func(p any) int { return (&ProtoMarshaler{}).ProfilesSize(p.(Profiles)) },
	UnmarshalPB:   func(b []byte) (any, error) { return (&ProtoUnmarshaler{}).UnmarshalProfiles(b) },
	MarshalJSON:   func(p any) ([]byte, error) { return (&JSONMarshaler{}).MarshalProfiles(p.(Profiles)) },
	UnmarshalJSON: func(b []byte) (any, error) { return (&JSONUnmarshaler{}).UnmarshalProfiles(b) },
}

func TestVerif(t *testing.T) { c08Main(t, c08Profiles) }
