//go:build verif

package pmetric

import (
	"reflect"
	"testing"

	otlpcollectormetrics "go.opentelemetry.io/collector/pdata/internal/data/protogen/collector/metrics/v1"
)

var c08Metrics = &c08Codec{
	Name: "pmetric", Root: reflect.TypeOf(otlpcollectormetrics.ExportMetricsServiceRequest{}), JSONRootKey: "resourceMetrics",
	Wrap:          func(r any) any { return newMetrics(r.(*otlpcollectormetrics.ExportMetricsServiceRequest)) },
	Orig:          func(p any) any { return p.(Metrics).getOrig() },
	MarshalProto:  func(p any) ([]byte, error) { return (&ProtoMarshaler{}).MarshalMetrics(p.(Metrics)) },
	Size:          func(p any) int { return (&ProtoMarshaler{}).MetricsSize(p.(Metrics)) },
	UnmarshalPB:   func(b []byte) (any, error) { return (&ProtoUnmarshaler{}).UnmarshalMetrics(b) },
	MarshalJSON:   func(p any) ([]byte, error) { return (&JSONMarshaler{}).MarshalMetrics(p.(Metrics)) },
	UnmarshalJSON: func(b []byte) (any, error) { return (&JSONUnmarshaler{}).UnmarshalMetrics(b) },
}

func TestVerif(t *testing.T) { c08Main(t, c08Metrics) }
