//go:build verif

package VERIFPKG

// C04 layer 1 — MergeSplit conserves telemetry with identity, respects the size limit and terminates.
// Engine E2+E4: every payload shape of a small universe x every (sizer, max) x every request sequence up to the bound,
// chained exactly as the batcher chains them, judged by multiset-with-identity conservation, the size bound measured
// with the public marshaler, a loop-tick termination guard and panic capture.
// This file is signal-agnostic; c04_ltm_test.go / c04_prof_test.go provide the adapters.

import (
	"context"
	"encoding/json"
	"fmt"
	"sort"
	"strings"
	"testing"

	"go.opentelemetry.io/collector/exporter/exporterhelper/internal/request"

	"VERIF/vr"
	"VERIF/vs"
)

// c04RealSig: a signal adapter plus the real sizers of its request type (layer 3, c04_real_test.go); registered by the
// per-package adapter files
type c04RealSig struct {
	Sig    *c04Signal
	Sizers func() map[request.SizerType]request.Sizer[request.Request]
}

var (
	c04RealSignals []c04RealSig
	c04RealUnit    string
)

// a shape is a list of resources; each resource a list of scopes; each scope a list of groups (metrics / profiles; one
// implicit group for logs and traces); each group has n items (points / samples / records / spans).
type c04Shape [][][]int

type c04Signal struct {
	Name   string
	Levels int // 3 = resource/scope/item, 4 = resource/scope/group/item
	// Build creates a request for the shape; ids start at *ctr (advanced). Returns the identity string of every item. fat>0
	// makes the first item carry a long attribute.
	Build func(sh c04Shape, ctr *int, fat int) (c04Request, []string)
	// Observe lists the identity strings of all items in the request, its item count, the number of indivisible units and
	// its size in bytes measured with the public marshaler.
	Observe func(r c04Request) (items []string, count int, units int, bytes int)
	// Tag optionally classifies an oversized fragment by a structural feature (part of the violation signature).
	Tag func(r c04Request) string
}

type c04Case struct {
	Signal string     `json:"signal"`
	Sizer  string     `json:"sizer"` // items | bytes
	Max    int        `json:"max"`
	Shapes []c04Shape `json:"shapes"`
	Fat    int        `json:"fat"`
}

func c04Seqs(alpha []int, maxLen int) [][]int {
	var out [][]int
	var rec func(cur []int)
	rec = func(cur []int) {
		out = append(out, append([]int(nil), cur...))
		if len(cur) == maxLen {
			return
		}
		for _, a := range alpha {
			rec(append(cur, a))
		}
	}
	rec(nil)
	return out
}

// c04Shapes enumerates all shapes with <= R resources, <= S scopes, <= G groups, <= P items (empties included).
func c04Shapes(levels, R, S, G, P int) []c04Shape {
	var pts []int
	for p := 0; p <= P; p++ {
		pts = append(pts, p)
	}
	var groupSets [][]int
	if levels == 4 {
		groupSets = c04Seqs(pts, G)
	} else {
		for _, p := range pts {
			groupSets = append(groupSets, []int{p})
		}
	}
	var idx []int
	for i := range groupSets {
		idx = append(idx, i)
	}
	var scopeSets [][][]int
	for _, s := range c04Seqs(idx, S) {
		var sc [][]int
		for _, gi := range s {
			sc = append(sc, groupSets[gi])
		}
		scopeSets = append(scopeSets, sc)
	}
	idx = nil
	for i := range scopeSets {
		idx = append(idx, i)
	}
	var out []c04Shape
	for _, r := range c04Seqs(idx, R) {
		var sh c04Shape
		for _, si := range r {
			sh = append(sh, scopeSets[si])
		}
		out = append(out, sh)
	}
	return out
}

func (s c04Shape) items() int {
	n := 0
	for _, r := range s {
		for _, sc := range r {
			for _, g := range sc {
				n += g
			}
		}
	}
	return n
}

var c04Debug func(string, ...any)

// c04RunCase executes one case on the real MergeSplit and returns (signature, explanation) of the first violation.
func c04RunCase(sig *c04Signal, c c04Case) (string, string) {
	ctr := 0
	var want []string
	var reqs []c04Request
	for i, sh := range c.Shapes {
		fat := 0
		if i == 0 {
			fat = c.Fat
		}
		r, ids := sig.Build(sh, &ctr, fat)
		reqs = append(reqs, r)
		want = append(want, ids...)
	}
	var emitted []c04Request
	var mergeErr error
	nonterm, pan := vs.Guard(func() {
		var cur c04Request
		for _, r := range reqs {
			var list []c04Request
			if cur == nil {
				list, mergeErr = c04MergeSplit(r, c.Max, c.Sizer, nil)
			} else {
				list, mergeErr = c04MergeSplit(cur, c.Max, c.Sizer, r)
			}
			if mergeErr != nil {
				return
			}
			if len(list) == 0 {
				mergeErr = fmt.Errorf("MergeSplit returned an empty list")
				return
			}
			emitted = append(emitted, list[:len(list)-1]...)
			cur = list[len(list)-1]
		}
		if cur != nil {
			emitted = append(emitted, cur)
		}
	})
	key := c.Signal + ":" + c.Sizer
	switch {
	case nonterm:
		return "non-termination:" + key, fmt.Sprintf("MergeSplit did not terminate within %d loop iterations", vs.TickLimit)
	case pan != nil:
		return "panic:" + key + ":" + fmt.Sprint(pan), fmt.Sprintf("panic: %v", pan)
	case mergeErr != nil:
		return "error:" + key, "MergeSplit returned an error: " + mergeErr.Error()
	}
	var got []string
	for fi, r := range emitted {
		items, count, units, bytes := sig.Observe(r)
		if c04Debug != nil {
			c04Debug("fragment %d: count=%d units=%d bytes=%d items=%v", fi, count, units, bytes, items)
		}
		got = append(got, items...)
		if c.Max > 0 {
			size := count
			if c.Sizer == "bytes" {
				size = bytes
			}
			if size > c.Max && units > 1 {
				if sig.Tag != nil {
					if tg := sig.Tag(r); tg != "" {
						key += ":" + tg
					}
				}
				return "oversize:" + key, fmt.Sprintf("fragment %d of %d has size %d %s > max %d and holds %d indivisible units", fi, len(emitted), size, c.Sizer, c.Max, units)
			}
		}
	}
	if c.Fat == c04Blank {
		if len(got) != len(want) {
			return "item-count-differs:" + key, fmt.Sprintf("%d items without content entered, %d left", len(want), len(got))
		}
		return "", ""
	}
	sort.Strings(want)
	sort.Strings(got)
	if strings.Join(want, "\n") != strings.Join(got, "\n") {
		// explain the first difference keyed by item id (last field)
		byID := func(l []string) map[string][]string {
			m := map[string][]string{}
			for _, x := range l {
				id := x[strings.LastIndexByte(x, '|')+1:]
				m[id] = append(m[id], x)
			}
			return m
		}
		w, g := byID(want), byID(got)
		var ids []string
		for id := range w {
			ids = append(ids, id)
		}
		for id := range g {
			if _, ok := w[id]; !ok {
				ids = append(ids, id)
			}
		}
		sort.Strings(ids)
		for _, id := range ids {
			switch {
			case len(g[id]) == 0:
				return "item-lost:" + key, fmt.Sprintf("item %s entered and never left: %s", id, w[id][0])
			case len(w[id]) == 0:
				return "item-invented:" + key, fmt.Sprintf("item %s left but never entered: %s", id, g[id][0])
			case len(g[id]) != len(w[id]):
				return "item-duplicated:" + key, fmt.Sprintf("item %s entered %d times, left %d times", id, len(w[id]), len(g[id]))
			case g[id][0] != w[id][0]:
				wf, gf := strings.Split(w[id][0], "|"), strings.Split(g[id][0], "|")
				var diff []string
				for i := range wf {
					if i < len(gf) && wf[i] != gf[i] {
						diff = append(diff, strings.SplitN(wf[i], "=", 2)[0])
					}
				}
				return "context-changed:" + key + ":" + strings.Join(diff, ","), fmt.Sprintf("item %s changed its context: entered as %s, left as %s", id, w[id][0], g[id][0])
			}
		}
		return "multiset-differs:" + key, "multisets differ"
	}
	return "", ""
}

func c04ByteLadder(sig *c04Signal, shapes []c04Shape) []int { return c04ByteLadderF(sig, shapes, 0) }

// c04Blank as the `fat` argument of Build: the items carry NOTHING (no id, no value, no attribute): their own encoding is
// empty, they cost only the two framing bytes of a repeated-field element. Such cases are judged by the size bound and by
// item COUNT (there is no identity to compare).
const c04Blank = -1

func c04ByteLadderF(sig *c04Signal, shapes []c04Shape, fat int) []int {
	// sizes derived from the payload itself: the whole, halves, and the single-item request sizes +-1
	ctr := 0
	set := map[int]bool{}
	total := 0
	for _, sh := range shapes {
		r, _ := sig.Build(sh, &ctr, fat)
		_, _, _, b := sig.Observe(r)
		total += b
	}
	for _, v := range []int{total - 1, total / 2, total/3 + 1} {
		if v > 0 {
			set[v] = true
		}
	}
	// single item with context
	one := c04Shape{{{1}}}
	if sig.Levels == 3 {
		one = c04Shape{{{1}}}
	}
	r, _ := sig.Build(one, &ctr, fat)
	_, _, _, b1 := sig.Observe(r)
	for _, v := range []int{b1 - 1, b1, b1 + 1, 2 * b1, 2*b1 + 3} {
		if v > 0 {
			set[v] = true
		}
	}
	var l []int
	for v := range set {
		l = append(l, v)
	}
	sort.Ints(l)
	return l
}

func c04Main(t *testing.T, unit string, signals []*c04Signal) {
	ctx := vr.Start("C04", unit)
	if ctx == nil {
		t.Skip("not driven")
	}
	defer ctx.Finish()
	byName := map[string]*c04Signal{}
	for _, s := range signals {
		byName[s.Name] = s
	}
	if ctx.ReplayRaw != nil {
		var rf struct {
			Replay c04Case `json:"replay"`
		}
		if err := json.Unmarshal(ctx.ReplayRaw, &rf); err != nil {
			t.Fatal(err)
		}
		c04Debug = t.Logf
		sig, what := c04RunCase(byName[rf.Replay.Signal], rf.Replay)
		t.Logf("replay %+v => %s %s", rf.Replay, sig, what)
		if sig != "" {
			ctx.Violate(sig, what, rf.Replay)
		}
		return
	}
	seqLen := ctx.Param("seq", 2)
	dim := ctx.Param("dim", 2)
	var n int64
	for _, sig := range signals {
		var shapes []c04Shape
		if sig.Levels == 4 {
			shapes = c04Shapes(4, dim, 1, dim, dim)
		} else {
			shapes = c04Shapes(3, dim, dim, 1, dim)
		}
		// request sequences: all sequences of shapes up to seqLen (the shape universe itself is the alphabet). To bound the
		// product, sequences longer than 1 use the shapes with at most 4 items.
		var small []int
		for i, sh := range shapes {
			if sh.items() <= 4 {
				small = append(small, i)
			}
		}
		ctx.R.Extra["shapes_"+sig.Name] = len(shapes)
		var seqs [][]int
		for i := range shapes {
			seqs = append(seqs, []int{i})
		}
		if seqLen >= 2 {
			for _, a := range small {
				for _, b := range small {
					seqs = append(seqs, []int{a, b})
				}
			}
		}
		if seqLen >= 3 {
			var tiny []int
			for i, sh := range shapes {
				if sh.items() <= 2 && len(sh) <= 1 {
					tiny = append(tiny, i)
				}
			}
			for _, a := range small {
				for _, b := range tiny {
					for _, c := range tiny {
						seqs = append(seqs, []int{a, b, c})
					}
				}
			}
		}
		for _, seq := range seqs {
			n++
			if !ctx.Mine(n) {
				continue
			}
			if n%64 == 0 && ctx.Expired() {
				return
			}
			var shs []c04Shape
			items := 0
			for _, i := range seq {
				shs = append(shs, shapes[i])
				items += shapes[i].items()
			}
			run := func(c c04Case) {
				ctx.R.Evals++
				ctx.R.Trans++
				s, what := c04RunCase(sig, c)
				if items > 1 && c.Max > 0 {
					ctx.Nontrivial(vr.Hash(c.Signal, c.Sizer, c.Max, fmt.Sprint(c.Shapes), c.Fat))
				}
				if s != "" {
					ctx.Violate(s, fmt.Sprintf("%s | case: signal=%s sizer=%s max=%d shapes=%v fat=%d", what, c.Signal, c.Sizer, c.Max, c.Shapes, c.Fat), c)
					ctx.Outcome(sig.Name + ":" + strings.SplitN(s, ":", 2)[0])
				} else {
					ctx.R.Traces++
					ctx.Outcome(sig.Name + ":ok")
				}
				if ctx.R.Evals%40009 == 3 {
					ctx.Sample(c)
				}
			}
			for _, max := range []int{0, 1, 2, 3, 5} {
				run(c04Case{Signal: sig.Name, Sizer: "items", Max: max, Shapes: shs})
			}
			if items > 0 {
				for _, max := range c04ByteLadder(sig, shs) {
					run(c04Case{Signal: sig.Name, Sizer: "bytes", Max: max, Shapes: shs})
				}
				// items without any content ("empty containers" all the way down): two framing bytes each
				if len(seq) == 1 {
					for _, max := range c04ByteLadderF(sig, shs, c04Blank) {
						run(c04Case{Signal: sig.Name, Sizer: "bytes", Max: max, Shapes: shs, Fat: c04Blank})
					}
				}
				// one fat item: a single item larger than max
				if len(seq) <= 2 {
					run(c04Case{Signal: sig.Name, Sizer: "bytes", Max: 100, Shapes: shs, Fat: 200})
					run(c04Case{Signal: sig.Name, Sizer: "items", Max: 1, Shapes: shs, Fat: 200})
				}
			}
		}
	}
	ctx.R.States = ctx.R.Evals
	_ = context.Background
}
