//go:build verif

package exporterhelper

import (
	"context"
	"fmt"
	"strings"
	"testing"

	"go.opentelemetry.io/collector/exporter/exporterhelper/internal/request"
	"go.opentelemetry.io/collector/pdata/pcommon"
	"go.opentelemetry.io/collector/pdata/plog"
	"go.opentelemetry.io/collector/pdata/pmetric"
	"go.opentelemetry.io/collector/pdata/ptrace"
)

type c04Request = Request

func c04MergeSplit(r c04Request, max int, sizer string, r2 c04Request) ([]c04Request, error) {
	szt := RequestSizerTypeItems
	if sizer == "bytes" {
		szt = RequestSizerTypeBytes
	}
	return r.MergeSplit(context.Background(), max, szt, r2)
}

func c04Fat(n int) string { return strings.Repeat("x", n) }

func c04ResMark(res pcommon.Resource, ctr *int) string {
	*ctr++
	id := fmt.Sprintf("R%d", *ctr)
	res.Attributes().PutStr("r", id)
	res.SetDroppedAttributesCount(uint32(*ctr))
	return id
}

func c04ResObs(res pcommon.Resource) string {
	v, _ := res.Attributes().Get("r")
	return fmt.Sprintf("res=%s/%d/%d", v.Str(), res.DroppedAttributesCount(), res.Attributes().Len())
}

func c04ScopeMark(sc pcommon.InstrumentationScope, ctr *int) {
	*ctr++
	sc.SetName(fmt.Sprintf("S%d", *ctr))
	sc.SetVersion(fmt.Sprintf("v%d", *ctr))
	sc.Attributes().PutInt("sa", int64(*ctr))
}

func c04ScopeObs(sc pcommon.InstrumentationScope) string {
	v, _ := sc.Attributes().Get("sa")
	return fmt.Sprintf("scope=%s/%s/%d", sc.Name(), sc.Version(), v.Int())
}

var c04Logs = &c04Signal{
	Name: "logs", Levels: 3,
	Build: func(sh c04Shape, ctr *int, fat int) (c04Request, []string) {
		ld := plog.NewLogs()
		var ids []string
		first := true
		for _, r := range sh {
			rl := ld.ResourceLogs().AppendEmpty()
			c04ResMark(rl.Resource(), ctr)
			rl.SetSchemaUrl(fmt.Sprintf("rs%d", *ctr))
			for _, s := range r {
				sl := rl.ScopeLogs().AppendEmpty()
				c04ScopeMark(sl.Scope(), ctr)
				sl.SetSchemaUrl(fmt.Sprintf("ss%d", *ctr))
				for i := 0; i < s[0]; i++ {
					*ctr++
					lr := sl.LogRecords().AppendEmpty()
					if fat == c04Blank {
						continue
					}
					lr.Body().SetStr(fmt.Sprintf("i%d", *ctr))
					lr.SetSeverityText("sev")
					if first && fat > 0 {
						lr.Attributes().PutStr("fat", c04Fat(fat))
					}
					first = false
				}
			}
		}
		b, err := (&plog.ProtoMarshaler{}).MarshalLogs(ld)
		if err != nil {
			panic(err)
		}
		req, err := NewLogsQueueBatchSettings().Encoding.Unmarshal(b)
		if err != nil {
			panic(err)
		}
		ids, _, _, _ = c04ObsLogs(req)
		return req, ids
	},
	Observe: func(r c04Request) ([]string, int, int, int) { return c04ObsLogs(r) },
}

func c04ObsLogs(r c04Request) (items []string, count, units, bytes int) {
	b, err := NewLogsQueueBatchSettings().Encoding.Marshal(r)
	if err != nil {
		panic(err)
	}
	ld, err := (&plog.ProtoUnmarshaler{}).UnmarshalLogs(b)
	if err != nil {
		panic(err)
	}
	for i := 0; i < ld.ResourceLogs().Len(); i++ {
		rl := ld.ResourceLogs().At(i)
		for j := 0; j < rl.ScopeLogs().Len(); j++ {
			sl := rl.ScopeLogs().At(j)
			for k := 0; k < sl.LogRecords().Len(); k++ {
				lr := sl.LogRecords().At(k)
				items = append(items, strings.Join([]string{c04ResObs(rl.Resource()), "rschema=" + rl.SchemaUrl(), c04ScopeObs(sl.Scope()), "sschema=" + sl.SchemaUrl(),
					fmt.Sprintf("rec=%s/%d", lr.SeverityText(), lr.Attributes().Len()), lr.Body().Str()}, "|"))
			}
		}
	}
	return items, r.ItemsCount(), len(items), len(b)
}

var c04Traces = &c04Signal{
	Name: "traces", Levels: 3,
	Build: func(sh c04Shape, ctr *int, fat int) (c04Request, []string) {
		td := ptrace.NewTraces()
		first := true
		for _, r := range sh {
			rs := td.ResourceSpans().AppendEmpty()
			c04ResMark(rs.Resource(), ctr)
			rs.SetSchemaUrl(fmt.Sprintf("rs%d", *ctr))
			for _, s := range r {
				ss := rs.ScopeSpans().AppendEmpty()
				c04ScopeMark(ss.Scope(), ctr)
				ss.SetSchemaUrl(fmt.Sprintf("ss%d", *ctr))
				for i := 0; i < s[0]; i++ {
					*ctr++
					sp := ss.Spans().AppendEmpty()
					if fat == c04Blank {
						continue
					}
					sp.SetName(fmt.Sprintf("i%d", *ctr))
					sp.Events().AppendEmpty().SetName("ev")
					if first && fat > 0 {
						sp.Attributes().PutStr("fat", c04Fat(fat))
					}
					first = false
				}
			}
		}
		b, err := (&ptrace.ProtoMarshaler{}).MarshalTraces(td)
		if err != nil {
			panic(err)
		}
		req, err := NewTracesQueueBatchSettings().Encoding.Unmarshal(b)
		if err != nil {
			panic(err)
		}
		ids, _, _, _ := c04ObsTraces(req)
		return req, ids
	},
	Observe: func(r c04Request) ([]string, int, int, int) { return c04ObsTraces(r) },
}

func c04ObsTraces(r c04Request) (items []string, count, units, bytes int) {
	b, err := NewTracesQueueBatchSettings().Encoding.Marshal(r)
	if err != nil {
		panic(err)
	}
	td, err := (&ptrace.ProtoUnmarshaler{}).UnmarshalTraces(b)
	if err != nil {
		panic(err)
	}
	for i := 0; i < td.ResourceSpans().Len(); i++ {
		rs := td.ResourceSpans().At(i)
		for j := 0; j < rs.ScopeSpans().Len(); j++ {
			ss := rs.ScopeSpans().At(j)
			for k := 0; k < ss.Spans().Len(); k++ {
				sp := ss.Spans().At(k)
				items = append(items, strings.Join([]string{c04ResObs(rs.Resource()), "rschema=" + rs.SchemaUrl(), c04ScopeObs(ss.Scope()), "sschema=" + ss.SchemaUrl(),
					fmt.Sprintf("span=%d/%d", sp.Events().Len(), sp.Attributes().Len()), sp.Name()}, "|"))
			}
		}
	}
	return items, r.ItemsCount(), len(items), len(b)
}

var c04Metrics = &c04Signal{
	Name: "metrics", Levels: 4,
	Build: func(sh c04Shape, ctr *int, fat int) (c04Request, []string) {
		md := pmetric.NewMetrics()
		first := true
		mark := func(a pcommon.Map) {
			if fat == c04Blank {
				return
			}
			*ctr++
			a.PutStr("id", fmt.Sprintf("i%d", *ctr))
			if first && fat > 0 {
				a.PutStr("fat", c04Fat(fat))
			}
			first = false
		}
		typ := 0
		for _, r := range sh {
			rm := md.ResourceMetrics().AppendEmpty()
			c04ResMark(rm.Resource(), ctr)
			rm.SetSchemaUrl(fmt.Sprintf("rs%d", *ctr))
			for _, s := range r {
				sm := rm.ScopeMetrics().AppendEmpty()
				c04ScopeMark(sm.Scope(), ctr)
				sm.SetSchemaUrl(fmt.Sprintf("ss%d", *ctr))
				for _, p := range s {
					*ctr++
					m := sm.Metrics().AppendEmpty()
					m.SetName(fmt.Sprintf("M%d", *ctr))
					m.SetUnit(fmt.Sprintf("u%d", *ctr))
					m.SetDescription(fmt.Sprintf("d%d", *ctr))
					m.Metadata().PutStr("md", fmt.Sprintf("md%d", *ctr))
					switch typ % 5 {
					case 0:
						g := m.SetEmptyGauge()
						for i := 0; i < p; i++ {
							dp := g.DataPoints().AppendEmpty()
							if fat != c04Blank {
								dp.SetIntValue(7)
							}
							mark(dp.Attributes())
						}
					case 1:
						g := m.SetEmptySum()
						g.SetIsMonotonic(true)
						g.SetAggregationTemporality(pmetric.AggregationTemporalityDelta)
						for i := 0; i < p; i++ {
							dp := g.DataPoints().AppendEmpty()
							if fat != c04Blank {
								dp.SetDoubleValue(1.5)
							}
							mark(dp.Attributes())
						}
					case 2:
						g := m.SetEmptyHistogram()
						g.SetAggregationTemporality(pmetric.AggregationTemporalityCumulative)
						for i := 0; i < p; i++ {
							dp := g.DataPoints().AppendEmpty()
							if fat != c04Blank {
								dp.SetCount(3)
							}
							mark(dp.Attributes())
						}
					case 3:
						g := m.SetEmptyExponentialHistogram()
						g.SetAggregationTemporality(pmetric.AggregationTemporalityDelta)
						for i := 0; i < p; i++ {
							dp := g.DataPoints().AppendEmpty()
							if fat != c04Blank {
								dp.SetCount(4)
							}
							mark(dp.Attributes())
						}
					case 4:
						g := m.SetEmptySummary()
						for i := 0; i < p; i++ {
							dp := g.DataPoints().AppendEmpty()
							if fat != c04Blank {
								dp.SetCount(5)
							}
							mark(dp.Attributes())
						}
					}
					typ++
				}
			}
		}
		b, err := (&pmetric.ProtoMarshaler{}).MarshalMetrics(md)
		if err != nil {
			panic(err)
		}
		req, err := NewMetricsQueueBatchSettings().Encoding.Unmarshal(b)
		if err != nil {
			panic(err)
		}
		ids, _, _, _ := c04ObsMetrics(req)
		return req, ids
	},
	Observe: func(r c04Request) ([]string, int, int, int) { return c04ObsMetrics(r) },
	Tag: func(r c04Request) string {
		b, _ := NewMetricsQueueBatchSettings().Encoding.Marshal(r)
		md, _ := (&pmetric.ProtoUnmarshaler{}).UnmarshalMetrics(b)
		for i := 0; i < md.ResourceMetrics().Len(); i++ {
			rm := md.ResourceMetrics().At(i)
			for j := 0; j < rm.ScopeMetrics().Len(); j++ {
				ms := rm.ScopeMetrics().At(j).Metrics()
				for k := 0; k < ms.Len(); k++ {
					tmp := pmetric.NewMetrics()
					ms.At(k).CopyTo(tmp.ResourceMetrics().AppendEmpty().ScopeMetrics().AppendEmpty().Metrics().AppendEmpty())
					if tmp.DataPointCount() == 0 && ms.At(k).Name() == "" {
						return "holds-nameless-metric-without-data-points"
					}
				}
			}
		}
		return ""
	},
}

func c04ObsMetrics(r c04Request) (items []string, count, units, bytes int) {
	b, err := NewMetricsQueueBatchSettings().Encoding.Marshal(r)
	if err != nil {
		panic(err)
	}
	md, err := (&pmetric.ProtoUnmarshaler{}).UnmarshalMetrics(b)
	if err != nil {
		panic(err)
	}
	for i := 0; i < md.ResourceMetrics().Len(); i++ {
		rm := md.ResourceMetrics().At(i)
		for j := 0; j < rm.ScopeMetrics().Len(); j++ {
			sm := rm.ScopeMetrics().At(j)
			for k := 0; k < sm.Metrics().Len(); k++ {
				m := sm.Metrics().At(k)
				mdv, _ := m.Metadata().Get("md")
				pre := []string{c04ResObs(rm.Resource()), "rschema=" + rm.SchemaUrl(), c04ScopeObs(sm.Scope()), "sschema=" + sm.SchemaUrl(),
					"name=" + m.Name(), "unit=" + m.Unit(), "description=" + m.Description(), "metadata=" + mdv.Str(), "type=" + m.Type().String()}
				add := func(extra string, a pcommon.Map) {
					id, _ := a.Get("id")
					items = append(items, strings.Join(append(append([]string{}, pre...), extra, id.Str()), "|"))
				}
				switch m.Type() {
				case pmetric.MetricTypeGauge:
					for q := 0; q < m.Gauge().DataPoints().Len(); q++ {
						add("flags=-", m.Gauge().DataPoints().At(q).Attributes())
					}
				case pmetric.MetricTypeSum:
					for q := 0; q < m.Sum().DataPoints().Len(); q++ {
						add(fmt.Sprintf("flags=%v/%v", m.Sum().AggregationTemporality(), m.Sum().IsMonotonic()), m.Sum().DataPoints().At(q).Attributes())
					}
				case pmetric.MetricTypeHistogram:
					for q := 0; q < m.Histogram().DataPoints().Len(); q++ {
						add(fmt.Sprintf("flags=%v", m.Histogram().AggregationTemporality()), m.Histogram().DataPoints().At(q).Attributes())
					}
				case pmetric.MetricTypeExponentialHistogram:
					for q := 0; q < m.ExponentialHistogram().DataPoints().Len(); q++ {
						add(fmt.Sprintf("flags=%v", m.ExponentialHistogram().AggregationTemporality()), m.ExponentialHistogram().DataPoints().At(q).Attributes())
					}
				case pmetric.MetricTypeSummary:
					for q := 0; q < m.Summary().DataPoints().Len(); q++ {
						add("flags=-", m.Summary().DataPoints().At(q).Attributes())
					}
				}
			}
		}
	}
	return items, r.ItemsCount(), len(items), len(b)
}

func init() {
	c04RealUnit = "batcher-real"
	c04RealSignals = []c04RealSig{
		{c04Logs, func() map[RequestSizerType]request.Sizer[Request] { return NewLogsQueueBatchSettings().Sizers }},
		{c04Traces, func() map[RequestSizerType]request.Sizer[Request] { return NewTracesQueueBatchSettings().Sizers }},
		{c04Metrics, func() map[RequestSizerType]request.Sizer[Request] { return NewMetricsQueueBatchSettings().Sizers }},
	}
}

func TestVerif(t *testing.T) {
	c04Main(t, "ltm", []*c04Signal{c04Logs, c04Traces, c04Metrics})
}
