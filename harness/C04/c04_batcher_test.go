//go:build verif

package queuebatch

// C04 layer 2 — the completion-callback half of the statement, on the real defaultBatcher under the controlled scheduler:
// "Each incoming request's completion callback fires exactly once, only after every batch containing part of it has
// finished, and reports an error if and only if one of those batches failed" (+ conservation and the size bound at the
// batcher level, where requests are merged across callers, kept as the current batch, flushed by size, timer or shutdown).
//
// Requests are id-carrying: an item is (id, weight); MergeSplit is the plain greedy reference (merge, then cut from the
// front into chunks of weight <= max, an item heavier than max alone) so that every batch can be attributed to the
// requests it holds parts of. Which batch fails is decided by content (a batch fails iff it holds a "poisoned" item), so
// the set of expected errors is a function of the case, not of the schedule.

import (
	"context"
	"encoding/json"
	"errors"
	"fmt"
	"sort"
	"strings"
	"testing"
	"time"

	"go.uber.org/multierr"

	"go.opentelemetry.io/collector/component/componenttest"
	"go.opentelemetry.io/collector/exporter/exporterhelper/internal/request"

	"VERIF/vr"
	"VERIF/vs"
)

type c04bItem struct {
	ID int `json:"id"`
	W  int `json:"w"`
}

type c04bReq struct{ items []c04bItem }

func (r *c04bReq) ItemsCount() int { return len(r.items) }

func (r *c04bReq) weight() int64 {
	var w int64
	for _, it := range r.items {
		w += int64(it.W)
	}
	return w
}

func (r *c04bReq) MergeSplit(_ context.Context, max int, _ request.SizerType, o request.Request) ([]request.Request, error) {
	all := append([]c04bItem(nil), r.items...)
	if o != nil {
		all = append(all, o.(*c04bReq).items...)
		o.(*c04bReq).items = nil
	}
	if max == 0 {
		r.items = all
		return []request.Request{r}, nil
	}
	var res []request.Request
	var cur []c04bItem
	w := 0
	for _, it := range all {
		if len(cur) > 0 && w+it.W > max {
			res = append(res, &c04bReq{items: cur})
			cur, w = nil, 0
		}
		cur = append(cur, it)
		w += it.W
	}
	// like the real implementations, the receiver is what remains (the last chunk) - and an indivisible item that is larger
	// than max on its own is extracted alone, which leaves an EMPTY remainder behind it
	if len(cur) == 1 && cur[0].W > max {
		res = append(res, &c04bReq{items: cur})
		cur = nil
	}
	r.items = cur
	res = append(res, r)
	return res, nil
}

type c04bSizer struct{}

func (c04bSizer) Sizeof(r request.Request) int64 { return r.(*c04bReq).weight() }

type c04bCase struct {
	Min       int64     `json:"min_size"`
	Max       int64     `json:"max_size"`
	Workers   int       `json:"max_workers"`
	Consumers [][][]int `json:"consumers"` // per consumer thread: requests; a request = item weights
	Poison    []int     `json:"poison"`    // item ids whose batch fails
	Idle      bool      `json:"idle"`      // let the flush timeout elapse before Shutdown
}

type c04bBatch struct {
	ids      []int
	weight   int
	failed   bool
	finished bool
}

type c04bObs struct {
	batches    []*c04bBatch
	doneCount  map[int]int
	doneErr    map[int]error
	reqItems   map[int][]int // request -> item ids
	itemReq    map[int]int
	itemW      map[int]int
	violations []string
	finished   bool
	offered    []int
}

var errC04bPoison = errors.New("poisoned batch")

// tagged mode (Poison == [-1]): every batch fails with an error naming the batch, so that one execution shows, for every
// request, exactly which batches' outcomes reach its callback
type c04bTagErr struct{ batch int }

func (e c04bTagErr) Error() string { return fmt.Sprintf("batch %d failed", e.batch) }

func c04bTags(err error) []int {
	var out []int
	for _, e := range multierr.Errors(err) {
		var te c04bTagErr
		if errors.As(e, &te) {
			out = append(out, te.batch)
		}
	}
	sort.Ints(out)
	return out
}

type c04bDone struct {
	o *c04bObs
	r int
}

func (d c04bDone) OnDone(err error) {
	if vs.Killed() {
		return
	}
	o := d.o
	o.doneCount[d.r]++
	if o.doneCount[d.r] > 1 {
		o.violations = append(o.violations, fmt.Sprintf("done-twice: completion callback of request %d fired %d times", d.r, o.doneCount[d.r]))
		return
	}
	o.doneErr[d.r] = err
	// "only after every batch containing part of it has finished"
	for _, id := range o.reqItems[d.r] {
		fin := false
		for _, b := range o.batches {
			for _, x := range b.ids {
				if x == id && b.finished {
					fin = true
				}
			}
		}
		if !fin {
			o.violations = append(o.violations, fmt.Sprintf("done-early: completion callback of request %d (items %v) fired while item %d is not in any finished batch", d.r, o.reqItems[d.r], id))
			return
		}
	}
}

func c04bBody(c *c04bCase, o *c04bObs) func() {
	return func() {
		*o = c04bObs{doneCount: map[int]int{}, doneErr: map[int]error{}, reqItems: map[int][]int{}, itemReq: map[int]int{}, itemW: map[int]int{}}
		poison := map[int]bool{}
		tagged := false
		for _, p := range c.Poison {
			poison[p] = true
			tagged = tagged || p == -1
		}
		export := func(_ context.Context, r request.Request) error {
			if vs.Killed() {
				return nil
			}
			b := &c04bBatch{}
			for _, it := range r.(*c04bReq).items {
				b.ids = append(b.ids, it.ID)
				b.weight += it.W
				if poison[it.ID] {
					b.failed = true
				}
			}
			o.batches = append(o.batches, b)
			bi := len(o.batches) - 1
			vs.Point() // the backend takes time: other threads may run while this batch is in flight
			b.finished = true
			if tagged {
				b.failed = true
				return c04bTagErr{bi}
			}
			if b.failed {
				return errC04bPoison
			}
			return nil
		}
		qb := newDefaultBatcher(BatchConfig{FlushTimeout: 100 * time.Millisecond, MinSize: c.Min, MaxSize: c.Max}, batcherSettings[request.Request]{
			sizerType:  request.SizerTypeItems,
			sizer:      c04bSizer{},
			next:       export,
			maxWorkers: c.Workers,
		})
		if err := qb.Start(context.Background(), componenttest.NewNopHost()); err != nil {
			panic(err)
		}
		done := false
		vs.GoDaemon("clock", func() {
			for {
				vs.Block(func() bool { return vs.PendingTimer() || done })
				if done {
					return
				}
				vs.FireNext()
			}
		})
		var wg vs.WaitGroup
		rid, iid := 0, 0
		for ci, reqs := range c.Consumers {
			type rq struct {
				r   int
				req *c04bReq
			}
			var mine []rq
			for _, ws := range reqs {
				rid++
				req := &c04bReq{}
				for _, w := range ws {
					iid++
					req.items = append(req.items, c04bItem{ID: iid, W: w})
					o.reqItems[rid] = append(o.reqItems[rid], iid)
					o.itemReq[iid] = rid
					o.itemW[iid] = w
				}
				mine = append(mine, rq{rid, req})
			}
			wg.Add(1)
			vs.GoNamed(fmt.Sprintf("consumer%d", ci+1), func() {
				defer wg.Done()
				for _, m := range mine {
					o.offered = append(o.offered, m.r)
					qb.Consume(context.Background(), m.req, c04bDone{o, m.r})
				}
			})
		}
		wg.Wait()
		if c.Idle {
			vs.Sleep(250 * time.Millisecond)
			vs.Point()
		}
		if err := qb.Shutdown(context.Background()); err != nil {
			o.violations = append(o.violations, "shutdown-error: "+err.Error())
		}
		for _, n := range vs.LiveThreads() {
			if n != "main" && n != "clock" {
				o.violations = append(o.violations, "thread-alive: "+n+" alive after Shutdown returned")
			}
		}
		done = true
		o.finished = true
	}
}

func c04bCheck(c *c04bCase, o *c04bObs) (string, string) {
	desc := fmt.Sprintf("min=%d max=%d workers=%d consumers=%v poison=%v idle=%v", c.Min, c.Max, c.Workers, c.Consumers, c.Poison, c.Idle)
	if !o.finished {
		return "unfinished", desc
	}
	if len(o.violations) > 0 {
		return "batcher:" + strings.SplitN(o.violations[0], ":", 2)[0], desc + ": " + strings.Join(o.violations, "; ")
	}
	seen := map[int]int{}
	for bi, b := range o.batches {
		if !b.finished {
			return "batcher:export-unfinished", fmt.Sprintf("%s: batch %d %v still in flight after Shutdown returned", desc, bi, b.ids)
		}
		// (an EMPTY batch - the parked empty remainder of an oversized item, or an empty request, flushed by the timer or by
		// Shutdown - carries no item: the statement's clauses say nothing about it, so it is not judged; a first version
		// of this oracle reported it, see DESIGN E.3)
		if c.Max > 0 && int64(b.weight) > c.Max && len(b.ids) > 1 {
			return "batcher:oversize", fmt.Sprintf("%s: batch %d %v has size %d > max_size %d", desc, bi, b.ids, b.weight, c.Max)
		}
		for _, id := range b.ids {
			seen[id]++
		}
	}
	var reqs []int
	for r := range o.reqItems {
		reqs = append(reqs, r)
	}
	sort.Ints(reqs)
	for _, r := range reqs {
		for _, id := range o.reqItems[r] {
			if seen[id] != 1 {
				return "batcher:conservation", fmt.Sprintf("%s: item %d of request %d was exported %d times", desc, id, r, seen[id])
			}
		}
		if o.doneCount[r] != 1 {
			return "batcher:done-count", fmt.Sprintf("%s: completion callback of request %d fired %d times by the time Shutdown returned", desc, r, o.doneCount[r])
		}
		var failedIn []int
		in := map[int]bool{}
		first := -1
		for bi, b := range o.batches {
			for _, id := range b.ids {
				if o.itemReq[id] == r {
					in[bi] = true
					if first < 0 {
						first = bi
					}
					if b.failed {
						failedIn = append(failedIn, bi)
					}
					break
				}
			}
		}
		got := o.doneErr[r]
		if len(failedIn) > 0 && got == nil {
			return "batcher:error-swallowed", fmt.Sprintf("%s: request %d (items %v) had parts in failed batches %v but its callback reported success", desc, r, o.reqItems[r], failedIn)
		}
		// which failed batches reached this request's callback although they hold no part of it
		var foreign []int
		if len(c.Poison) == 1 && c.Poison[0] == -1 {
			for _, bi := range c04bTags(got) {
				if !in[bi] {
					foreign = append(foreign, bi)
				}
			}
		} else if len(failedIn) == 0 && got != nil {
			for bi, b := range o.batches {
				if b.failed {
					foreign = append(foreign, bi)
				}
			}
		}
		if len(foreign) > 0 {
			// root cause recorded in known_findings.json: the failed batch was the CURRENT batch when this request arrived and the
			// request's first item did not fit into the space it had left, so the merged first chunk holds nothing of the request -
			// but Consume attaches the request's callback to it unconditionally
			class := ""
			its := o.reqItems[r]
			firstW := o.itemW[its[0]]
			lastW := o.itemW[its[len(its)-1]]
			b := o.batches[foreign[0]]
			tagged := len(c.Poison) == 1 && c.Poison[0] == -1
			lastOwn := -1
			for bi := range in {
				if bi > lastOwn {
					lastOwn = bi
				}
			}
			// tagged run: `foreign` is exactly the set of batches whose outcome reached the callback - EVERY one of them has to
			// be explained by a recorded root cause; with explicit failure sets it is every failed batch, of which at least one
			// reached it - one explained batch suffices
			nA, nB := 0, 0
			for _, bi := range foreign {
				fb := o.batches[bi]
				switch {
				case bi < first && c.Max > 0 && int64(fb.weight+firstW) > c.Max:
					// (A) the batch was the CURRENT batch when the request arrived and the request's first item did not fit into
					// the space it had left: the merged first chunk holds nothing of the request, but Consume attaches the callback
					nA++
					b = fb
				case bi > lastOwn && c.Max > 0 && int64(lastW) > c.Max:
					// (B) the request's LAST item is larger than max_size on its own: it is sent alone and the split leaves an EMPTY
					// remainder, which Consume parks as the current batch together with a reference to the request's callback
					nB++
					if nA == 0 {
						b = fb
					}
				}
			}
			if (tagged && nA+nB == len(foreign)) || (!tagged && nA+nB >= 1) {
				if nA > 0 {
					class = ":first-item-did-not-fit-the-current-batch"
				} else {
					class = ":empty-remainder-of-an-oversized-last-item-parked-with-the-callback"
				}
			}
			return "batcher:error-misattributed" + class, fmt.Sprintf("%s: request %d (items %v, in batches %v) received the outcome of batch(es) %v %v, which hold no part of it: callback reported %v", desc, r, o.reqItems[r], keys(in), foreign, b.ids, got)
		}
	}
	return "", ""
}

func keys(m map[int]bool) []int {
	var out []int
	for k := range m {
		out = append(out, k)
	}
	sort.Ints(out)
	return out
}

type c04bReplay struct {
	Case    *c04bCase `json:"case"`
	Choices []int     `json:"choices"`
}

func c04bVerdict(c *c04bCase, o *c04bObs, s *vs.Sched) (string, string) {
	if v := s.Verdict(); v != "" {
		if s.Deadlock {
			return "batcher:deadlock:" + s.DeadlockSig(), fmt.Sprintf("%+v: %s", *c, v)
		}
		return "batcher:panic:" + strings.SplitN(fmt.Sprint(s.Panic), "\n", 2)[0], fmt.Sprintf("%+v: %s\n%s", *c, v, s.PanicStack)
	}
	return c04bCheck(c, o)
}

func TestVerifBatcher(t *testing.T) {
	ctx := vr.Start("C04", "batcher")
	if ctx == nil {
		t.Skip("not driven")
	}
	defer ctx.Finish()
	if ctx.ReplayRaw != nil {
		var rf struct {
			Replay c04bReplay `json:"replay"`
		}
		if err := json.Unmarshal(ctx.ReplayRaw, &rf); err != nil {
			t.Fatal(err)
		}
		var o c04bObs
		s := vs.Run(rf.Replay.Choices, c04bBody(rf.Replay.Case, &o))
		sig, what := c04bVerdict(rf.Replay.Case, &o, s)
		t.Logf("%s %s", sig, what)
		if sig != "" {
			ctx.Violate(sig, what, rf.Replay)
		}
		return
	}
	bound := ctx.Param("bound", 1)
	maxReq := ctx.Param("requests", 3)
	// request alphabet: item weights. {1}, {1,1}, {1,1,1} are the items-sizer requests; {2}, {1,2}, {3,1} model a byte-like
	// sizer where an item may not fit the space left in the current batch
	alpha := [][]int{{1}, {1, 1}, {1, 1, 1}, {2}, {1, 2}, {3, 1}}
	var seqs [][][]int
	var rec func(cur [][]int)
	rec = func(cur [][]int) {
		if len(cur) > 0 {
			seqs = append(seqs, append([][]int(nil), cur...))
		}
		if len(cur) == maxReq {
			return
		}
		for _, a := range alpha {
			rec(append(cur, a))
		}
	}
	rec(nil)
	// on top of the full product: an oversized single/last item (empty remainder parked in the batcher) and the empty request
	seqs = append(seqs, [][]int{{3}}, [][]int{{}}, [][]int{{1}, {3}}, [][]int{{3}, {1}}, [][]int{{}, {1}}, [][]int{{1}, {}}, [][]int{{3}, {3}})
	type cfg struct {
		min, max int64
		workers  int
	}
	cfgs := []cfg{{0, 0, 1}, {2, 0, 1}, {3, 0, 1}, {0, 2, 1}, {2, 2, 1}, {2, 3, 1}, {3, 4, 1}, {4, 4, 1}, {3, 4, 0}, {2, 3, 2}}
	var n int64
	maxBound := bound
	startBound := ctx.Param("start_bound", maxBound) // thorough: iterative deepening from the quick tier's bound
	completed := startBound - 1
	defer func() { ctx.R.Extra["bound_completed"] = completed }()
	for bound = startBound; bound <= maxBound; bound++ {
	all := true
	for _, cf := range cfgs {
		for _, sq := range seqs {
			total := 0
			for _, r := range sq {
				total += len(r)
			}
			// one consumer (production: NumConsumers is forced to 1 with batching) and, for <= 2 requests... two concurrent consumers
			var splits [][][][]int
			splits = append(splits, [][][]int{sq})
			if len(sq) >= 2 && cf.workers != 1 {
				splits = append(splits, [][][]int{sq[:1], sq[1:]})
			}
			for _, consumers := range splits {
				for _, idle := range []bool{false, true} {
					var poisons [][]int
					poisons = append(poisons, []int{-1}, nil)
					for p := 1; p <= total; p++ {
						poisons = append(poisons, []int{p})
					}
					if !ctx.Quick() {
						for p := 1; p <= total; p++ {
							for q := p + 1; q <= total; q++ {
								poisons = append(poisons, []int{p, q})
							}
						}
					}
					for _, poison := range poisons {
						n++
						if !ctx.Mine(n) {
							continue
						}
						if ctx.Expired() {
							ctx.Cap(fmt.Sprintf("time budget reached at bound %d; complete up to bound %d", bound, completed))
							return
						}
						c := &c04bCase{Min: cf.min, Max: cf.max, Workers: cf.workers, Consumers: consumers, Poison: poison, Idle: idle}
						var o c04bObs
						b := bound
						if len(poison) != 1 || poison[0] != -1 {
							b = ctx.Param("poison_bound", 0) // explicit failure sets: the schedule space is the tagged run's
							if cf.workers != 1 && len(poison) == 1 && len(consumers) == 1 && !idle {
								// ... except where two flushes can be in flight at once (no worker limit, or two workers): there
								// a failing and a succeeding batch of one request finish concurrently, and which reporter comes
								// last is a matter of the schedule ("reports an error iff one of those batches failed"); one consumer
								// thread, no idle period (the two-consumer and idle variants keep the default schedule: cost)
								b = bound
							}
						}
						st := vs.Explore(vs.Opts{Bound: b, Shard: 0, Shards: 1, Expired: ctx.Expired}, c04bBody(c, &o), func(s *vs.Sched, owned bool) bool {
							sig, what := c04bVerdict(c, &o, s)
							ctx.R.Evals++
							ctx.R.Traces++
							var sizes []int
							nerr := 0
							for _, b := range o.batches {
								sizes = append(sizes, b.weight)
							}
							for _, e := range o.doneErr {
								if e != nil {
									nerr++
								}
							}
							ctx.Outcome(fmt.Sprintf("batches=%d failed-callbacks=%d", len(sizes), nerr))
							ctx.Nontrivial(vr.Hash(fmt.Sprint(*c), fmt.Sprint(sizes), nerr))
							if sig != "" {
								ctx.Violate(sig, what, c04bReplay{c, s.Choices()})
							}
							if ctx.R.Evals%20011 == 5 {
								ctx.Sample(map[string]any{"case": c, "batch_sizes": sizes, "failed_callbacks": nerr})
							}
							return sig == ""
						})
						for _, x := range st.Infra {
							ctx.Infra("%+v: %s", *c, x)
						}
						if st.Capped {
							all = false
							ctx.Cap(fmt.Sprintf("bound %d not completed", bound))
						}
						ctx.R.Trans += st.Steps
						ctx.R.States += st.Nodes
					}
				}
			}
		}
	}
	if !all {
		break
	}
	completed = bound
	}
}
