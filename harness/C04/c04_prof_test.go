//go:build verif

package xexporterhelper

import (
	"go.opentelemetry.io/collector/exporter/exporterhelper/internal/request"
	"context"
	"fmt"
	"strings"
	"testing"

	"go.opentelemetry.io/collector/exporter/exporterhelper"
	"go.opentelemetry.io/collector/pdata/pprofile"
)

type c04Request = exporterhelper.Request

func c04MergeSplit(r c04Request, max int, sizer string, r2 c04Request) ([]c04Request, error) {
	szt := exporterhelper.RequestSizerTypeItems
	if sizer == "bytes" {
		szt = exporterhelper.RequestSizerTypeBytes
	}
	return r.MergeSplit(context.Background(), max, szt, r2)
}

var c04Profiles = &c04Signal{
	Name: "profiles", Levels: 4,
	Build: func(sh c04Shape, ctr *int, fat int) (c04Request, []string) {
		pd := pprofile.NewProfiles()
		first := true
		for _, r := range sh {
			rp := pd.ResourceProfiles().AppendEmpty()
			*ctr++
			rp.Resource().Attributes().PutStr("r", fmt.Sprintf("R%d", *ctr))
			rp.SetSchemaUrl(fmt.Sprintf("rs%d", *ctr))
			for _, s := range r {
				sp := rp.ScopeProfiles().AppendEmpty()
				*ctr++
				sp.Scope().SetName(fmt.Sprintf("S%d", *ctr))
				sp.Scope().SetVersion(fmt.Sprintf("v%d", *ctr))
				sp.SetSchemaUrl(fmt.Sprintf("ss%d", *ctr))
				for _, p := range s {
					*ctr++
					pr := sp.Profiles().AppendEmpty()
					pr.SetProfileID(pprofile.ProfileID([16]byte{1, byte(*ctr >> 8), byte(*ctr)}))
					pr.SetOriginalPayloadFormat(fmt.Sprintf("f%d", *ctr))
					for i := 0; i < p; i++ {
						*ctr++
						sa := pr.Sample().AppendEmpty()
						if fat == c04Blank {
							continue
						}
						sa.Value().Append(int64(*ctr))
						if first && fat > 0 {
							pr.StringTable().Append(strings.Repeat("x", fat))
						}
						first = false
					}
				}
			}
		}
		b, err := (&pprofile.ProtoMarshaler{}).MarshalProfiles(pd)
		if err != nil {
			panic(err)
		}
		req, err := NewProfilesQueueBatchSettings().Encoding.Unmarshal(b)
		if err != nil {
			panic(err)
		}
		ids, _, _, _ := c04ObsProfiles(req)
		return req, ids
	},
	Observe: func(r c04Request) ([]string, int, int, int) { return c04ObsProfiles(r) },
}

func c04ObsProfiles(r c04Request) (items []string, count, units, bytes int) {
	b, err := NewProfilesQueueBatchSettings().Encoding.Marshal(r)
	if err != nil {
		panic(err)
	}
	pd, err := (&pprofile.ProtoUnmarshaler{}).UnmarshalProfiles(b)
	if err != nil {
		panic(err)
	}
	for i := 0; i < pd.ResourceProfiles().Len(); i++ {
		rp := pd.ResourceProfiles().At(i)
		rv, _ := rp.Resource().Attributes().Get("r")
		for j := 0; j < rp.ScopeProfiles().Len(); j++ {
			sp := rp.ScopeProfiles().At(j)
			for k := 0; k < sp.Profiles().Len(); k++ {
				pr := sp.Profiles().At(k)
				if pr.Sample().Len() > 0 {
					units++ // a profile is the indivisible unit of splitting (profiles without samples carry no items)
				}
				for q := 0; q < pr.Sample().Len(); q++ {
					items = append(items, strings.Join([]string{"res=" + rv.Str(), "rschema=" + rp.SchemaUrl(), "scope=" + sp.Scope().Name() + "/" + sp.Scope().Version(),
						"sschema=" + sp.SchemaUrl(), fmt.Sprintf("profile=%x/%s/%d", [16]byte(pr.ProfileID()), pr.OriginalPayloadFormat(), pr.StringTable().Len()),
						c04SampleID(pr.Sample().At(q))}, "|"))
				}
			}
		}
	}
	return items, r.ItemsCount(), units, len(b)
}

func init() {
	c04RealUnit = "batcher-real-profiles"
	c04RealSignals = []c04RealSig{
		{c04Profiles, func() map[exporterhelper.RequestSizerType]request.Sizer[exporterhelper.Request] {
			return NewProfilesQueueBatchSettings().Sizers
		}},
	}
}

func TestVerif(t *testing.T) {
	c04Main(t, "profiles", []*c04Signal{c04Profiles})
}

func c04SampleID(sa pprofile.Sample) string {
	if sa.Value().Len() == 0 {
		return "i" // a sample without content (c04Blank)
	}
	return fmt.Sprintf("i%d", sa.Value().At(0))
}
