//go:build verif

package VERIFPKG

// C04 layer 3 — the REAL request types inside the REAL defaultBatcher (layer 1 runs the real MergeSplit without the
// batcher, layer 2 the real batcher with a fake request): the batcher attaches completion callbacks to the chunks that
// MergeSplit returns by POSITION (first chunk = parked data + the head of the new request), so the callback clause holds
// only if the real merge keeps that order. Every sequence of <= seq small payload shapes x (min_size, max_size) x sizer,
// the batcher run under the controlled scheduler (default schedule in the quick tier), every batch failing with an error
// that names it: for every request, the set of batch outcomes that reached its callback must be exactly the batches that
// hold one of its items, the callback fires exactly once and not before those batches finished, and every item leaves
// exactly once.

import (
	"context"
	"encoding/json"
	"errors"
	"fmt"
	"sort"
	"strings"
	"testing"
	"time"

	"go.uber.org/multierr"

	"go.opentelemetry.io/collector/component/componenttest"
	"go.opentelemetry.io/collector/exporter/exporterhelper/internal/queuebatch"
	"go.opentelemetry.io/collector/exporter/exporterhelper/internal/request"

	"VERIF/vr"
	"VERIF/vs"
)

type c04rCase struct {
	Signal string     `json:"signal"`
	Sizer  string     `json:"sizer"`
	Min    int64      `json:"min_size"`
	Max    int64      `json:"max_size"`
	Shapes []c04Shape `json:"shapes"`
	Idle   bool       `json:"idle"`
}

type c04rBatch struct {
	ids      []string
	finished bool
}

type c04rObs struct {
	batches    []*c04rBatch
	reqIDs     [][]string
	doneCount  []int
	doneErr    []error
	violations []string
	finished   bool
}

type c04rTagErr struct{ batch int }

func (e c04rTagErr) Error() string { return fmt.Sprintf("batch %d failed", e.batch) }

func c04rID(identity string) string { return identity[strings.LastIndexByte(identity, '|')+1:] }

type c04rDone struct {
	o *c04rObs
	r int
}

func (d c04rDone) OnDone(err error) {
	if vs.Killed() {
		return
	}
	o := d.o
	o.doneCount[d.r]++
	if o.doneCount[d.r] > 1 {
		o.violations = append(o.violations, fmt.Sprintf("done-twice: completion callback of request %d fired %d times", d.r, o.doneCount[d.r]))
		return
	}
	o.doneErr[d.r] = err
	for _, id := range o.reqIDs[d.r] {
		fin := false
		for _, b := range o.batches {
			for _, x := range b.ids {
				if x == id && b.finished {
					fin = true
				}
			}
		}
		if !fin {
			o.violations = append(o.violations, fmt.Sprintf("done-early: completion callback of request %d (items %v) fired while item %s is not in any finished batch", d.r, o.reqIDs[d.r], id))
			return
		}
	}
}

func c04rSizer(rs c04RealSig, name string) (request.SizerType, request.Sizer[request.Request]) {
	st := request.SizerTypeItems
	if name == "bytes" {
		st = request.SizerTypeBytes
	}
	return st, rs.Sizers()[st]
}

func c04rBody(rs c04RealSig, c *c04rCase, o *c04rObs) func() {
	return func() {
		*o = c04rObs{}
		ctr := 0
		var reqs []c04Request
		for _, sh := range c.Shapes {
			r, ids := rs.Sig.Build(sh, &ctr, 0)
			reqs = append(reqs, r)
			var l []string
			for _, id := range ids {
				l = append(l, c04rID(id))
			}
			o.reqIDs = append(o.reqIDs, l)
		}
		o.doneCount = make([]int, len(reqs))
		o.doneErr = make([]error, len(reqs))
		export := func(_ context.Context, r request.Request) error {
			if vs.Killed() {
				return nil
			}
			b := &c04rBatch{}
			items, _, _, _ := rs.Sig.Observe(r)
			for _, it := range items {
				b.ids = append(b.ids, c04rID(it))
			}
			o.batches = append(o.batches, b)
			bi := len(o.batches) - 1
			vs.Point() // the backend takes time
			b.finished = true
			return c04rTagErr{bi}
		}
		st, sz := c04rSizer(rs, c.Sizer)
		qb := queuebatch.VerifNewDefaultBatcher(queuebatch.BatchConfig{FlushTimeout: 100 * time.Millisecond, MinSize: c.Min, MaxSize: c.Max}, st, sz, export, 1)
		if err := qb.Start(context.Background(), componenttest.NewNopHost()); err != nil {
			panic(err)
		}
		done := false
		vs.GoDaemon("clock", func() {
			for {
				vs.Block(func() bool { return vs.PendingTimer() || done })
				if done {
					return
				}
				vs.FireNext()
			}
		})
		var wg vs.WaitGroup
		wg.Add(1)
		vs.GoNamed("consumer", func() {
			defer wg.Done()
			for i, r := range reqs {
				qb.Consume(context.Background(), r, c04rDone{o, i})
			}
		})
		wg.Wait()
		if c.Idle {
			vs.Sleep(250 * time.Millisecond)
			vs.Point()
		}
		if err := qb.Shutdown(context.Background()); err != nil {
			o.violations = append(o.violations, "shutdown-error: "+err.Error())
		}
		done = true
		o.finished = true
	}
}

func c04rCheck(c *c04rCase, o *c04rObs) (string, string) {
	desc := fmt.Sprintf("signal=%s sizer=%s min=%d max=%d shapes=%v idle=%v", c.Signal, c.Sizer, c.Min, c.Max, c.Shapes, c.Idle)
	key := c.Signal + ":" + c.Sizer
	if !o.finished {
		return "real-batcher:unfinished:" + key, desc
	}
	if len(o.violations) > 0 {
		return "real-batcher:" + strings.SplitN(o.violations[0], ":", 2)[0] + ":" + key, desc + ": " + strings.Join(o.violations, "; ")
	}
	seen := map[string]int{}
	for bi, b := range o.batches {
		if !b.finished {
			return "real-batcher:export-unfinished:" + key, fmt.Sprintf("%s: batch %d still in flight after Shutdown returned", desc, bi)
		}
		for _, id := range b.ids {
			seen[id]++
		}
	}
	total := 0
	for r, ids := range o.reqIDs {
		total += len(ids)
		for _, id := range ids {
			if seen[id] != 1 {
				return "real-batcher:conservation:" + key, fmt.Sprintf("%s: item %s of request %d was exported %d times (batches: %v)", desc, id, r, seen[id], c04rBatches(o))
			}
		}
		if o.doneCount[r] != 1 {
			return "real-batcher:done-count:" + key, fmt.Sprintf("%s: completion callback of request %d fired %d times by the time Shutdown returned", desc, r, o.doneCount[r])
		}
		if len(ids) == 0 {
			continue // a request without items is in no batch: which outcomes it may be told is not stated
		}
		in := map[int]bool{}
		for bi, b := range o.batches {
			for _, x := range b.ids {
				for _, id := range ids {
					if x == id {
						in[bi] = true
					}
				}
			}
		}
		got := map[int]bool{}
		for _, e := range multierr.Errors(o.doneErr[r]) {
			var te c04rTagErr
			if errors.As(e, &te) {
				got[te.batch] = true
			}
		}
		for bi := range in {
			if !got[bi] {
				return "real-batcher:error-swallowed:" + key, fmt.Sprintf("%s: request %d (items %v) has items in batch %d, whose failure did not reach its callback (callback reported %v; batches: %v)", desc, r, ids, bi, o.doneErr[r], c04rBatches(o))
			}
		}
		// (the opposite direction - an outcome of a batch that holds nothing of the request reaching its callback - is layer 2's
		// business: the batcher is known to do that when the request's first indivisible unit does not fit the space the
		// current batch has left, which with real requests also happens under the items sizer (a profile is one unit of
		// several samples); two recorded findings, judged there with their root-cause conditions)
		_ = got
	}
	n := 0
	for _, v := range seen {
		n += v
	}
	if n != total {
		return "real-batcher:conservation:" + key, fmt.Sprintf("%s: %d items entered, %d left (batches: %v)", desc, total, n, c04rBatches(o))
	}
	return "", ""
}

func c04rBatches(o *c04rObs) [][]string {
	var l [][]string
	for _, b := range o.batches {
		l = append(l, b.ids)
	}
	return l
}

func c04rKeys(m map[int]bool) []int {
	var l []int
	for k := range m {
		l = append(l, k)
	}
	sort.Ints(l)
	return l
}

type c04rReplay struct {
	Case    *c04rCase `json:"case"`
	Choices []int     `json:"choices"`
}

func c04rVerdict(c *c04rCase, o *c04rObs, s *vs.Sched) (string, string) {
	if v := s.Verdict(); v != "" {
		if s.Deadlock {
			return "real-batcher:deadlock:" + s.DeadlockSig(), fmt.Sprintf("%+v: %s", *c, v)
		}
		return "real-batcher:panic:" + c.Signal + ":" + strings.SplitN(fmt.Sprint(s.Panic), "\n", 2)[0], fmt.Sprintf("%+v: %s\n%s", *c, v, s.PanicStack)
	}
	return c04rCheck(c, o)
}

func TestVerifBatcherReal(t *testing.T) {
	ctx := vr.Start("C04", c04RealUnit)
	if ctx == nil {
		t.Skip("not driven")
	}
	defer ctx.Finish()
	byName := map[string]c04RealSig{}
	for _, rs := range c04RealSignals {
		byName[rs.Sig.Name] = rs
	}
	if ctx.ReplayRaw != nil {
		var rf struct {
			Replay c04rReplay `json:"replay"`
		}
		if err := json.Unmarshal(ctx.ReplayRaw, &rf); err != nil {
			t.Fatal(err)
		}
		var o c04rObs
		c := rf.Replay.Case
		s := vs.Run(rf.Replay.Choices, c04rBody(byName[c.Signal], c, &o))
		sig, what := c04rVerdict(c, &o, s)
		t.Logf("%s %s", sig, what)
		if sig != "" {
			ctx.Violate(sig, what, rf.Replay)
		}
		return
	}
	bound := ctx.Param("bound", 0)
	seqLen := ctx.Param("seq", 2)
	var n int64
	for _, rs := range c04RealSignals {
		var shapes []c04Shape
		if rs.Sig.Levels == 4 {
			shapes = c04Shapes(4, 2, 1, 1, 2)
		} else {
			shapes = c04Shapes(3, 2, 1, 1, 2)
		}
		var seqs [][]c04Shape
		var rec func(cur []c04Shape)
		rec = func(cur []c04Shape) {
			if len(cur) > 0 {
				seqs = append(seqs, append([]c04Shape(nil), cur...))
			}
			if len(cur) == seqLen {
				return
			}
			for _, sh := range shapes {
				if len(cur) >= 2 && sh.items() > 2 {
					continue // third and later requests: the small shapes
				}
				rec(append(cur, sh))
			}
		}
		rec(nil)
		ctx.R.Extra["real_sequences_"+rs.Sig.Name] = len(seqs)
		for _, sq := range seqs {
			n++
			if !ctx.Mine(n) {
				continue
			}
			if ctx.Expired() {
				ctx.Cap("time budget reached")
				return
			}
			type mm struct{ min, max int64 }
			for _, szr := range []string{"items", "bytes"} {
				var cfgs []mm
				if szr == "items" {
					cfgs = []mm{{0, 0}, {2, 0}, {3, 0}, {0, 2}, {2, 2}, {2, 3}, {3, 4}, {4, 4}}
				} else {
					// sizes are measured with the real sizer on fresh copies of the requests
					_, sz := c04rSizer(rs, "bytes")
					ctr := 0
					var first, largest, total int64
					for i, sh := range sq {
						r, _ := rs.Sig.Build(sh, &ctr, 0)
						s := sz.Sizeof(r)
						if i == 0 {
							first = s
						}
						if s > largest {
							largest = s
						}
						total += s
					}
					cfgs = []mm{{0, 0}, {first + 1, 0}}
					for _, m := range []int64{largest, total - 1, (total + 1) / 2} {
						if m > 0 {
							cfgs = append(cfgs, mm{0, m}, mm{(m + 1) / 2, m}, mm{m, m})
						}
					}
				}
				for _, cf := range cfgs {
					for _, idle := range []bool{false, true} {
						c := &c04rCase{Signal: rs.Sig.Name, Sizer: szr, Min: cf.min, Max: cf.max, Shapes: sq, Idle: idle}
						var o c04rObs
						st := vs.Explore(vs.Opts{Bound: bound, Shard: 0, Shards: 1, Expired: ctx.Expired}, c04rBody(rs, c, &o), func(s *vs.Sched, owned bool) bool {
							sig, what := c04rVerdict(c, &o, s)
							ctx.R.Evals++
							ctx.R.Traces++
							ctx.Outcome(fmt.Sprintf("%s:batches=%d", c.Signal, len(o.batches)))
							ctx.Nontrivial(vr.Hash(c.Signal, c.Sizer, c.Min, c.Max, fmt.Sprint(c.Shapes), c.Idle))
							if sig != "" {
								ctx.Violate(sig, what, c04rReplay{c, s.Choices()})
							}
							if ctx.R.Evals%20011 == 5 {
								ctx.Sample(map[string]any{"case": c, "batches": c04rBatches(&o)})
							}
							return sig == ""
						})
						for _, x := range st.Infra {
							ctx.Infra("%+v: %s", *c, x)
						}
						if st.Capped {
							ctx.Cap("bound not completed")
						}
						ctx.R.Trans += st.Steps
						ctx.R.States += st.Nodes
					}
				}
			}
		}
	}
	ctx.R.Extra["bound_completed"] = bound
}
