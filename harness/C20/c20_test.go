//go:build verif

package otelcol

// C20 — collector run loop: one live service at a time, orderly reload, ends Closed.
// Engine E1: the real Collector.Run (collector.go and confmap/resolver.go instrumented; os/signal shim) with the real
// service.New and harness components that log create/start/shutdown per configuration generation; all histories of
// external events up to a length bound x failure plans x all schedules within the deviation bound.

import (
	"context"
	"encoding/json"
	"errors"
	"fmt"
	"os"
	"strconv"
	"strings"
	"syscall"
	"testing"

	"go.uber.org/zap"

	"go.opentelemetry.io/collector/component"
	"go.opentelemetry.io/collector/confmap"
	"go.opentelemetry.io/collector/consumer"
	"go.opentelemetry.io/collector/exporter"
	"go.opentelemetry.io/collector/receiver"

	"VERIF/vr"
	"VERIF/vs"
)

// ---- harness components: log create/start/shutdown with their configuration generation
type vcfg struct {
	Gen       int  `mapstructure:"gen"`
	FailStart bool `mapstructure:"fail_start"`
	FailStop  bool `mapstructure:"fail_stop"`
	// SlowStart: Start returns only once nothing else can run (a component that takes long to come up): external events
	// then arrive while the run loop is busy bringing a configuration up
	SlowStart bool `mapstructure:"slow_start"`
}

var evlog []string

func ev(f string, a ...any) { evlog = append(evlog, fmt.Sprintf(f, a...)) }

type vcomp struct {
	kind string
	cfg  *vcfg
}

func (c *vcomp) Start(context.Context, component.Host) error {
	if c.cfg.SlowStart {
		vs.AwaitQuiescenceWeak(nil)
	}
	ev("start %s g%d", c.kind, c.cfg.Gen)
	if c.cfg.FailStart {
		return errors.New("start failed")
	}
	return nil
}
func (c *vcomp) Shutdown(context.Context) error {
	ev("stop %s g%d", c.kind, c.cfg.Gen)
	if c.cfg.FailStop {
		return errors.New("stop failed")
	}
	return nil
}
func (c *vcomp) Capabilities() consumer.Capabilities { return consumer.Capabilities{} }

var vtype = component.MustNewType("vv")

func vfactories() (Factories, error) {
	rf := receiver.NewFactory(vtype, func() component.Config { return &vcfg{} },
		receiver.WithTraces(func(_ context.Context, _ receiver.Settings, cfg component.Config, _ consumer.Traces) (receiver.Traces, error) {
			c := &vcomp{"recv", cfg.(*vcfg)}
			ev("create recv g%d", c.cfg.Gen)
			return c, nil
		}, component.StabilityLevelStable))
	ef := exporter.NewFactory(vtype, func() component.Config { return &vcfg{} },
		exporter.WithTraces(func(_ context.Context, _ exporter.Settings, cfg component.Config) (exporter.Traces, error) {
			c := &vcomp{"exp", cfg.(*vcfg)}
			ev("create exp g%d", c.cfg.Gen)
			return struct {
				*vcomp
				consumer.ConsumeTracesFunc
			}{c, nil}, nil
		}, component.StabilityLevelStable))
	var f Factories
	f.Receivers, _ = MakeFactoryMap(rf)
	f.Exporters, _ = MakeFactoryMap(ef)
	return f, nil
}

// ---- harness config provider
type genProvider struct {
	gen       int
	watcher   confmap.WatcherFunc
	shutdowns int
	plan      []string       // per generation: "ok", "badcfg", "failstart", "failstop"
	side      map[string]int // Shutdown calls of the other registered providers, by scheme
	logger    *zap.Logger    // the logger the collector hands to its configuration providers
}

// sideProvider: "the configuration providers" are ALL registered ones - "aux" is reached only through a ${aux:...}
// reference inside the configuration, "idle" is registered and never used
type sideProvider struct {
	scheme string
	gp     *genProvider
}

func (p *sideProvider) Retrieve(context.Context, string, confmap.WatcherFunc) (*confmap.Retrieved, error) {
	return confmap.NewRetrieved("none")
}
func (p *sideProvider) Scheme() string { return p.scheme }
func (p *sideProvider) Shutdown(context.Context) error {
	p.gp.side[p.scheme]++
	ev("provider %s shutdown", p.scheme)
	return nil
}

func (p *genProvider) Retrieve(_ context.Context, uri string, w confmap.WatcherFunc) (*confmap.Retrieved, error) {
	if uri == "gen:y" { // a second location with the same scheme: an overlay that changes nothing
		return confmap.NewRetrievedFromYAML([]byte("{}"))
	}
	p.gen++
	p.watcher = w
	kind := "ok"
	if p.gen-1 < len(p.plan) {
		kind = p.plan[p.gen-1]
	}
	ev("retrieve g%d %s", p.gen, kind)
	// "failstartrecv": the RECEIVER fails to start - after the exporter of the same generation has been started
	recv := fmt.Sprintf("{gen: %d, fail_start: %v}", p.gen, kind == "failstartrecv")
	exp := fmt.Sprintf("{gen: %d, fail_start: %v, fail_stop: %v, slow_start: %v}", p.gen, kind == "failstart", kind == "failstop", kind == "slow")
	extra := ""
	if kind == "badcfg" {
		extra = "\nbogus_top_level: 1"
	}
	y := fmt.Sprintf(`
receivers: {vv: %s}
exporters: {vv: %s}
service:
  telemetry: {metrics: {level: "${aux:lvl}"}, logs: {level: error, output_paths: [/dev/null], error_output_paths: [/dev/null]}}
  pipelines: {traces: {receivers: [vv], exporters: [vv]}}%s
`, recv, exp, extra)
	if kind == "closefail" { // the value retrieved for this generation fails to close (a watch that cannot be torn down)
		g := p.gen
		return confmap.NewRetrievedFromYAML([]byte(y), confmap.WithRetrievedClose(func(context.Context) error {
			ev("retrieved-close g%d fails", g)
			return errors.New("cannot stop watching")
		}))
	}
	return confmap.NewRetrievedFromYAML([]byte(y))
}
func (p *genProvider) Scheme() string { return "gen" }
func (p *genProvider) Shutdown(context.Context) error {
	p.shutdowns++
	ev("provider shutdown")
	return nil
}

type result struct {
	runErr   string
	state    State
	returned bool
	// ignoredStop: a stopping event (termination signal that was enqueued, Shutdown(), context cancellation, asynchronous
	// error that was accepted) had been delivered, nothing could run any more, and Run had not returned
	ignoredStop string
}

// body builds one collector and applies the given event history from a second thread.
func c20body(hist []string, plan []string, res *result, prov **genProvider) func() {
	return func() {
		evlog = nil
		gp := &genProvider{plan: plan, side: map[string]int{}}
		*prov = gp
		sideF := func(scheme string) confmap.ProviderFactory {
			return confmap.NewProviderFactory(func(confmap.ProviderSettings) confmap.Provider { return &sideProvider{scheme, gp} })
		}
		col, err := NewCollector(CollectorSettings{
			Factories: vfactories, SkipSettingGRPCLogger: true,
			ConfigProviderSettings: ConfigProviderSettings{ResolverSettings: confmap.ResolverSettings{
				URIs: []string{"gen:x", "gen:y"},
				ProviderFactories: []confmap.ProviderFactory{confmap.NewProviderFactory(func(ps confmap.ProviderSettings) confmap.Provider {
					gp.logger = ps.Logger
					return gp
				}),
					sideF("aux"), sideF("idle")},
			}},
		})
		if err != nil {
			panic(err)
		}
		ctx, cancel := context.WithCancel(context.Background())
		done := make(chan struct{})
		*res = result{}
		vs.GoNamed("run", func() {
			e := col.Run(ctx)
			res.returned = true
			res.state = col.GetState()
			if e != nil {
				res.runErr = e.Error()
			}
			ev("run returned state=%v err=%v", res.state, e != nil)
			vs.Close(done)
		})
		// once the history has been issued and nothing can run any more, a delivered stopping event must have made Run return
		// - BEFORE the harness's own final Shutdown()/cancel, which would hide an ignored one
		stopIssued := ""
		vs.GoNamed("events", func() {
			for _, h := range append(append([]string{}, hist...), "final") {
				vs.Point()
				if h == "final" {
					vs.AwaitQuiescence(func() bool { return res.returned })
					if stopIssued != "" && !res.returned {
						res.ignoredStop = stopIssued
					}
				}
				switch h {
				case "cfg", "cfgerr":
					if gp.watcher == nil {
						continue
					}
					var e error
					if h == "cfgerr" {
						e = errors.New("watch error")
					}
					ev("event %s", h)
					// the provider goroutine blocks until the resolver accepts the event, or gives up when Run is gone
					w := gp.watcher
					isErr := h == "cfgerr"
					called := false
					// by default the provider's notification is handed to the resolver before the next external event
					// happens (the events thread waits for the hand-over, which lets the environment thread run without
					// a deviation); a LATER event overtaking it is one deviation away (the wait is a scheduling point)
					vs.GoDaemon("watcher-call", func() {
						defer func() { called = true }()
						w(&confmap.ChangeEvent{Error: e})
						// the resolver took the event (or Run is on its way out anyway): a configuration-watch ERROR is one of
						// the statement's stopping events - once delivered, the run ends without anything further
						if isErr && !res.returned && stopIssued == "" {
							stopIssued = "configuration-watch error (accepted by the resolver)"
						}
					})
					vs.Block(func() bool { return called || res.returned })
				case "log":
					// a provider with a goroutine of its own (a watcher, a poller) writes a log line through the logger the
					// collector gave it - at any moment, also while the run loop swaps the logger's core at a (re)start
					if gp.logger == nil {
						continue
					}
					ev("event provider-log")
					lg := gp.logger
					vs.GoNamed("provider-log", func() { lg.Info("provider heartbeat") })
				case "hup", "term":
					sig := os.Signal(syscall.SIGHUP)
					if h == "term" {
						sig = syscall.SIGTERM
					}
					ev("event %s", h)
					// os/signal delivery is a non-blocking send to every registered channel
					if n := vs.Deliver(sig); n > 0 && h == "term" {
						stopIssued = "SIGTERM (enqueued in the collector's signal channel)"
					}
				case "shutdown":
					// "Shutdown() calls from several goroutines": every shutdown event is its own caller, so that two of them (and
					// the final one below) can overlap
					ev("event shutdown()")
					stopIssued = "Shutdown()"
					vs.GoNamed("shutdown-caller", func() { col.Shutdown() })
				case "ctx":
					ev("event ctxCancel")
					stopIssued = "context cancellation"
					cancel()
				case "async":
					ev("event asyncErr")
					if vs.Select(false, vs.CaseSend(col.asyncErrorChannel, errors.New("fatal")), vs.CaseRecv(done)) == 0 {
						stopIssued = "asynchronous error (accepted by the run loop)"
					}
				case "final":
					col.Shutdown()
					vs.Point()
					cancel()
					// "Shutdown requests are idempotent and safe from any state": also after the run has ended (a panic or a
					// blocked call here is an engine verdict)
					vs.AwaitQuiescence(func() bool { return res.returned })
					col.Shutdown()
					col.Shutdown()
				}
			}
		})
	}
}

func checkLog(res result, gp *genProvider) string {
	if !res.returned {
		return "Run did not return"
	}
	if res.ignoredStop != "" {
		return "Run did not return after " + res.ignoredStop + " although nothing else was left to do (it returned only after the harness's final Shutdown)"
	}
	live := map[string]bool{} // started and not stopped: "kind gN"
	created := map[int]bool{} // generations with created components
	stops := map[string]int{}
	reachedRunning := false
	for _, l := range evlog {
		f := strings.Fields(l)
		switch f[0] {
		case "create":
			g, _ := strconv.Atoi(f[2][1:])
			created[g] = true
			for k := range live {
				if !strings.HasSuffix(k, f[2]) {
					return fmt.Sprintf("component of %s created while %s is live", f[2], k)
				}
			}
		case "start":
			live[f[1]+" "+f[2]] = true
		case "stop":
			delete(live, f[1]+" "+f[2])
			stops[f[1]+" "+f[2]]++
		}
	}
	_ = reachedRunning
	if len(live) > 0 {
		return fmt.Sprintf("components still live after Run returned: %v", live)
	}
	for k, n := range stops {
		if n != 1 {
			return fmt.Sprintf("%s shut down %d times", k, n)
		}
	}
	if res.runErr == "" && res.state != StateClosed {
		return fmt.Sprintf("Run returned nil in state %v", res.state)
	}
	// "a run that reached Running and is stopped ends in Closed with ... the configuration providers each shut down exactly
	// once": the run reached Running if its first generation came up, and it went through the stop path (and not out through a
	// failed reload, which leaves Closing/Starting) if it ended in Closed - whether or not the stop path reported errors
	stoppedRun := res.runErr == "" || (res.state == StateClosed && (len(gp.plan) == 0 || (gp.plan[0] != "failstart" && gp.plan[0] != "badcfg" && gp.plan[0] != "failstartrecv")))
	if stoppedRun && gp.shutdowns != 1 {
		return fmt.Sprintf("provider shut down %d times", gp.shutdowns)
	}
	for _, sch := range []string{"aux", "idle"} {
		if stoppedRun && gp.side[sch] != 1 {
			return fmt.Sprintf("provider %q (registered; %s) shut down %d times", sch,
				map[string]string{"aux": "used through a ${aux:...} reference", "idle": "never used"}[sch], gp.side[sch])
		}
	}
	return ""
}

type c20Case struct {
	Hist    []string `json:"events"`
	Plan    []string `json:"generation_plan"`
	Choices []int    `json:"choices"`
}

func c20Verdict(res *result, gp *genProvider, s *vs.Sched) (string, string) {
	if s.Panic != nil {
		return "panic:" + strings.SplitN(fmt.Sprint(s.Panic), "\n", 2)[0], fmt.Sprintf("%v\n%s", s.Panic, s.PanicStack)
	}
	if s.Deadlock {
		return "deadlock:" + s.DeadlockSig(), fmt.Sprintf("threads blocked forever: %v at %v; log=%s", s.Blocked, s.BlockedAt, strings.Join(evlog, "; "))
	}
	if v := checkLog(*res, gp); v != "" {
		sig := v
		for _, d := range "0123456789" {
			sig = strings.ReplaceAll(sig, string(d), "")
		}
		if len(sig) > 60 {
			sig = sig[:60]
		}
		return "lifecycle:" + sig, v + "; log=" + strings.Join(evlog, "; ")
	}
	return "", ""
}

func TestVerif(t *testing.T) {
	ctx := vr.Start("C20", "collector")
	if ctx == nil {
		t.Skip("not driven")
	}
	defer ctx.Finish()
	if ctx.ReplayRaw != nil {
		var rf struct {
			Replay c20Case `json:"replay"`
		}
		if err := json.Unmarshal(ctx.ReplayRaw, &rf); err != nil {
			t.Fatal(err)
		}
		var res result
		var gp *genProvider
		s := vs.Run(rf.Replay.Choices, c20body(rf.Replay.Hist, rf.Replay.Plan, &res, &gp))
		sig, what := c20Verdict(&res, gp, s)
		t.Logf("%s %s\nlog: %s", sig, what, strings.Join(evlog, "; "))
		if sig != "" {
			ctx.Violate(sig, what, rf.Replay)
		}
		return
	}
	// levels: "E.B/E.B/..." - each level explores, with at most B deviations, the histories of exactly E events (the first
	// level: of at most E events), cheapest first; a level is reported as completed only if every shard finished it
	levels := ctx.ParamS("levels", "2.2")
	alpha := []string{"cfg", "cfgerr", "hup", "term", "shutdown", "ctx", "async"}
	// (the last plan - every generation's exporter is slow to start - runs with the histories made of reload-related events)
	plans := [][]string{{"ok", "ok", "ok"}, {"ok", "failstart"}, {"ok", "badcfg"}, {"ok", "failstop", "ok"}, {"failstart"}, {"badcfg"}, {"slow", "slow", "slow"},
		{"closefail", "ok", "ok"}, {"ok", "closefail", "ok"}, {"ok", "failstartrecv", "ok"}, {"failstartrecv"}}
	histsOf := func(minLen, maxLen int) [][]string {
		var hists [][]string
		var rec func(cur []string)
		rec = func(cur []string) {
			if len(cur) >= minLen {
				hists = append(hists, append([]string{}, cur...))
			}
			if len(cur) == maxLen {
				return
			}
			for _, a := range alpha {
				rec(append(cur, a))
			}
		}
		rec(nil)
		return hists
	}
	// histories with a logging provider goroutine (not part of the general alphabet: it interacts with (re)starts only)
	logHists := [][]string{{"log"}, {"log", "hup"}, {"hup", "log"}, {"cfg", "log"}}
	var n, nodes int64
	completedLevels := 0
	var done []string
	defer func() {
		ctx.R.Extra["levels_completed"] = completedLevels
		ctx.R.Extra["levels"] = levels
	}()
	bound := 0
	for li, lv := range strings.Split(levels, "/") {
		var maxHist int
		if _, err := fmt.Sscanf(lv, "%d.%d", &maxHist, &bound); err != nil {
			ctx.Infra("bad level %q", lv)
			return
		}
		minLen := maxHist
		if li == 0 {
			minLen = 0
		}
		hists := histsOf(minLen, maxHist)
		if li == 0 {
			hists = append(hists, logHists...)
		}
		all := true
		for pi, plan := range plans {
			for _, h := range hists {
				if len(h) > 0 && (h[0] == "log" || h[len(h)-1] == "log") && pi > 1 {
					continue // the logging-provider histories: two generation plans (all ok; the second generation fails to start)
				}
				if plan[0] == "failstartrecv" && len(h) > 0 {
				continue // the first generation does not come up: no event matters
			}
			if len(plan) > 1 && plan[1] == "failstartrecv" {
				reloads := 0
				for _, e := range h {
					if e == "cfg" || e == "cfgerr" || e == "hup" {
						reloads++
					}
				}
				if reloads == 0 {
					continue // the failing generation is never brought up
				}
			}
			if plan[0] == "closefail" || (len(plan) > 1 && plan[1] == "closefail") {
					// the close-failure plans: histories with at most one reload-related event before the stop
					reloads := 0
					for _, e := range h {
						if e == "cfg" || e == "cfgerr" || e == "hup" {
							reloads++
						}
					}
					if len(h) == 0 || reloads > 1 || (plan[0] != "closefail" && reloads == 0) {
						continue
					}
				}
				if plan[0] == "slow" {
					reloadOnly := len(h) > 0
					for _, e := range h {
						reloadOnly = reloadOnly && (e == "cfg" || e == "cfgerr" || e == "hup")
					}
					if !reloadOnly {
						continue
					}
				}
				if only := os.Getenv("VERIF_C20_ONLY"); only != "" && only != fmt.Sprint(plan)+fmt.Sprint(h) { // debugging aid
					continue
				}
				n++
				if !ctx.Mine(n) {
					continue
				}
				if ctx.Expired() {
					ctx.R.States = ctx.R.Evals + nodes
					ctx.Cap(fmt.Sprintf("time budget reached in level %s (events.bound); completed levels: %v", lv, done))
					return
				}
				var res result
				var gp *genProvider
				plan, h := plan, h
				ctx.Nontrivial(vr.Hash(fmt.Sprint(plan), fmt.Sprint(h)))
				st := vs.Explore(vs.Opts{Bound: bound, Shards: 1, Expired: ctx.Expired}, c20body(h, plan, &res, &gp), func(s *vs.Sched, owned bool) bool {
					sig, what := c20Verdict(&res, gp, s)
					ctx.R.Evals++
					if sig != "" {
						ctx.Violate(sig, fmt.Sprintf("plan=%v events=%v: %s", plan, h, what), c20Case{h, plan, s.Choices()})
						ctx.Outcome("violation")
					} else {
						ctx.R.Traces++
						ctx.Outcome(fmt.Sprintf("state=%v,err=%v", res.state, res.runErr != ""))
					}
					if ctx.R.Evals%1009 == 3 {
						ctx.Sample(map[string]any{"plan": plan, "events": h, "state": fmt.Sprint(res.state), "run_error": res.runErr, "log": strings.Join(evlog, "; ")})
					}
					if len(s.DaemonPanics) > 0 {
						n, _ := ctx.R.Extra["env_hazards"].(int)
						ctx.R.Extra["env_hazards"] = n + 1
					}
					return sig == ""
				})
				for _, x := range st.Infra {
					ctx.Infra("plan=%v events=%v: %s", plan, h, x)
				}
				if st.Capped {
					all = false
					ctx.Cap(fmt.Sprintf("time budget reached in level %s", lv))
				}
				ctx.R.Trans += st.Steps
				nodes += st.Nodes
			}
		}
		if !all {
			break
		}
		completedLevels = li + 1
		done = append(done, lv)
	}
	ctx.R.States = nodes
}
