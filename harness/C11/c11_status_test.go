//go:build verif

package status

// C11 — component status events always follow the documented state machine.
// Sequential (E2): all report sequences up to a length bound over the 8 statuses + ReportOKIfStarting, for one and two
// instances, against an independently coded diagram. Concurrent (E1): all interleavings (deviation-bounded) of 2-3 reporter
// threads on the instrumented status.go; the delivered sequences must be explained by SOME sequential order of the reports
// that respects each thread's program order (linearizability of the reporter).

import (
	"encoding/json"
	"fmt"
	"strings"
	"testing"

	"go.opentelemetry.io/collector/component"
	"go.opentelemetry.io/collector/component/componentstatus"

	"VERIF/vr"
	"VERIF/vs"
)

// independently coded diagram (docs/component-status.md + the property text)
var c11Legal = map[componentstatus.Status][]componentstatus.Status{
	componentstatus.StatusNone:             {componentstatus.StatusStarting},
	componentstatus.StatusStarting:         {componentstatus.StatusOK, componentstatus.StatusRecoverableError, componentstatus.StatusPermanentError, componentstatus.StatusFatalError, componentstatus.StatusStopping},
	componentstatus.StatusOK:               {componentstatus.StatusRecoverableError, componentstatus.StatusPermanentError, componentstatus.StatusFatalError, componentstatus.StatusStopping},
	componentstatus.StatusRecoverableError: {componentstatus.StatusOK, componentstatus.StatusPermanentError, componentstatus.StatusFatalError, componentstatus.StatusStopping},
	componentstatus.StatusPermanentError:   {componentstatus.StatusStopping},
	componentstatus.StatusFatalError:       {},
	componentstatus.StatusStopping:         {componentstatus.StatusRecoverableError, componentstatus.StatusPermanentError, componentstatus.StatusFatalError, componentstatus.StatusStopped},
	componentstatus.StatusStopped:          {},
}

func c11IsLegal(from, to componentstatus.Status) bool {
	for _, x := range c11Legal[from] {
		if x == to {
			return true
		}
	}
	return false
}

const c11OKIfStarting = 100

// c11WithCause + status: the same status reported through the error-carrying constructor with a NEW cause each time (a
// retrying component reports every attempt's own error): a repeat is a repeat whatever error it carries
const c11WithCause = 200

func c11St(code int) componentstatus.Status { return componentstatus.Status(code % c11WithCause) }

type c11Report struct {
	Inst int `json:"instance"`
	St   int `json:"status"` // componentstatus.Status or c11OKIfStarting
}

func (r c11Report) String() string {
	if r.St == c11OKIfStarting {
		return fmt.Sprintf("i%d:OKIfStarting", r.Inst)
	}
	if r.St >= c11WithCause {
		return fmt.Sprintf("i%d:%v(new cause)", r.Inst, c11St(r.St))
	}
	return fmt.Sprintf("i%d:%v", r.Inst, componentstatus.Status(r.St))
}

// reference: apply reports sequentially
func c11Model(seq []c11Report, n int) [][]componentstatus.Status {
	cur := make([]componentstatus.Status, n)
	out := make([][]componentstatus.Status, n)
	for _, r := range seq {
		if r.St == c11OKIfStarting {
			if cur[r.Inst] == componentstatus.StatusStarting {
				cur[r.Inst] = componentstatus.StatusOK
				out[r.Inst] = append(out[r.Inst], cur[r.Inst])
			}
			continue
		}
		st := c11St(r.St)
		if c11IsLegal(cur[r.Inst], st) {
			cur[r.Inst] = st
			out[r.Inst] = append(out[r.Inst], st)
		}
	}
	return out
}

var c11Causes int

type c11Obs struct {
	delivered [][]componentstatus.Status
	global    []string
	invalid   int
}

func c11Apply(r Reporter, ids []*componentstatus.InstanceID, rep c11Report) {
	if rep.St == c11OKIfStarting {
		r.ReportOKIfStarting(ids[rep.Inst])
		return
	}
	if rep.St >= c11WithCause {
		c11Causes++
		cause := fmt.Errorf("cause %d", c11Causes)
		switch c11St(rep.St) {
		case componentstatus.StatusRecoverableError:
			r.ReportStatus(ids[rep.Inst], componentstatus.NewRecoverableErrorEvent(cause))
		case componentstatus.StatusPermanentError:
			r.ReportStatus(ids[rep.Inst], componentstatus.NewPermanentErrorEvent(cause))
		default:
			r.ReportStatus(ids[rep.Inst], componentstatus.NewFatalErrorEvent(cause))
		}
		return
	}
	r.ReportStatus(ids[rep.Inst], componentstatus.NewEvent(componentstatus.Status(rep.St)))
}

func c11New(n int, o *c11Obs) (Reporter, []*componentstatus.InstanceID) {
	*o = c11Obs{delivered: make([][]componentstatus.Status, n)}
	ids := make([]*componentstatus.InstanceID, n)
	for i := range ids {
		ids[i] = componentstatus.NewInstanceID(component.MustNewID(fmt.Sprintf("x%d", i)), component.KindReceiver)
	}
	r := NewReporter(func(id *componentstatus.InstanceID, ev *componentstatus.Event) {
		for i := range ids {
			if ids[i] == id {
				o.delivered[i] = append(o.delivered[i], ev.Status())
				o.global = append(o.global, fmt.Sprintf("i%d:%v", i, ev.Status()))
			}
		}
	}, func(error) { o.invalid++ })
	return r, ids
}

// path-level invariants straight from the statement (independent of the model comparison)
func c11PathInvariants(d []componentstatus.Status) string {
	prev := componentstatus.StatusNone
	for i, s := range d {
		switch {
		case i == 0 && s != componentstatus.StatusStarting:
			return "first delivered event is not Starting"
		case s == prev:
			return "current status repeated"
		case prev == componentstatus.StatusPermanentError && s != componentstatus.StatusStopping:
			return "left PermanentError to something other than Stopping"
		case prev == componentstatus.StatusFatalError || prev == componentstatus.StatusStopped:
			return "event after a final status"
		case !c11IsLegal(prev, s):
			return "transition outside the diagram"
		}
		prev = s
	}
	return ""
}

func c11SeqCheck(seq []c11Report, n int) (string, string) {
	var o c11Obs
	r, ids := c11New(n, &o)
	for _, rep := range seq {
		c11Apply(r, ids, rep)
	}
	want := c11Model(seq, n)
	for i := 0; i < n; i++ {
		if v := c11PathInvariants(o.delivered[i]); v != "" {
			return "path-invariant:" + v, fmt.Sprintf("reports %v: instance %d delivered %v: %s", seq, i, o.delivered[i], v)
		}
		if fmt.Sprint(o.delivered[i]) != fmt.Sprint(want[i]) {
			return "differs-from-diagram", fmt.Sprintf("reports %v: instance %d delivered %v, the diagram prescribes %v", seq, i, o.delivered[i], want[i])
		}
	}
	return "", ""
}

// ---- concurrent
type c11Conc struct {
	Instances int           `json:"instances"`
	Threads   [][]c11Report `json:"threads"`
}

func c11ConcBody(sc *c11Conc, o *c11Obs) func() {
	return func() {
		r, ids := c11New(sc.Instances, o)
		var wg vs.WaitGroup
		for ti, th := range sc.Threads {
			th := th
			wg.Add(1)
			vs.GoNamed(fmt.Sprintf("reporter%d", ti+1), func() {
				for _, rep := range th {
					c11Apply(r, ids, rep)
				}
				wg.Done()
			})
		}
		wg.Wait()
	}
}

// is there an interleaving of the threads' programs whose sequential result is exactly the observed delivery?
func c11Explained(sc *c11Conc, o *c11Obs) bool {
	pos := make([]int, len(sc.Threads))
	var seq []c11Report
	want := fmt.Sprint(o.delivered)
	var rec func() bool
	rec = func() bool {
		done := true
		for t := range sc.Threads {
			if pos[t] < len(sc.Threads[t]) {
				done = false
				seq = append(seq, sc.Threads[t][pos[t]])
				pos[t]++
				if rec() {
					return true
				}
				pos[t]--
				seq = seq[:len(seq)-1]
			}
		}
		if done {
			return fmt.Sprint(c11Model(seq, sc.Instances)) == want
		}
		return false
	}
	return rec()
}

func c11ConcVerdict(sc *c11Conc, o *c11Obs, s *vs.Sched) (string, string) {
	if v := s.Verdict(); v != "" {
		return "engine:" + strings.SplitN(v, ":", 2)[0], fmt.Sprintf("%+v: %s", *sc, v)
	}
	for i := range o.delivered {
		if v := c11PathInvariants(o.delivered[i]); v != "" {
			return "concurrent-path-invariant:" + v, fmt.Sprintf("threads %v: instance %d delivered %v: %s", sc.Threads, i, o.delivered[i], v)
		}
	}
	if !c11Explained(sc, o) {
		return "concurrent-not-linearizable", fmt.Sprintf("threads %v: delivered %v (watcher order %v) is not the result of any sequential order of the reports", sc.Threads, o.delivered, o.global)
	}
	return "", ""
}

type c11Case struct {
	Seq     []c11Report `json:"reports,omitempty"`
	N       int         `json:"instances,omitempty"`
	Conc    *c11Conc    `json:"concurrent,omitempty"`
	Choices []int       `json:"choices,omitempty"`
}

func TestVerif(t *testing.T) {
	ctx := vr.Start("C11", "fsm")
	if ctx == nil {
		t.Skip("not driven")
	}
	defer ctx.Finish()
	if ctx.ReplayRaw != nil {
		var rf struct {
			Replay c11Case `json:"replay"`
		}
		if err := json.Unmarshal(ctx.ReplayRaw, &rf); err != nil {
			t.Fatal(err)
		}
		var sig, what string
		if rf.Replay.Conc != nil {
			var o c11Obs
			s := vs.Run(rf.Replay.Choices, c11ConcBody(rf.Replay.Conc, &o))
			sig, what = c11ConcVerdict(rf.Replay.Conc, &o, s)
		} else {
			sig, what = c11SeqCheck(rf.Replay.Seq, rf.Replay.N)
		}
		t.Logf("%s %s", sig, what)
		if sig != "" {
			ctx.Violate(sig, what, rf.Replay)
		}
		return
	}
	alpha := []int{int(componentstatus.StatusNone), int(componentstatus.StatusStarting), int(componentstatus.StatusOK), int(componentstatus.StatusRecoverableError),
		int(componentstatus.StatusPermanentError), int(componentstatus.StatusFatalError), int(componentstatus.StatusStopping), int(componentstatus.StatusStopped), c11OKIfStarting,
		c11WithCause + int(componentstatus.StatusRecoverableError), c11WithCause + int(componentstatus.StatusPermanentError), c11WithCause + int(componentstatus.StatusFatalError)}
	var n int64
	paths := map[string]bool{}
	enum := func(instances, depth int) {
		var rec func(seq []c11Report, d int)
		rec = func(seq []c11Report, d int) {
			if len(seq) > 0 {
				ctx.R.Evals++
				ctx.R.Trans += int64(len(seq))
				sig, what := c11SeqCheck(seq, instances)
				ctx.Nontrivial(vr.Hash(instances, fmt.Sprint(seq)))
				if sig != "" {
					ctx.Violate(sig, what, c11Case{Seq: append([]c11Report(nil), seq...), N: instances})
					return
				}
				ctx.R.Traces++
				if ctx.R.Evals%20011 == 3 {
					ctx.Sample(map[string]any{"instances": instances, "reports": fmt.Sprint(seq)})
				}
			}
			if d == 0 {
				return
			}
			for inst := 0; inst < instances; inst++ {
				for _, a := range alpha {
					if len(seq) == 0 {
						n++
						if !ctx.Mine(n) {
							continue
						}
					}
					rec(append(seq, c11Report{inst, a}), d-1)
				}
			}
		}
		rec(nil, depth)
	}
	enum(1, ctx.Param("depth1", 5))
	enum(2, ctx.Param("depth2", 4))
	_ = paths
	ctx.Outcome("sequential:agree")
	// concurrent scenarios
	S := func(i int, st componentstatus.Status) c11Report { return c11Report{i, int(st)} }
	concs := []*c11Conc{
		{1, [][]c11Report{{S(0, componentstatus.StatusStarting), {0, c11OKIfStarting}}, {S(0, componentstatus.StatusRecoverableError), S(0, componentstatus.StatusOK)}}},
		{1, [][]c11Report{{S(0, componentstatus.StatusStarting), S(0, componentstatus.StatusOK), S(0, componentstatus.StatusStopping)}, {S(0, componentstatus.StatusPermanentError), S(0, componentstatus.StatusOK)}}},
		{2, [][]c11Report{{S(0, componentstatus.StatusStarting), S(1, componentstatus.StatusStarting), {0, c11OKIfStarting}}, {S(1, componentstatus.StatusFatalError), S(0, componentstatus.StatusRecoverableError)}}},
		{1, [][]c11Report{{S(0, componentstatus.StatusStarting), S(0, componentstatus.StatusStopping)}, {S(0, componentstatus.StatusOK), S(0, componentstatus.StatusStopped)}, {{0, c11OKIfStarting}, S(0, componentstatus.StatusRecoverableError)}}},
	}
	bound := ctx.Param("bound", 2)
	var nodes int64
	for ci, sc := range concs {
		sc := sc
		var o c11Obs
		st := vs.Explore(vs.Opts{Bound: bound, Shard: ctx.Shard, Shards: ctx.Shards, Expired: ctx.Expired}, c11ConcBody(sc, &o), func(s *vs.Sched, owned bool) bool {
			sig, what := c11ConcVerdict(sc, &o, s)
			if owned {
				ctx.R.Evals++
				ctx.R.Traces++
				ctx.Outcome(fmt.Sprintf("concurrent%d:%v", ci, o.delivered))
				if sig != "" {
					ctx.Violate(sig, what, c11Case{Conc: sc, Choices: s.Choices()})
				}
			}
			return sig == ""
		})
		for _, x := range st.Infra {
			ctx.Infra("%s", x)
		}
		if st.Capped {
			ctx.Cap("concurrent: bound not completed")
		}
		ctx.R.Trans += st.Steps
		nodes += st.Nodes
		ctx.Nontrivial(vr.Hash("conc", ci))
	}
	ctx.R.States = ctx.R.Evals + nodes
	ctx.R.Extra["bound_completed"] = bound
}
