//go:build verif

package sharedcomponent

// C11 (shared component) — a component shared by several pipelines or signals delivers its status to every instance it
// represents: instances attach before / between / after the component's runtime reports; every attached instance's
// reporter, fed through an independently coded per-instance state machine, must end in the same status as the first one
// and see a path of the diagram.

import (
	"context"
	"encoding/json"
	"fmt"
	"testing"

	"go.opentelemetry.io/collector/component"
	"go.opentelemetry.io/collector/component/componentstatus"

	"VERIF/vr"
)

var c11sLegal = map[componentstatus.Status][]componentstatus.Status{
	componentstatus.StatusNone:             {componentstatus.StatusStarting},
	componentstatus.StatusStarting:         {componentstatus.StatusOK, componentstatus.StatusRecoverableError, componentstatus.StatusPermanentError, componentstatus.StatusFatalError, componentstatus.StatusStopping},
	componentstatus.StatusOK:               {componentstatus.StatusRecoverableError, componentstatus.StatusPermanentError, componentstatus.StatusFatalError, componentstatus.StatusStopping},
	componentstatus.StatusRecoverableError: {componentstatus.StatusOK, componentstatus.StatusPermanentError, componentstatus.StatusFatalError, componentstatus.StatusStopping},
	componentstatus.StatusPermanentError:   {componentstatus.StatusStopping},
	componentstatus.StatusStopping:         {componentstatus.StatusRecoverableError, componentstatus.StatusPermanentError, componentstatus.StatusFatalError, componentstatus.StatusStopped},
}

type c11sHost struct {
	cur componentstatus.Status
	got []componentstatus.Status
}

func (h *c11sHost) GetExtensions() map[component.ID]component.Component { return nil }
func (h *c11sHost) Report(e *componentstatus.Event) {
	for _, x := range c11sLegal[h.cur] {
		if x == e.Status() {
			h.cur = e.Status()
			h.got = append(h.got, e.Status())
			return
		}
	}
}

type c11sInner struct {
	h       component.Host
	onStart []componentstatus.Status
}

func (c *c11sInner) Start(_ context.Context, h component.Host) error {
	c.h = h
	for _, s := range c.onStart {
		componentstatus.ReportStatus(h, componentstatus.NewEvent(s))
	}
	return nil
}
func (c *c11sInner) Shutdown(context.Context) error { return nil }

type c11sCase struct {
	Seq         []int `json:"runtime_reports"`
	DuringStart int   `json:"reported_during_start"`
	AttachAfter []int `json:"late_instances_attach_after"` // one entry per late instance: number of reports before it attaches
	Shutdown    bool  `json:"shutdown_at_end"`
}

func c11sRun(c c11sCase) (string, string) {
	var seq []componentstatus.Status
	for _, s := range c.Seq {
		seq = append(seq, componentstatus.Status(s))
	}
	in := &c11sInner{onStart: seq[:c.DuringStart]}
	m := NewMap[string, *c11sInner]()
	comp, _ := m.LoadOrStore("k", func() (*c11sInner, error) { return in, nil })
	hosts := []*c11sHost{{}}
	hosts[0].Report(componentstatus.NewEvent(componentstatus.StatusStarting)) // the graph reports Starting for the instance, as StartAll does
	_ = comp.Start(context.Background(), hosts[0])
	next := 0
	for i := c.DuringStart; i <= len(seq); i++ {
		for next < len(c.AttachAfter) && c.AttachAfter[next] == i {
			h := &c11sHost{}
			h.Report(componentstatus.NewEvent(componentstatus.StatusStarting))
			c2, _ := m.LoadOrStore("k", func() (*c11sInner, error) { panic("the shared component must not be created twice") })
			_ = c2.Start(context.Background(), h)
			hosts = append(hosts, h)
			next++
		}
		if i < len(seq) {
			componentstatus.ReportStatus(in.h, componentstatus.NewEvent(seq[i]))
		}
	}
	if c.Shutdown {
		for _, h := range hosts {
			h.Report(componentstatus.NewEvent(componentstatus.StatusStopping))
		}
		_ = comp.Shutdown(context.Background())
	}
	for i, h := range hosts[1:] {
		if h.cur != hosts[0].cur {
			// structural class: a sticky PermanentError was followed by >= 5 further reports before this instance attached
			perm := -1
			for k, st := range seq {
				if st == componentstatus.StatusPermanentError {
					perm = k
					break
				}
			}
			if perm >= 0 && i < len(c.AttachAfter) && c.AttachAfter[i]-perm-1 >= 5 {
				return "late-instance-status-differs:permanent-error-older-than-the-5-event-history", fmt.Sprintf("%+v: first instance ends in %v (saw %v), late instance %d ends in %v (saw %v)", c, hosts[0].cur, hosts[0].got, i+1, h.cur, h.got)
			}
			return "late-instance-status-differs", fmt.Sprintf("%+v: first instance ends in %v (saw %v), late instance %d ends in %v (saw %v)", c, hosts[0].cur, hosts[0].got, i+1, h.cur, h.got)
		}
	}
	return "", ""
}

func TestVerif(t *testing.T) {
	ctx := vr.Start("C11", "shared")
	if ctx == nil {
		t.Skip("not driven")
	}
	defer ctx.Finish()
	if ctx.ReplayRaw != nil {
		var rf struct {
			Replay c11sCase `json:"replay"`
		}
		if err := json.Unmarshal(ctx.ReplayRaw, &rf); err != nil {
			t.Fatal(err)
		}
		sig, what := c11sRun(rf.Replay)
		t.Logf("%s %s", sig, what)
		if sig != "" {
			ctx.Violate(sig, what, rf.Replay)
		}
		return
	}
	alpha := []int{int(componentstatus.StatusOK), int(componentstatus.StatusRecoverableError), int(componentstatus.StatusPermanentError)}
	maxLen := ctx.Param("reports", 6)
	var rec func(seq []int)
	rec = func(seq []int) {
		k := len(seq)
		for ds := 0; ds <= k; ds++ {
			for a1 := ds; a1 <= k; a1++ {
				for a2 := a1; a2 <= k+1; a2++ { // a2 == k+1: only one late instance
					for _, sd := range []bool{false, true} {
						c := c11sCase{Seq: append([]int(nil), seq...), DuringStart: ds, AttachAfter: []int{a1}, Shutdown: sd}
						if a2 <= k {
							c.AttachAfter = []int{a1, a2}
						}
						ctx.R.Evals++
						ctx.R.Trans += int64(k + 2)
						ctx.Nontrivial(vr.Hash(fmt.Sprint(c)))
						sig, what := c11sRun(c)
						if sig != "" {
							ctx.Violate(sig, what, c)
						} else {
							ctx.R.Traces++
						}
						if ctx.R.Evals%5003 == 1 {
							ctx.Sample(c)
						}
					}
				}
			}
		}
		if k == maxLen {
			return
		}
		for _, a := range alpha {
			// (a repeated report is a no-op by the diagram, but the shared component remembers it like any other report: it
			// takes a place in the bounded history that is replayed to a late instance - so repeats ARE enumerated)
			rec(append(seq, a))
		}
	}
	rec(nil)
	ctx.R.States = ctx.R.Evals
	ctx.Outcome("shared:checked")
}
