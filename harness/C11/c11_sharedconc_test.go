//go:build verif

package sharedcomponent

// C11 (shared component, concurrent) — "This holds when reports ... arrive concurrently, and a component shared by several
// pipelines or signals delivers its status to every instance it represents": two or three reporter threads report on ONE
// shared component that represents two instances (a third instance attaches concurrently in one driver); all interleavings
// within the deviation bound. The instances' own reporters take a lock in reality, so delivery to an instance is a
// scheduling point. Oracle: every instance that was attached before the concurrent phase sees the SAME sequence of status
// events (hence ends in the same status), each a path of the diagram; a late instance ends in the same status.

import (
	"context"
	"encoding/json"
	"fmt"
	"strings"
	"testing"

	"go.opentelemetry.io/collector/component"
	"go.opentelemetry.io/collector/component/componentstatus"

	"VERIF/vr"
	"VERIF/vs"
)

type c11cHost struct {
	c11sHost
}

func (h *c11cHost) GetExtensions() map[component.ID]component.Component { return nil }
func (h *c11cHost) Report(e *componentstatus.Event) {
	vs.Point() // the instance's reporter (service/internal/status) takes its mutex here
	h.c11sHost.Report(e)
}

type c11cCase struct {
	Threads [][]int `json:"reporter_threads"` // statuses reported by each thread, in order
	Late    bool    `json:"late_instance_attaches_concurrently"`
}

type c11cObs struct {
	hosts    []*c11cHost
	late     *c11cHost
	finished bool
}

func c11cBody(c *c11cCase, o *c11cObs) func() {
	return func() {
		*o = c11cObs{}
		in := &c11sInner{}
		m := NewMap[string, *c11sInner]()
		comp, _ := m.LoadOrStore("k", func() (*c11sInner, error) { return in, nil })
		for i := 0; i < 2; i++ {
			h := &c11cHost{}
			h.c11sHost.Report(componentstatus.NewEvent(componentstatus.StatusStarting))
			cc, _ := m.LoadOrStore("k", func() (*c11sInner, error) { panic("created twice") })
			_ = cc.Start(context.Background(), h)
			o.hosts = append(o.hosts, h)
		}
		_ = comp
		var wg vs.WaitGroup
		for ti, seq := range c.Threads {
			seq := seq
			wg.Add(1)
			vs.GoNamed(fmt.Sprintf("reporter%d", ti+1), func() {
				defer wg.Done()
				for _, s := range seq {
					componentstatus.ReportStatus(in.h, componentstatus.NewEvent(componentstatus.Status(s)))
				}
			})
		}
		if c.Late {
			wg.Add(1)
			vs.GoNamed("attacher", func() {
				defer wg.Done()
				h := &c11cHost{}
				h.c11sHost.Report(componentstatus.NewEvent(componentstatus.StatusStarting))
				cc, _ := m.LoadOrStore("k", func() (*c11sInner, error) { panic("created twice") })
				_ = cc.Start(context.Background(), h)
				o.late = h
			})
		}
		wg.Wait()
		o.finished = true
	}
}

func c11cVerdict(c *c11cCase, o *c11cObs, s *vs.Sched) (string, string) {
	if v := s.Verdict(); v != "" {
		if s.Deadlock {
			return "shared-concurrent-deadlock:" + s.DeadlockSig(), fmt.Sprintf("%+v: %s", *c, v)
		}
		return "shared-concurrent-panic:" + strings.SplitN(fmt.Sprint(s.Panic), "\n", 2)[0], fmt.Sprintf("%+v: %s\n%s", *c, v, s.PanicStack)
	}
	if !o.finished {
		return "unfinished", fmt.Sprintf("%+v", *c)
	}
	a, b := o.hosts[0], o.hosts[1]
	if fmt.Sprint(a.got) != fmt.Sprint(b.got) {
		return "shared-instances-saw-different-sequences", fmt.Sprintf("%+v: instance 1 saw %v (ends in %v), instance 2 saw %v (ends in %v)", *c, a.got, a.cur, b.got, b.cur)
	}
	if o.late != nil && o.late.cur != a.cur {
		return "late-instance-status-differs:concurrent-attach", fmt.Sprintf("%+v: instances end in %v (saw %v), the instance that attached concurrently ends in %v (saw %v)", *c, a.cur, a.got, o.late.cur, o.late.got)
	}
	return "", ""
}

type c11cReplay struct {
	Case    *c11cCase `json:"case"`
	Choices []int     `json:"choices"`
}

func TestVerifSharedConc(t *testing.T) {
	ctx := vr.Start("C11", "shared-concurrent")
	if ctx == nil {
		t.Skip("not driven")
	}
	defer ctx.Finish()
	if ctx.ReplayRaw != nil {
		var rf struct {
			Replay c11cReplay `json:"replay"`
		}
		if err := json.Unmarshal(ctx.ReplayRaw, &rf); err != nil {
			t.Fatal(err)
		}
		var o c11cObs
		s := vs.Run(rf.Replay.Choices, c11cBody(rf.Replay.Case, &o))
		sig, what := c11cVerdict(rf.Replay.Case, &o, s)
		t.Logf("%s %s", sig, what)
		if sig != "" {
			ctx.Violate(sig, what, rf.Replay)
		}
		return
	}
	ok, rec, perm := int(componentstatus.StatusOK), int(componentstatus.StatusRecoverableError), int(componentstatus.StatusPermanentError)
	cases := []*c11cCase{
		{Threads: [][]int{{rec}, {ok}}},
		{Threads: [][]int{{rec, ok}, {ok, rec}}},
		{Threads: [][]int{{ok}, {rec}, {perm}}},
		{Threads: [][]int{{rec, ok}, {perm}}},
		{Threads: [][]int{{rec}, {ok}}, Late: true},
		{Threads: [][]int{{ok, rec}}, Late: true},
	}
	bound := ctx.Param("bound", 2)
	var nodes int64
	for ci, c := range cases {
		c := c
		var o c11cObs
		st := vs.Explore(vs.Opts{Bound: bound, Shard: ctx.Shard, Shards: ctx.Shards, Expired: ctx.Expired}, c11cBody(c, &o), func(s *vs.Sched, owned bool) bool {
			sig, what := c11cVerdict(c, &o, s)
			if owned {
				ctx.R.Evals++
				ctx.R.Traces++
				if len(o.hosts) > 0 {
					ctx.Outcome(fmt.Sprintf("case%d:final=%v", ci, o.hosts[0].cur))
				}
				if sig != "" {
					ctx.Violate(sig, what, c11cReplay{c, s.Choices()})
				}
				if ctx.R.Evals%2003 == 1 {
					ctx.Sample(map[string]any{"case": c, "instance_saw": fmt.Sprint(o.hosts[0].got)})
				}
			}
			return sig == ""
		})
		for _, x := range st.Infra {
			ctx.Infra("case %d: %s", ci, x)
		}
		if st.Capped {
			ctx.Cap("bound not completed")
		}
		ctx.R.Trans += st.Steps
		nodes += st.Nodes
		ctx.Nontrivial(vr.Hash(fmt.Sprint(*c)))
	}
	ctx.R.States = nodes
	ctx.R.Extra["bound_completed"] = bound
}
