//go:build verif

package main

// C13, unit "reload" - "each written key is reflected ... in the effective configuration handed to extensions", at the
// level where it is handed over: a real otelcol.Collector built from otelcorecol's components plus one extension that
// implements ConfigWatcher. For every ordered pair (A, B) of a small list of configurations the collector is started on A
// and reloaded with B (configuration-change notification of the provider); the effective configuration the extension is
// handed AFTER the reload must equal the one a fresh collector started directly on B hands over - nothing of A survives,
// nothing of B is missing. Sequential; real goroutines of the collector (no scheduler): waits are event driven with a
// generous deadline whose expiry is an infrastructure error, never a verdict.

import (
	"strings"
	"context"
	"encoding/json"
	"fmt"
	"reflect"
	"sort"
	"testing"
	"time"

	"go.opentelemetry.io/collector/component"
	"go.opentelemetry.io/collector/confmap"
	"go.opentelemetry.io/collector/extension"
	"go.opentelemetry.io/collector/otelcol"

	"VERIF/vr"
)

var c13WatchType = component.MustNewType("c13watch")

type c13WatchExt struct{ ch chan map[string]any }

func (*c13WatchExt) Start(context.Context, component.Host) error { return nil }
func (*c13WatchExt) Shutdown(context.Context) error              { return nil }
func (e *c13WatchExt) NotifyConfig(_ context.Context, conf *confmap.Conf) error {
	e.ch <- conf.ToStringMap()
	return nil
}

// c13MutExt: another ConfigWatcher extension, which edits the configuration it is handed (its own copy, as far as it can
// know): what it merges in must not show up in what the other watchers are handed
var c13MutType = component.MustNewType("c13mut")

type c13MutExt struct{}

func (*c13MutExt) Start(context.Context, component.Host) error { return nil }
func (*c13MutExt) Shutdown(context.Context) error              { return nil }
func (*c13MutExt) NotifyConfig(_ context.Context, conf *confmap.Conf) error {
	return conf.Merge(confmap.NewFromStringMap(map[string]any{
		"zz_injected_by_another_watcher": true,
		"exporters":                      map[string]any{"zz-injected": map[string]any{"k": "v"}},
		"service":                        map[string]any{"telemetry": map[string]any{"logs": map[string]any{"level": "debug"}}},
	}))
}

type c13ReloadProv struct {
	cfgs    []map[string]any
	n       int
	watcher chan confmap.WatcherFunc
}

func (p *c13ReloadProv) Retrieve(_ context.Context, _ string, w confmap.WatcherFunc) (*confmap.Retrieved, error) {
	i := p.n
	if i >= len(p.cfgs) {
		i = len(p.cfgs) - 1
	}
	p.n++
	select {
	case p.watcher <- w:
	default:
	}
	return confmap.NewRetrieved(c13Clone(p.cfgs[i]).(map[string]any))
}
func (*c13ReloadProv) Scheme() string                 { return "mem" }
func (*c13ReloadProv) Shutdown(context.Context) error { return nil }

func c13ReloadCfg(variant int) map[string]any {
	tel := map[string]any{
		"metrics": map[string]any{"level": "none"},
		"logs":    map[string]any{"level": "error", "output_paths": []any{"/dev/null"}, "error_output_paths": []any{"/dev/null"}},
	}
	cfg := map[string]any{
		"receivers":  map[string]any{"nop": nil},
		"exporters":  map[string]any{"nop": nil},
		"extensions": map[string]any{"c13watch": nil, "c13mut/a": nil, "c13mut/z": nil},
		"service": map[string]any{
			"extensions": []any{"c13mut/a", "c13watch", "c13mut/z"},
			"telemetry":  tel,
			"pipelines":  map[string]any{"traces": map[string]any{"receivers": []any{"nop"}, "exporters": []any{"nop"}}},
		},
	}
	switch variant {
	case 1: // more components, one more pipeline, resource attributes, a non-default flag
		cfg["exporters"].(map[string]any)["nop/extra"] = nil
		cfg["exporters"].(map[string]any)["debug"] = map[string]any{"verbosity": "detailed"}
		p := cfg["service"].(map[string]any)["pipelines"].(map[string]any)
		p["traces"].(map[string]any)["exporters"] = []any{"nop", "nop/extra"}
		p["logs"] = map[string]any{"receivers": []any{"nop"}, "exporters": []any{"debug"}}
		tel["resource"] = map[string]any{"team": "a"}
		tel["logs"].(map[string]any)["disable_caller"] = true
	case 2: // other resource attributes, the flag written with its zero value
		tel["resource"] = map[string]any{"region": "b"}
		tel["logs"].(map[string]any)["disable_caller"] = false
		cfg["exporters"].(map[string]any)["nop/other"] = nil
		cfg["service"].(map[string]any)["pipelines"].(map[string]any)["traces"].(map[string]any)["exporters"] = []any{"nop/other"}
	}
	return cfg
}

// c13RunCollector starts a collector on cfgs[0], applies the remaining ones as reloads, and returns the effective
// configurations handed to the extension, in order.
func c13RunCollector(cfgs []map[string]any) ([]map[string]any, error) {
	f, err := components()
	if err != nil {
		return nil, err
	}
	ext := &c13WatchExt{ch: make(chan map[string]any, 8)}
	f.Extensions[c13WatchType] = extension.NewFactory(c13WatchType, func() component.Config { return &struct{}{} },
		func(context.Context, extension.Settings, component.Config) (extension.Extension, error) { return ext, nil }, component.StabilityLevelStable)
	f.Extensions[c13MutType] = extension.NewFactory(c13MutType, func() component.Config { return &struct{}{} },
		func(context.Context, extension.Settings, component.Config) (extension.Extension, error) { return &c13MutExt{}, nil }, component.StabilityLevelStable)
	prov := &c13ReloadProv{cfgs: cfgs, watcher: make(chan confmap.WatcherFunc, 8)}
	col, err := otelcol.NewCollector(otelcol.CollectorSettings{
		BuildInfo: component.NewDefaultBuildInfo(), Factories: func() (otelcol.Factories, error) { return f, nil }, SkipSettingGRPCLogger: true,
		ConfigProviderSettings: otelcol.ConfigProviderSettings{ResolverSettings: confmap.ResolverSettings{
			URIs: []string{"mem:x"}, ProviderFactories: []confmap.ProviderFactory{confmap.NewProviderFactory(func(confmap.ProviderSettings) confmap.Provider { return prov })}}},
	})
	if err != nil {
		return nil, err
	}
	runErr := make(chan error, 1)
	go func() { runErr <- col.Run(context.Background()) }()
	deadline := time.After(60 * time.Second)
	var got []map[string]any
	var w confmap.WatcherFunc
	for i := range cfgs {
		if i > 0 {
			go w(&confmap.ChangeEvent{})
		}
		select {
		case m := <-ext.ch:
			got = append(got, m)
		case e := <-runErr:
			return got, fmt.Errorf("collector ended early: %v", e)
		case <-deadline:
			return got, fmt.Errorf("no configuration notification %d within 60s", i+1)
		}
		select {
		case w = <-prov.watcher:
		case <-deadline:
			return got, fmt.Errorf("provider was not asked for configuration %d", i+1)
		}
		for len(prov.watcher) > 0 {
			w = <-prov.watcher
		}
	}
	col.Shutdown()
	select {
	case <-runErr:
	case <-deadline:
		return got, fmt.Errorf("Run did not return")
	}
	return got, nil
}

type c13ReloadCase struct {
	A int `json:"first_configuration"`
	B int `json:"reloaded_configuration"`
}

func c13ReloadRun(c c13ReloadCase) (sig, what string, infra error) {
	got, err := c13RunCollector([]map[string]any{c13ReloadCfg(c.A), c13ReloadCfg(c.B)})
	if err != nil {
		return "", "", err
	}
	fresh, err := c13RunCollector([]map[string]any{c13ReloadCfg(c.B)})
	if err != nil {
		return "", "", err
	}
	fa, fb := map[string]string{}, map[string]string{}
	c13Flatten("", got[1], fa)
	c13Flatten("", fresh[0], fb)
	// every watcher is handed the written configuration, whatever another watcher did with ITS copy
	for _, m := range []map[string]string{fa, fb} {
		for k, v := range m {
			if strings.Contains(k, "zz_injected") || strings.Contains(k, "zz-injected") || (strings.HasSuffix(k, "telemetry::logs::level") && strings.Contains(strings.ToLower(v), "debug")) {
				return "watcher-handed-another-watchers-edits", fmt.Sprintf("configurations %d,%d: the effective configuration handed to one extension holds %s=%s, which another extension merged into the copy IT was handed", c.A, c.B, k, v), nil
			}
		}
	}
	if !reflect.DeepEqual(fa, fb) {
		var diff []string
		for k, v := range fa {
			if fb[k] != v {
				diff = append(diff, fmt.Sprintf("%s=%s (fresh: %s)", k, v, fb[k]))
			}
		}
		for k, v := range fb {
			if _, ok := fa[k]; !ok {
				diff = append(diff, fmt.Sprintf("%s missing (fresh: %s)", k, v))
			}
		}
		sort.Strings(diff)
		if len(diff) > 8 {
			diff = diff[:8]
		}
		return "effective-config-after-reload-differs-from-a-fresh-load", fmt.Sprintf("started on configuration %d, reloaded with configuration %d: the effective configuration handed to the extension after the reload differs from what a collector started on configuration %d hands over: %v", c.A, c.B, c.B, diff), nil
	}
	return "", "", nil
}

func TestVerifReload(t *testing.T) {
	ctx := vr.Start("C13", "reload")
	if ctx == nil {
		t.Skip("not driven")
	}
	defer ctx.Finish()
	if ctx.ReplayRaw != nil {
		var rf struct {
			Replay c13ReloadCase `json:"replay"`
		}
		if err := json.Unmarshal(ctx.ReplayRaw, &rf); err != nil {
			t.Fatal(err)
		}
		sig, what, err := c13ReloadRun(rf.Replay)
		t.Logf("%s %s %v", sig, what, err)
		if sig != "" {
			ctx.Violate(sig, what, rf.Replay)
		}
		return
	}
	var n int64
	for a := 0; a < 3; a++ {
		for b := 0; b < 3; b++ {
			n++
			if !ctx.Mine(n) {
				continue
			}
			c := c13ReloadCase{a, b}
			ctx.R.Evals++
			ctx.R.Trans += 2
			ctx.Nontrivial(vr.Hash("reload", a, b))
			sig, what, err := c13ReloadRun(c)
			switch {
			case err != nil:
				ctx.Infra("reload %+v: %v", c, err)
			case sig != "":
				ctx.Violate(sig, what, c)
				ctx.Outcome("reload:differs")
			default:
				ctx.R.Traces++
				ctx.Outcome("reload:as-a-fresh-load")
			}
		}
	}
	ctx.R.States = ctx.R.Evals
}
