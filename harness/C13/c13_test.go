//go:build verif

package main

// C13 — configuration loading is faithful and strict.
// Engine E2 (exhaustive over a reflectively discovered finite space): every setting path of every built-in component of
// otelcorecol and of the service section (found by walking mapstructure tags of the factories' default configs):
// 1-deviation configs (differential oracle on the effective configuration), sibling pairs, an unknown key at every
// map-typed node, reference/shape faults at every position, and a table of invalid nested values.

import (
	"context"
	"encoding/json"
	"fmt"
	"reflect"
	"sort"
	"strings"
	"testing"
	"time"

	"go.opentelemetry.io/collector/component"
	"go.opentelemetry.io/collector/confmap"
	"go.opentelemetry.io/collector/confmap/xconfmap"
	"go.opentelemetry.io/collector/otelcol"

	"VERIF/vr"
)

type c13Prov struct{ m map[string]any }

func (p c13Prov) Retrieve(context.Context, string, confmap.WatcherFunc) (*confmap.Retrieved, error) {
	return confmap.NewRetrieved(p.m)
}
func (c13Prov) Scheme() string                 { return "mem" }
func (c13Prov) Shutdown(context.Context) error { return nil }

func c13Load(m map[string]any) (*otelcol.Config, error) {
	f, _ := components()
	cp, err := otelcol.NewConfigProvider(otelcol.ConfigProviderSettings{ResolverSettings: confmap.ResolverSettings{
		URIs: []string{"mem:x"}, ProviderFactories: []confmap.ProviderFactory{confmap.NewProviderFactory(func(confmap.ProviderSettings) confmap.Provider { return c13Prov{m} })}}})
	if err != nil {
		return nil, err
	}
	cfg, err := cp.Get(context.Background(), f)
	if err != nil {
		return nil, err
	}
	if err := xconfmap.Validate(cfg); err != nil {
		return nil, fmt.Errorf("validate: %w", err)
	}
	return cfg, nil
}

func c13Clone(v any) any {
	switch x := v.(type) {
	case map[string]any:
		n := map[string]any{}
		for k, e := range x {
			n[k] = c13Clone(e)
		}
		return n
	case []any:
		n := make([]any, len(x))
		for i, e := range x {
			n[i] = c13Clone(e)
		}
		return n
	}
	return v
}

// the only hand-written input: a seed configuration per component that is valid on its own
var c13Seeds = map[string]map[string]any{
	"receivers/otlp":            {"protocols": map[string]any{"grpc": map[string]any{"endpoint": "localhost:4317"}, "http": map[string]any{"endpoint": "localhost:4318"}}},
	"exporters/otlp":            {"endpoint": "localhost:4317", "tls": map[string]any{"insecure": true}},
	"exporters/otlphttp":        {"endpoint": "http://localhost:4318"},
	"processors/memory_limiter": {"check_interval": "1s", "limit_mib": 100},
	"extensions/memory_limiter": {"check_interval": "1s", "limit_mib": 100},
}

// c13Base: a minimal valid collector config with component (kind, typ) configured by compCfg
func c13Base(kind, typ string, compCfg map[string]any) map[string]any {
	m := map[string]any{
		"receivers": map[string]any{"nop": nil},
		"exporters": map[string]any{"nop": nil},
		"service": map[string]any{
			"telemetry": map[string]any{"metrics": map[string]any{"level": "none"}},
			"pipelines": map[string]any{"traces": map[string]any{"receivers": []any{"nop"}, "exporters": []any{"nop"}}},
		},
	}
	if kind != "" && kind != "service" {
		sec, _ := m[kind].(map[string]any)
		if sec == nil {
			sec = map[string]any{}
			m[kind] = sec
		}
		if compCfg == nil {
			sec[typ] = nil
		} else {
			sec[typ] = compCfg
		}
	}
	if kind == "service" {
		svc := m["service"].(map[string]any)
		for k, v := range compCfg {
			if ex, ok := svc[k].(map[string]any); ok {
				if nv, ok := v.(map[string]any); ok {
					c13Merge(ex, nv)
					continue
				}
			}
			svc[k] = v
		}
	}
	return m
}

func c13Merge(dst, src map[string]any) {
	for k, v := range src {
		if sm, ok := v.(map[string]any); ok {
			if dm, ok := dst[k].(map[string]any); ok {
				c13Merge(dm, sm)
				continue
			}
		}
		dst[k] = v
	}
}

const c13Secret = "s3cr3t" // the only candidate value of opaque settings

type c13Path struct {
	keys []string
	typ  reflect.Type
}

var c13TextUnm = reflect.TypeOf((*interface{ UnmarshalText([]byte) error })(nil)).Elem()

// c13Walk follows mapstructure tags; types with text unmarshalers are leaves with their own candidate table
func c13Walk(t reflect.Type, prefix []string, out *[]c13Path, maps *[][]string, seen map[reflect.Type]int) {
	for t.Kind() == reflect.Ptr {
		t = t.Elem()
	}
	if reflect.PointerTo(t).Implements(c13TextUnm) || t.Implements(c13TextUnm) {
		*out = append(*out, c13Path{append([]string{}, prefix...), t})
		return
	}
	switch t.Kind() {
	case reflect.Struct:
		if t == reflect.TypeOf(time.Time{}) || seen[t] > 1 {
			return
		}
		seen[t]++
		defer func() { seen[t]-- }()
		*maps = append(*maps, append([]string{}, prefix...))
		for i := 0; i < t.NumField(); i++ {
			f := t.Field(i)
			if !f.IsExported() {
				continue
			}
			parts := strings.Split(f.Tag.Get("mapstructure"), ",")
			name := parts[0]
			squash := false
			for _, p := range parts[1:] {
				if p == "squash" {
					squash = true
				}
			}
			if name == "-" {
				continue
			}
			if squash {
				// a squashed struct contributes its fields to the parent map (no extra map node)
				mm := [][]string{}
				c13Walk(f.Type, prefix, out, &mm, seen)
				for _, x := range mm {
					if len(x) > len(prefix) {
						*maps = append(*maps, x)
					}
				}
				continue
			}
			if name == "" {
				name = strings.ToLower(f.Name)
			}
			c13Walk(f.Type, append(append([]string{}, prefix...), name), out, maps, seen)
		}
	default:
		*out = append(*out, c13Path{append([]string{}, prefix...), t})
	}
}

// candidates by Go TYPE (a by-kind value such as 1 for debug::verbosity would be normalised, not rejected)
func c13Candidates(p c13Path) []any {
	key := p.keys[len(p.keys)-1]
	switch p.typ.String() {
	case "time.Duration":
		return []any{"7s", "3m"}
	case "configtelemetry.Level":
		return []any{"detailed", "basic"}
	case "configcompression.Type":
		return []any{"gzip", "zstd", "snappy"}
	case "request.SizerType", "exporterhelper.RequestSizerType":
		return []any{"items", "requests"}
	case "component.ID":
		return []any{"zpages", "nop"}
	case "confignet.TransportType":
		return []any{"tcp", "unix"}
	case "[]string":
		switch key {
		case "cipher_suites":
			return []any{[]any{"TLS_AES_128_GCM_SHA256"}}
		case "curve_preferences":
			return []any{[]any{"X25519"}}
		case "compression_algorithms":
			return []any{[]any{"gzip"}}
		}
		return []any{[]any{"a1"}, []any{"b1", "b2"}}
	case "configopaque.String":
		return []any{c13Secret}
	case "[]otelconf.MetricReader":
		// a list of structured entries that is LONGER than the factory default (one reader): every entry is exactly what
		// was written, nothing of the default entry survives in it
		rd := func(port int) any {
			return map[string]any{"pull": map[string]any{"exporter": map[string]any{"prometheus": map[string]any{"host": "localhost", "port": port}}}}
		}
		pr := func() any {
			return map[string]any{"periodic": map[string]any{"exporter": map[string]any{"console": map[string]any{}}}}
		}
		return []any{[]any{pr(), pr()}, []any{rd(8889), rd(8890)}}
	case "otlphttpexporter.EncodingType":
		return []any{"json", "proto"}
	case "zapcore.Level", "zap.AtomicLevel":
		return []any{"debug", "warn"}
	}
	if reflect.PointerTo(p.typ).Implements(c13TextUnm) || p.typ.Implements(c13TextUnm) {
		return []any{"detailed", "normal", "basic", "json", "console", "gzip"}
	}
	switch p.typ.Kind() {
	case reflect.Bool:
		return []any{true, false}
	case reflect.Int, reflect.Int32, reflect.Int64, reflect.Uint, reflect.Uint32, reflect.Uint64:
		return []any{7, 33, 1, 9000}
	case reflect.Float64, reflect.Float32:
		return []any{0.25, 1.5}
	case reflect.String:
		switch {
		case strings.Contains(key, "endpoint"):
			return []any{"localhost:1234", "http://localhost:1234"}
		case strings.HasSuffix(key, "_path") || strings.HasSuffix(key, "url_path"):
			return []any{"/zz"}
		case strings.Contains(key, "version"):
			return []any{"1.2", "1.3"}
		case key == "transport":
			return []any{"tcp", "unix"}
		}
		return []any{"zzz", "localhost:1234", "/zz"}
	}
	return nil
}

func c13Set(m map[string]any, keys []string, v any) {
	for _, k := range keys[:len(keys)-1] {
		n, _ := m[k].(map[string]any)
		if n == nil {
			n = map[string]any{}
			m[k] = n
		}
		m = n
	}
	m[keys[len(keys)-1]] = v
}

func c13Flatten(prefix string, v any, out map[string]string) {
	switch x := v.(type) {
	case map[string]any:
		if len(x) == 0 && prefix != "" {
			out[prefix] = "{}"
		}
		for k, e := range x {
			p := k
			if prefix != "" {
				p = prefix + "::" + k
			}
			c13Flatten(p, e, out)
		}
	default:
		b, _ := json.Marshal(x)
		out[prefix] = string(b)
	}
}

func c13Effective(cfg *otelcol.Config) (map[string]string, error) {
	eff := confmap.New()
	if err := eff.Marshal(cfg); err != nil {
		return nil, err
	}
	out := map[string]string{}
	c13Flatten("", eff.ToStringMap(), out)
	return out, nil
}

func c13NormVal(s string) string {
	s = strings.Trim(s, `"`)
	if d, err := time.ParseDuration(s); err == nil {
		return fmt.Sprint(int64(d)) // durations are rendered as text or as nanoseconds depending on the field type
	}
	return s
}

type c13Comp struct {
	kind, typ string
	def       any
	seed      map[string]any
}

type c13Case struct {
	Kind   string         `json:"kind"`
	Comp   string         `json:"component,omitempty"`
	Config map[string]any `json:"config,omitempty"`
	Paths  []string       `json:"paths,omitempty"`
	Values []any          `json:"values,omitempty"`
	Expect string         `json:"expect,omitempty"`
}

// c13Written checks the 1- or 2-deviation case: the written keys are reflected in the effective configuration and nothing
// else changes relative to the base (same ancestors present, keys absent).
// c13Pristine: flattened effective configuration of every component's seed, taken before any other load of this process
var c13Pristine = map[string]map[string]string{}

func c13Written(c c13Comp, paths [][]string, vals []any) (string, string, bool) {
	with := c13Clone(c.seed).(map[string]any)
	base := c13Clone(c.seed).(map[string]any)
	for i, p := range paths {
		c13Set(with, p, vals[i])
		if len(p) > 1 {
			// ancestors present in the base as well
			par := p[:len(p)-1]
			cur := base
			for _, k := range par {
				n, _ := cur[k].(map[string]any)
				if n == nil {
					n = map[string]any{}
					cur[k] = n
				}
				cur = n
			}
		}
	}
	cfgW, err := c13Load(c13Base(c.kind, c.typ, with))
	if err != nil {
		return "", "", false // candidate does not load: not counted
	}
	cfgB, err := c13Load(c13Base(c.kind, c.typ, base))
	if err != nil {
		return "", "", false
	}
	ew, err1 := c13Effective(cfgW)
	eb, err2 := c13Effective(cfgB)
	if err1 != nil || err2 != nil {
		return "marshal-error", fmt.Sprintf("%s/%s: %v %v", c.kind, c.typ, err1, err2), true
	}
	// "factory defaults overlaid by exactly the keys the user wrote": the component's seed configuration, loaded again AFTER
	// the configuration with the written keys, must be exactly what it was when this process loaded it first - nothing
	// written in an earlier load (or for another instance) may survive in shared default values
	if pr := c13Pristine[c.kind+"/"+c.typ]; pr != nil {
		if cfgS, err := c13Load(c13Base(c.kind, c.typ, c13Clone(c.seed).(map[string]any))); err == nil {
			if es, err := c13Effective(cfgS); err == nil {
				for k, v := range es {
					if pv, ok := pr[k]; !ok || pv != v {
						return "setting-survived-from-an-earlier-load", fmt.Sprintf("%s/%s: after loading a configuration that wrote %v = %v, the unchanged seed configuration has %s = %s; loaded first in this process it had %q (present=%v)", c.kind, c.typ, paths, vals, k, v, pv, ok), true
					}
				}
				for k, pv := range pr {
					if _, ok := es[k]; !ok {
						return "setting-survived-from-an-earlier-load", fmt.Sprintf("%s/%s: after loading a configuration that wrote %v, the unchanged seed configuration lacks %s (was %s)", c.kind, c.typ, paths, k, pv), true
					}
				}
			}
		}
	}
	root := c.kind + "::" + c.typ
	if c.kind == "service" {
		root = "service"
	}
	desc := fmt.Sprintf("%s/%s paths=%v values=%v", c.kind, c.typ, paths, vals)
	var full []string
	for i, p := range paths {
		fp := root + "::" + strings.Join(p, "::")
		full = append(full, fp)
		got, ok := ew[fp]
		if !ok {
			return "written-key-missing-from-effective-config", desc + ": " + fp + " absent", true
		}
		want, _ := json.Marshal(vals[i])
		// "(secrets redacted)": the value written into an opaque setting - a field or a map entry - shows as the marker
		if sv, isStr := vals[i].(string); isStr && sv == c13Secret {
			if c13NormVal(got) != "[REDACTED]" {
				return "secret-not-redacted-in-effective-config", fmt.Sprintf("%s: wrote a secret into %s, the effective configuration handed to extensions has %s", desc, fp, got), true
			}
			continue
		}
		// a written list of structured entries: every entry holds what was written, and whatever else the effective entry
		// shows is empty (null / false / 0 / "" / {} / [])
		if wl, isList := vals[i].([]any); isList && len(wl) > 0 {
			if _, isMap := wl[0].(map[string]any); isMap {
				var gl []any
				if err := json.Unmarshal([]byte(got), &gl); err != nil || len(gl) != len(wl) {
					return "effective-value-differs-from-written", fmt.Sprintf("%s: wrote %s, effective configuration has %s", desc, want, got), true
				}
				for j := range wl {
					if extra := c13Subset(wl[j], gl[j], fmt.Sprintf("[%d]", j)); extra != "" {
						return "written-list-entry-holds-more-than-was-written", fmt.Sprintf("%s: wrote %s, effective configuration has %s: %s", desc, want, got, extra), true
					}
				}
				continue
			}
		}
		// typed leaves normalise their text form (e.g. verbosity detailed -> Detailed): compared case-insensitively
		if !strings.EqualFold(c13NormVal(got), c13NormVal(string(want))) && c13NormVal(got) != "[REDACTED]" {
			return "effective-value-differs-from-written", fmt.Sprintf("%s: wrote %s, effective configuration has %s", desc, want, got), true
		}
	}
	for k, v := range ew {
		skip := false
		for _, fp := range full {
			if k == fp || strings.HasPrefix(k, fp+"::") {
				skip = true
			}
		}
		if skip {
			continue
		}
		bv, ok := eb[k]
		if !ok {
			// the base configuration carries the written key's ancestors as EMPTY maps, which some sections render as absent:
			// fall back to what the component's seed configuration had when it was first loaded
			if pv, pok := c13Pristine[c.kind+"/"+c.typ][k]; pok {
				bv, ok = pv, true
			}
		}
		if !ok {
			// absent from the base and from the seed: a default of a section that only materialises once one of its keys is
			// written (the sibling itself was not written, so the statement does not constrain how it is rendered)
			sameSection := false
			for _, fp := range full {
				if i := strings.LastIndex(fp, "::"); i > 0 && strings.HasPrefix(k, fp[:i]+"::") {
					sameSection = true
				}
			}
			if sameSection {
				continue
			}
		}
		if (!ok && v != "null") || (ok && bv != v) {
			return "writing-a-key-changed-another-setting", fmt.Sprintf("%s: setting %s is %s, without the written key(s) it is %s", desc, k, v, bv), true
		}
	}
	for k, bv := range eb {
		if _, ok := ew[k]; !ok && bv != "null" {
			skip := false
			for _, fp := range full {
				if strings.HasPrefix(k, fp) || strings.HasPrefix(fp, k+"::") { // below the written key, or an (empty) ancestor of it
					skip = true
				}
			}
			if !skip {
				return "writing-a-key-removed-another-setting", fmt.Sprintf("%s: setting %s disappeared", desc, k), true
			}
		}
	}
	return "", "", true
}

func c13Comps() ([]c13Comp, error) {
	f, err := components()
	if err != nil {
		return nil, err
	}
	var comps []c13Comp
	add := func(kind string, ty component.Type, def component.Config) {
		seed := c13Seeds[kind+"/"+ty.String()]
		if seed == nil {
			seed = map[string]any{}
		}
		comps = append(comps, c13Comp{kind, ty.String(), def, seed})
	}
	for ty, x := range f.Receivers {
		add("receivers", ty, x.CreateDefaultConfig())
	}
	for ty, x := range f.Exporters {
		add("exporters", ty, x.CreateDefaultConfig())
	}
	for ty, x := range f.Processors {
		add("processors", ty, x.CreateDefaultConfig())
	}
	for ty, x := range f.Extensions {
		add("extensions", ty, x.CreateDefaultConfig())
	}
	for ty, x := range f.Connectors {
		add("connectors", ty, x.CreateDefaultConfig())
	}
	sort.Slice(comps, func(i, j int) bool { return comps[i].kind+comps[i].typ < comps[j].kind+comps[j].typ })
	// the service section (telemetry subtrees typed by third-party structs are reported as uncovered)
	cfg, err := c13Load(c13Base("", "", nil))
	if err != nil {
		return nil, fmt.Errorf("base config does not load: %w", err)
	}
	comps = append(comps, c13Comp{"service", "service", cfg.Service, map[string]any{}})
	return comps, nil
}

func c13Faults() []c13Case {
	mk := func(mut func(m map[string]any)) map[string]any {
		m := c13Base("processors", "batch", nil)
		m["connectors"] = map[string]any{"forward": nil}
		m["extensions"] = map[string]any{"zpages": nil}
		p := m["service"].(map[string]any)["pipelines"].(map[string]any)
		p["traces"].(map[string]any)["processors"] = []any{"batch"}
		p["logs"] = map[string]any{"receivers": []any{"nop"}, "exporters": []any{"nop"}}
		mut(m)
		return m
	}
	pipe := func(m map[string]any, n string) map[string]any {
		return m["service"].(map[string]any)["pipelines"].(map[string]any)[n].(map[string]any)
	}
	// component ids are decoded leniently (whitespace around type and name is not significant): however the id of a
	// component is spelled, the body written under it is that component's configuration - an unknown key in it is rejected,
	// an invalid value in it is reported
	var spelled []c13Case
	for _, sec := range []struct{ section, id string }{{"receivers", "nop"}, {"processors", "batch"}, {"exporters", "nop"}, {"connectors", "forward"}, {"extensions", "zpages"}} {
		for _, sp := range []string{"%s", " %s", "%s ", "\t%s", "%s / a", " %s/a "} {
			key := fmt.Sprintf(sp, sec.id)
			sec, sp := sec, sp
			spelled = append(spelled, c13Case{Kind: "fault", Comp: fmt.Sprintf("unknown key under %s id spelled %q", sec.section, key), Expect: "zz_unknown", Config: mk(func(m map[string]any) {
				if !strings.Contains(sp, "a") {
					delete(m[sec.section].(map[string]any), sec.id)
				}
				m[sec.section].(map[string]any)[key] = map[string]any{"zz_unknown": 1}
			})})
		}
	}
	for _, sp := range []string{"%s", " %s", "%s ", "%s / a"} {
		key := fmt.Sprintf(sp, "batch")
		sp := sp
		spelled = append(spelled, c13Case{Kind: "invalid", Comp: fmt.Sprintf("batch max < size under id spelled %q", key), Expect: "send_batch_max_size", Config: mk(func(m map[string]any) {
			if !strings.Contains(sp, "a") {
				delete(m["processors"].(map[string]any), "batch")
			}
			m["processors"].(map[string]any)[key] = map[string]any{"send_batch_size": 10, "send_batch_max_size": 5}
		})})
	}
	return append(spelled, []c13Case{
		{Kind: "fault", Comp: "undefined receiver", Expect: "nosuchrecv", Config: mk(func(m map[string]any) { pipe(m, "traces")["receivers"] = []any{"nop", "nosuchrecv"} })},
		{Kind: "fault", Comp: "undefined processor", Expect: "nosuchproc", Config: mk(func(m map[string]any) { pipe(m, "traces")["processors"] = []any{"batch", "nosuchproc"} })},
		{Kind: "fault", Comp: "undefined exporter", Expect: "nosuchexp", Config: mk(func(m map[string]any) { pipe(m, "logs")["exporters"] = []any{"nosuchexp"} })},
		{Kind: "fault", Comp: "undefined extension", Expect: "nosuchext", Config: mk(func(m map[string]any) { m["service"].(map[string]any)["extensions"] = []any{"zpages", "nosuchext"} })},
		{Kind: "fault", Comp: "processor listed twice", Expect: "batch", Config: mk(func(m map[string]any) { pipe(m, "traces")["processors"] = []any{"batch", "batch"} })},
		{Kind: "fault", Comp: "pipeline without receivers", Expect: "receiver", Config: mk(func(m map[string]any) { pipe(m, "logs")["receivers"] = []any{} })},
		{Kind: "fault", Comp: "pipeline without exporters", Expect: "exporter", Config: mk(func(m map[string]any) { delete(pipe(m, "logs"), "exporters") })},
		{Kind: "fault", Comp: "connector id equals receiver id", Expect: "nop", Config: mk(func(m map[string]any) {
			m["connectors"] = map[string]any{"nop": nil}
		})},
		{Kind: "fault", Comp: "connector id equals exporter id", Expect: "nop", Config: mk(func(m map[string]any) {
			m["receivers"] = map[string]any{"otlp": c13Seeds["receivers/otlp"]}
			pipe(m, "traces")["receivers"] = []any{"otlp"}
			pipe(m, "logs")["receivers"] = []any{"otlp"}
			m["connectors"] = map[string]any{"nop": nil}
		})},
		{Kind: "fault", Comp: "unknown top-level section", Expect: "zz_unknown", Config: mk(func(m map[string]any) { m["zz_unknown"] = map[string]any{} })},
		{Kind: "fault", Comp: "unknown pipeline key", Expect: "zz_unknown", Config: mk(func(m map[string]any) { pipe(m, "logs")["zz_unknown"] = 1 })},
		{Kind: "fault", Comp: "unknown component type", Expect: "nosuchtype", Config: mk(func(m map[string]any) { m["processors"].(map[string]any)["nosuchtype"] = nil })},
		// invalid nested values (parents valid): every validation rule is evaluated
		{Kind: "invalid", Comp: "batch max < size", Expect: "send_batch_max_size", Config: mk(func(m map[string]any) {
			m["processors"].(map[string]any)["batch"] = map[string]any{"send_batch_size": 10, "send_batch_max_size": 5}
		})},
		{Kind: "invalid", Comp: "exporter queue size", Expect: "queue_size", Config: mk(func(m map[string]any) {
			m["exporters"].(map[string]any)["otlp"] = map[string]any{"endpoint": "localhost:4317", "sending_queue": map[string]any{"queue_size": -1}}
		})},
		{Kind: "invalid", Comp: "exporter retry multiplier", Expect: "multiplier", Config: mk(func(m map[string]any) {
			m["exporters"].(map[string]any)["otlphttp"] = map[string]any{"endpoint": "http://localhost:4318", "retry_on_failure": map[string]any{"multiplier": -1}}
		})},
		{Kind: "invalid", Comp: "exporter timeout", Expect: "timeout", Config: mk(func(m map[string]any) {
			m["exporters"].(map[string]any)["otlp"] = map[string]any{"endpoint": "localhost:4317", "timeout": "-1s"}
		})},
		{Kind: "invalid", Comp: "receiver tls min_version", Expect: "min_version", Config: mk(func(m map[string]any) {
			m["receivers"].(map[string]any)["otlp"] = map[string]any{"protocols": map[string]any{"grpc": map[string]any{"endpoint": "localhost:4317", "tls": map[string]any{"min_version": "9.9", "cert_file": "a", "key_file": "b"}}}}
		})},
		{Kind: "invalid", Comp: "receiver without protocols", Expect: "protocol", Config: mk(func(m map[string]any) {
			m["receivers"].(map[string]any)["otlp"] = map[string]any{"protocols": map[string]any{}}
		})},
		{Kind: "invalid", Comp: "memory limiter percentage", Expect: "limit_percentage", Config: mk(func(m map[string]any) {
			m["processors"].(map[string]any)["memory_limiter"] = map[string]any{"check_interval": "1s", "limit_percentage": 200}
		})},
		{Kind: "invalid", Comp: "memory limiter check interval", Expect: "check_interval", Config: mk(func(m map[string]any) {
			m["extensions"].(map[string]any)["memory_limiter"] = map[string]any{"check_interval": "0s", "limit_mib": 10}
		})},
		{Kind: "invalid", Comp: "exporter compression", Expect: "compression", Config: mk(func(m map[string]any) {
			m["exporters"].(map[string]any)["otlphttp"] = map[string]any{"endpoint": "http://localhost:4318", "compression": "bogus"}
		})},
		{Kind: "invalid", Comp: "exporter batch min > max", Expect: "min_size", Config: mk(func(m map[string]any) {
			m["exporters"].(map[string]any)["otlp"] = map[string]any{"endpoint": "localhost:4317", "sending_queue": map[string]any{"sizer": "items", "batch": map[string]any{"flush_timeout": "1s", "min_size": 10, "max_size": 5}}}
		})},
		{Kind: "invalid", Comp: "telemetry metrics level", Expect: "level", Config: mk(func(m map[string]any) {
			m["service"].(map[string]any)["telemetry"].(map[string]any)["metrics"] = map[string]any{"level": "bogus"}
		})},
	}...)
}

// c13RefGrid: reference / shape faults generated at EVERY position (with the fault-free lists as positive controls):
// processor lists up to length 4 over three defined processors (rejected iff an id repeats, wherever the repeat sits),
// a dangling reference inserted at every position of every role's list in every pipeline and of service::extensions,
// empty / missing / null receiver and exporter lists, and connector ids that collide with a receiver or an exporter id.
func c13RefGrid() []c13Case {
	base := func() map[string]any {
		m := c13Base("processors", "batch", nil)
		m["receivers"] = map[string]any{"nop": nil, "nop/2": nil}
		m["exporters"] = map[string]any{"nop": nil, "nop/2": nil}
		m["processors"] = map[string]any{"batch": nil, "batch/2": nil, "memory_limiter": map[string]any{"check_interval": "1s", "limit_mib": 100}}
		m["extensions"] = map[string]any{"zpages": nil}
		p := m["service"].(map[string]any)["pipelines"].(map[string]any)
		p["traces"] = map[string]any{"receivers": []any{"nop"}, "processors": []any{"batch"}, "exporters": []any{"nop"}}
		p["logs"] = map[string]any{"receivers": []any{"nop"}, "exporters": []any{"nop"}}
		return m
	}
	pipe := func(m map[string]any, n string) map[string]any {
		return m["service"].(map[string]any)["pipelines"].(map[string]any)[n].(map[string]any)
	}
	var out []c13Case
	// 1. processor lists
	procs := []string{"batch", "batch/2", "memory_limiter"}
	var rec func(cur []string)
	rec = func(cur []string) {
		if len(cur) > 0 {
			dup := ""
			seen := map[string]bool{}
			for _, x := range cur {
				if seen[x] && dup == "" {
					dup = x
				}
				seen[x] = true
			}
			for _, pl := range []string{"traces", "logs"} {
				m := base()
				var l []any
				for _, x := range cur {
					l = append(l, x)
				}
				pipe(m, pl)["processors"] = l
				if dup != "" {
					out = append(out, c13Case{Kind: "fault", Comp: fmt.Sprintf("processor listed twice: %s processors=%v", pl, cur), Expect: dup, Config: m})
				} else {
					out = append(out, c13Case{Kind: "valid", Comp: fmt.Sprintf("%s processors=%v", pl, cur), Config: m})
				}
			}
		}
		if len(cur) == 4 {
			return
		}
		for _, x := range procs {
			rec(append(append([]string(nil), cur...), x))
		}
	}
	rec(nil)
	// 2. dangling references at every position
	valid := map[string][]string{"receivers": {"nop", "nop/2"}, "processors": {"batch", "batch/2"}, "exporters": {"nop", "nop/2"}}
	for _, pl := range []string{"traces", "logs"} {
		for _, role := range []string{"receivers", "processors", "exporters"} {
			for n := 0; n <= 2; n++ {
				for pos := 0; pos <= n; pos++ {
					for _, bad := range []string{"nosuch", valid[role][0] + "/undefined"} {
						var l []any
						for i := 0; i < n; i++ {
							if i == pos {
								l = append(l, bad)
							}
							l = append(l, valid[role][i])
						}
						if pos == n {
							l = append(l, bad)
						}
						m := base()
						pipe(m, pl)[role] = l
						out = append(out, c13Case{Kind: "fault", Comp: fmt.Sprintf("undefined reference: %s %s=%v", pl, role, l), Expect: bad, Config: m})
					}
				}
			}
		}
	}
	// 2b. a reference that dangles in ITS role although the same ID is defined in another role (and referenced there, in
	// the same or in another pipeline): ids are resolved per component kind
	for _, x := range []struct {
		def, role, other string
	}{{"receivers", "exporters", "receivers"}, {"exporters", "receivers", "exporters"}, {"processors", "exporters", "processors"}, {"processors", "receivers", "processors"}} {
		id := map[string]string{"receivers": "nop/ronly", "exporters": "nop/eonly", "processors": "batch/ponly"}[x.def]
		for _, same := range []bool{true, false} {
			for _, first := range []bool{true, false} {
				m := base()
				m[x.def].(map[string]any)[id] = nil
				usePl, badPl := "traces", "traces"
				if !same {
					badPl = "logs"
				}
				// the valid use in its own role
				if x.def == "processors" {
					pipe(m, usePl)["processors"] = []any{id}
				} else {
					pipe(m, usePl)[x.def] = []any{id}
				}
				l := []any{id, "nop"}
				if !first {
					l = []any{"nop", id}
				}
				pipe(m, badPl)[x.role] = l
				out = append(out, c13Case{Kind: "fault", Comp: fmt.Sprintf("reference to an id defined only under %s: %s %s=%v (valid use in %s)", x.def, badPl, x.role, l, usePl), Expect: id, Config: m})
			}
		}
	}
	for _, l := range [][]any{{"nosuchext"}, {"zpages", "nosuchext"}, {"nosuchext", "zpages"}, {"zpages/undefined"}, {"zpages", "zpages/undefined"}} {
		m := base()
		m["service"].(map[string]any)["extensions"] = l
		out = append(out, c13Case{Kind: "fault", Comp: fmt.Sprintf("undefined reference: service extensions=%v", l), Expect: fmt.Sprint(l[len(l)-1])[:len(fmt.Sprint(l[len(l)-1]))], Config: m})
	}
	out[len(out)-4].Expect, out[len(out)-3].Expect = "nosuchext", "nosuchext"
	// 3. pipelines without receivers / exporters
	for _, pl := range []string{"traces", "logs"} {
		for _, role := range []string{"receivers", "exporters"} {
			for _, how := range []string{"empty", "missing", "null"} {
				m := base()
				switch how {
				case "empty":
					pipe(m, pl)[role] = []any{}
				case "missing":
					delete(pipe(m, pl), role)
				case "null":
					pipe(m, pl)[role] = nil
				}
				out = append(out, c13Case{Kind: "fault", Comp: fmt.Sprintf("pipeline without %s: %s (%s)", role, pl, how), Expect: role[:len(role)-1], Config: m})
			}
		}
	}
	// 3b. a pipeline written with no body at all (`logs:` / `logs: {}`) or with processors only has neither
	for _, pl := range []string{"traces", "logs", "metrics"} {
		for _, how := range []string{"null-body", "empty-map-body", "processors-only", "empty-lists"} {
			m := base()
			ps := m["service"].(map[string]any)["pipelines"].(map[string]any)
			switch how {
			case "null-body":
				ps[pl] = nil
			case "empty-map-body":
				ps[pl] = map[string]any{}
			case "processors-only":
				ps[pl] = map[string]any{"processors": []any{"batch"}}
			case "empty-lists":
				ps[pl] = map[string]any{"receivers": []any{}, "processors": []any{}, "exporters": []any{}}
			}
			out = append(out, c13Case{Kind: "fault", Comp: fmt.Sprintf("pipeline without receivers and exporters: %s (%s)", pl, how), Expect: "receiver", Config: m})
		}
	}
	// 4. connector id shared with a receiver / an exporter
	for _, role := range []string{"receivers", "exporters"} {
		for _, id := range []string{"nop", "nop/2"} {
			for _, used := range []bool{false, true} {
				m := base()
				m["connectors"] = map[string]any{id: nil}
				if used {
					pipe(m, "traces")["exporters"] = []any{id}
					pipe(m, "logs")["receivers"] = []any{id}
				}
				other := "exporters"
				if role == "exporters" {
					other = "receivers"
				}
				m[other] = map[string]any{"otlp": c13Seeds[other+"/otlp"]}
				pipe(m, "traces")[other] = []any{"otlp"}
				pipe(m, "logs")[other] = []any{"otlp"}
				if used {
					if other == "receivers" {
						pipe(m, "logs")["receivers"] = []any{id}
						pipe(m, "traces")["exporters"] = []any{id}
					}
				}
				out = append(out, c13Case{Kind: "fault", Comp: fmt.Sprintf("connector id %q also a %s id (used=%v)", id, role[:len(role)-1], used), Expect: id, Config: m})
			}
		}
	}
	return out
}

// c13InvalidGrid: "Every validation rule of every nested configuration value is evaluated": every rule of every Validate
// method of the built-in configuration types (read from the sources, one entry per error return) x EVERY site at which a
// value of that type is embedded in a built-in component's configuration (direct field, pointer, squash-embedded struct,
// nested two and three levels deep). Each case sets exactly the keys of one rule at one site on top of a valid seed and
// expects the load to fail with a message naming the setting. The unmodified seeds are positive controls.
func c13InvalidGrid() []c13Case {
	type rule struct {
		typ    string
		set    map[string]any // keys relative to the site
		expect string
	}
	rules := []rule{
		{"retry", map[string]any{"initial_interval": "-1s"}, "initial_interval"},
		{"retry", map[string]any{"randomization_factor": 2.0}, "randomization_factor"},
		{"retry", map[string]any{"multiplier": -1.0}, "multiplier"},
		{"retry", map[string]any{"max_interval": "-1s"}, "max_interval"},
		{"retry", map[string]any{"max_elapsed_time": "-1s"}, "max_elapsed_time"},
		{"retry", map[string]any{"max_elapsed_time": "1s", "initial_interval": "5s"}, "max_elapsed_time"},
		{"retry", map[string]any{"max_elapsed_time": "10s", "max_interval": "50s"}, "max_elapsed_time"},
		{"tls", map[string]any{"ca_file": "a", "ca_pem": "b"}, "ca"},
		{"tls", map[string]any{"min_version": "9.9"}, "min_version"},
		{"tls", map[string]any{"max_version": "9.9"}, "max_version"},
		{"tls", map[string]any{"min_version": "1.3", "max_version": "1.2"}, "min_version"},
		// rules that relate two settings also hold when only ONE of them is written and the other has its default
		{"tls", map[string]any{"max_version": "1.1"}, "min_version"},
		{"tls", map[string]any{"max_version": "1.0"}, "min_version"},
		{"retry", map[string]any{"max_elapsed_time": "1s"}, "max_elapsed_time"},
		{"retry", map[string]any{"initial_interval": "400s"}, "max_elapsed_time"},
		{"retry", map[string]any{"max_interval": "400s"}, "max_elapsed_time"},
		{"net", map[string]any{"transport": "bogus"}, "transport"},
		{"grpcserver", map[string]any{"max_recv_msg_size_mib": -1}, "max_recv_msg_size_mib"},
		{"grpcserver", map[string]any{"read_buffer_size": -1}, "read_buffer_size"},
		{"grpcserver", map[string]any{"write_buffer_size": -1}, "write_buffer_size"},
		{"grpcclient", map[string]any{"balancer_name": "bogus"}, "balancer_name"},
		{"queue", map[string]any{"num_consumers": 0}, "num_consumers"},
		{"queue", map[string]any{"queue_size": 0}, "queue_size"},
		{"queue", map[string]any{"storage": "file_storage", "wait_for_result": true}, "wait_for_result"},
		{"queue", map[string]any{"storage": "file_storage", "sizer": "items"}, "sizer"},
		{"queue", map[string]any{"sizer": "requests", "batch": map[string]any{"flush_timeout": "1s", "min_size": 1, "max_size": 2}}, "sizer"},
		{"queue", map[string]any{"sizer": "items", "batch": map[string]any{"flush_timeout": "0s", "min_size": 1, "max_size": 2}}, "flush_timeout"},
		{"queue", map[string]any{"sizer": "items", "batch": map[string]any{"flush_timeout": "1s", "min_size": -1, "max_size": 2}}, "min_size"},
		{"queue", map[string]any{"sizer": "items", "batch": map[string]any{"flush_timeout": "1s", "min_size": 0, "max_size": -2}}, "max_size"},
		{"queue", map[string]any{"sizer": "items", "batch": map[string]any{"flush_timeout": "1s", "min_size": 10, "max_size": 5}}, "min_size"},
		{"timeout", map[string]any{"timeout": "-1s"}, "timeout"},
		{"memlimit", map[string]any{"check_interval": "0s"}, "check_interval"},
		{"memlimit", map[string]any{"limit_mib": 0}, "limit"},
		{"memlimit", map[string]any{"limit_mib": 0, "limit_percentage": 200}, "limit_percentage"},
		{"memlimit", map[string]any{"limit_mib": 10, "spike_limit_mib": 20}, "spike_limit_mib"},
		{"memlimit", map[string]any{"limit_mib": 0, "limit_percentage": 50, "spike_limit_percentage": 200}, "spike_limit_percentage"},
		{"batchproc", map[string]any{"send_batch_size": 10, "send_batch_max_size": 5}, "send_batch_max_size"},
		{"batchproc", map[string]any{"metadata_keys": []any{"a", "A"}}, "metadata_keys"},
		{"batchproc", map[string]any{"timeout": "-1s"}, "timeout"},
		{"debug", map[string]any{"verbosity": "bogus"}, "verbosity"},
		{"otlpexp", map[string]any{"endpoint": ""}, "endpoint"},
		{"otlpexp", map[string]any{"endpoint": "localhost:notaport"}, "port"},
		{"otlphttpexp", map[string]any{"endpoint": ""}, "endpoint"},
		{"zpages", map[string]any{"endpoint": ""}, "endpoint"},
	}
	type site struct {
		comp   string // key of c13Seeds / "kind/type"
		prefix []string
		typ    string
	}
	sites := []site{
		{"exporters/otlp", []string{"retry_on_failure"}, "retry"},
		{"exporters/otlphttp", []string{"retry_on_failure"}, "retry"},
		{"receivers/otlp", []string{"protocols", "grpc", "tls"}, "tls"},
		{"receivers/otlp", []string{"protocols", "http", "tls"}, "tls"},
		{"exporters/otlp", []string{"tls"}, "tls"},
		{"exporters/otlphttp", []string{"tls"}, "tls"},
		{"extensions/zpages", []string{"tls"}, "tls"},
		{"receivers/otlp", []string{"protocols", "grpc"}, "net"},
		{"receivers/otlp", []string{"protocols", "grpc"}, "grpcserver"},
		{"exporters/otlp", nil, "grpcclient"},
		{"exporters/otlp", []string{"sending_queue"}, "queue"},
		{"exporters/otlphttp", []string{"sending_queue"}, "queue"},
		{"exporters/otlp", nil, "timeout"},
		// (otlphttp's `timeout` is the HTTP client's timeout, for which confighttp has no rule)
		{"processors/memory_limiter", nil, "memlimit"},
		{"extensions/memory_limiter", nil, "memlimit"},
		{"processors/batch", nil, "batchproc"},
		{"exporters/debug", nil, "debug"},
		{"exporters/otlp", nil, "otlpexp"},
		{"exporters/otlphttp", nil, "otlphttpexp"},
		{"extensions/zpages", nil, "zpages"},
	}
	seeds := map[string]map[string]any{
		"extensions/zpages": {"endpoint": "localhost:55679"}, "processors/batch": {}, "exporters/debug": {},
	}
	for k, v := range c13Seeds {
		seeds[k] = v
	}
	mk := func(comp string, cc map[string]any) map[string]any {
		p := strings.SplitN(comp, "/", 2)
		m := c13Base(p[0], p[1], cc)
		svc := m["service"].(map[string]any)
		pipe := svc["pipelines"].(map[string]any)["traces"].(map[string]any)
		switch p[0] {
		case "extensions":
			svc["extensions"] = []any{p[1]}
		case "processors":
			pipe["processors"] = []any{p[1]}
		case "receivers":
			pipe["receivers"] = []any{p[1]}
		case "exporters":
			pipe["exporters"] = []any{p[1]}
		}
		return m
	}
	var out []c13Case
	seenSeed := map[string]bool{}
	for _, st := range sites {
		if !seenSeed[st.comp] {
			seenSeed[st.comp] = true
			out = append(out, c13Case{Kind: "valid", Comp: "seed configuration of " + st.comp, Config: mk(st.comp, c13Clone(seeds[st.comp]).(map[string]any))})
		}
		for _, r := range rules {
			if r.typ != st.typ {
				continue
			}
			cc := c13Clone(seeds[st.comp]).(map[string]any)
			var keys []string
			for k := range r.set {
				keys = append(keys, k)
			}
			sort.Strings(keys)
			for _, k := range keys {
				c13Set(cc, append(append([]string{}, st.prefix...), k), r.set[k])
			}
			if st.typ == "tls" {
				// a TLS block next to insecure: true is still validated; remove the shortcut so that the block is used
				if t, ok := cc["tls"].(map[string]any); ok && len(st.prefix) == 1 {
					delete(t, "insecure")
				}
			}
			out = append(out, c13Case{Kind: "invalid", Comp: fmt.Sprintf("nested rule: %s::%s %v", st.comp, strings.Join(st.prefix, "::"), r.set), Expect: r.expect, Config: mk(st.comp, cc)})
		}
	}
	return out
}

func TestVerif(t *testing.T) {
	ctx := vr.Start("C13", "config")
	if ctx == nil {
		t.Skip("not driven")
	}
	defer ctx.Finish()
	comps, err := c13Comps()
	if err != nil {
		ctx.Infra("%v", err)
		return
	}
	byName := map[string]c13Comp{}
	for _, c := range comps {
		byName[c.kind+"/"+c.typ] = c
		if cfg, err := c13Load(c13Base(c.kind, c.typ, c13Clone(c.seed).(map[string]any))); err == nil {
			if e, err := c13Effective(cfg); err == nil {
				c13Pristine[c.kind+"/"+c.typ] = e
			}
		}
	}
	runCase := func(c c13Case) (string, string) {
		switch c.Kind {
		case "written":
			var ps [][]string
			for _, p := range c.Paths {
				ps = append(ps, strings.Split(p, "::"))
			}
			sig, what, _ := c13Written(byName[c.Comp], ps, c.Values)
			return sig, what
		case "unknown-key":
			cm := byName[c.Comp]
			cc := c13Clone(cm.seed).(map[string]any)
			keys := append(strings.Split(c.Paths[0], "::"), "zz_unknown")
			if c.Paths[0] == "" {
				keys = []string{"zz_unknown"}
			}
			c13Set(cc, keys, 1)
			_, err := c13Load(c13Base(cm.kind, cm.typ, cc))
			if err == nil {
				return "unknown-key-accepted", fmt.Sprintf("%s: unknown key zz_unknown at %q was silently accepted", c.Comp, c.Paths[0])
			}
			if !strings.Contains(err.Error(), "zz_unknown") {
				return "unknown-key-rejected-without-naming-it", fmt.Sprintf("%s at %q: %v", c.Comp, c.Paths[0], err)
			}
			return "", ""
		case "valid":
			if _, err := c13Load(c.Config); err != nil {
				return "valid-configuration-rejected", fmt.Sprintf("%s: %v", c.Comp, err)
			}
			return "", ""
		default:
			_, err := c13Load(c.Config)
			if err == nil {
				return c.Kind + "-accepted:" + strings.SplitN(c.Comp, ":", 2)[0], fmt.Sprintf("%s (%s): the configuration was accepted", c.Kind, c.Comp)
			}
			if !strings.Contains(strings.ToLower(err.Error()), strings.ToLower(c.Expect)) {
				return c.Kind + "-error-does-not-name-the-entry:" + strings.SplitN(c.Comp, ":", 2)[0], fmt.Sprintf("%s (%s): error %q does not mention %q", c.Kind, c.Comp, err, c.Expect)
			}
			return "", ""
		}
	}
	if ctx.ReplayRaw != nil {
		var rf struct {
			Replay c13Case `json:"replay"`
		}
		if err := json.Unmarshal(ctx.ReplayRaw, &rf); err != nil {
			t.Fatal(err)
		}
		sig, what := runCase(rf.Replay)
		t.Logf("%s %s", sig, what)
		if sig != "" {
			ctx.Violate(sig, what, rf.Replay)
		}
		return
	}
	var n int64
	do := func(c c13Case) {
		n++
		if !ctx.Mine(n) {
			return
		}
		ctx.R.Evals++
		ctx.R.Trans++
		ctx.Nontrivial(vr.Hash(c.Kind, c.Comp, fmt.Sprint(c.Paths), fmt.Sprint(c.Values), c.Expect))
		sig, what := runCase(c)
		if sig != "" {
			ctx.Violate(sig, what, c)
			ctx.Outcome(strings.SplitN(sig, ":", 2)[0])
		} else {
			ctx.R.Traces++
			ctx.Outcome(c.Kind + ":ok")
		}
		if ctx.R.Evals%53 == 7 {
			ctx.Sample(map[string]any{"kind": c.Kind, "component": c.Comp, "paths": c.Paths, "values": c.Values})
		}
	}
	totalPaths, covered := 0, 0
	var uncovered []string
	pairsPerComp := ctx.Param("pairs", 60)
	for _, c := range comps {
		var ps []c13Path
		var maps [][]string
		c13Walk(reflect.TypeOf(c.def), nil, &ps, &maps, map[reflect.Type]int{})
		for _, mp := range maps {
			do(c13Case{Kind: "unknown-key", Comp: c.kind + "/" + c.typ, Paths: []string{strings.Join(mp, "::")}})
		}
		// find one loading candidate per path (shard-independent bookkeeping), then the cases
		type okv struct {
			p c13Path
			v any
		}
		var oks []okv
		for _, p := range ps {
			if len(p.keys) == 0 {
				continue
			}
			if p.keys[len(p.keys)-1] == "blocking" {
				continue // documented deprecated alias that mirrors block_on_overflow by design
			}
			totalPaths++
			found := false
			if p.typ.Kind() == reflect.Map && p.typ.Key().Kind() == reflect.String && (p.typ.Elem().Kind() == reflect.Ptr || p.typ.Elem().Kind() == reflect.Interface) {
				// a map whose entries can be null (service::telemetry::resource: a null entry suppresses an attribute): an entry
				// written with null is a written key like any other
				np := c13Path{append(append([]string{}, p.keys...), "x-null"), p.typ.Elem()}
				if _, _, loaded := c13Written(c, [][]string{np.keys}, []any{nil}); loaded {
					do(c13Case{Kind: "written", Comp: c.kind + "/" + c.typ, Paths: []string{strings.Join(np.keys, "::")}, Values: []any{nil}})
				}
			}
			if p.typ.Kind() == reflect.Map && p.typ.Key().Kind() == reflect.String {
				// a map-typed setting (headers, ...): one entry is written
				p = c13Path{append(append([]string{}, p.keys...), "x-verif"), p.typ.Elem()}
			}
			for _, cand := range c13Candidates(p) {
				if _, _, loaded := c13Written(c, [][]string{p.keys}, []any{cand}); loaded {
					found = true
					oks = append(oks, okv{p, cand})
					do(c13Case{Kind: "written", Comp: c.kind + "/" + c.typ, Paths: []string{strings.Join(p.keys, "::")}, Values: []any{cand}})
					break
				}
			}
			if found {
				covered++
			} else {
				uncovered = append(uncovered, fmt.Sprintf("%s/%s::%s (%v)", c.kind, c.typ, strings.Join(p.keys, "::"), p.typ))
			}
		}
		// sibling pairs under one parent
		np := 0
		for i := range oks {
			for j := i + 1; j < len(oks) && np < pairsPerComp; j++ {
				a, b := oks[i].p.keys, oks[j].p.keys
				if len(a) != len(b) || strings.Join(a[:len(a)-1], "::") != strings.Join(b[:len(b)-1], "::") {
					continue
				}
				np++
				do(c13Case{Kind: "written", Comp: c.kind + "/" + c.typ, Paths: []string{strings.Join(a, "::"), strings.Join(b, "::")}, Values: []any{oks[i].v, oks[j].v}})
			}
		}
	}
	for _, f := range c13Faults() {
		do(f)
	}
	for _, f := range c13RefGrid() {
		do(f)
	}
	for _, f := range c13InvalidGrid() {
		do(f)
	}
	if ctx.Shard == 0 {
		ctx.R.Extra["setting_paths"] = totalPaths
		ctx.R.Extra["covered_paths"] = covered
		if len(uncovered) > 60 {
			uncovered = append(uncovered[:60], fmt.Sprintf("... and %d more", len(uncovered)-60))
		}
		ctx.R.Extra["uncovered_paths"] = strings.Join(uncovered, "; ")
	}
	ctx.R.States = ctx.R.Evals
}


// c13Subset: got holds everything of want (same values), and whatever else it holds is empty. Returns a description of the
// first difference.
func c13Subset(want, got any, path string) string {
	empty := func(v any) bool {
		switch x := v.(type) {
		case nil:
			return true
		case bool:
			return !x
		case float64:
			return x == 0
		case string:
			return x == ""
		case []any:
			return len(x) == 0
		case map[string]any:
			for _, e := range x {
				if c13Subset(nil, e, "") != "" {
					return false
				}
			}
			return true
		}
		return false
	}
	if want == nil {
		if !empty(got) {
			b, _ := json.Marshal(got)
			return fmt.Sprintf("%s = %s was not written", path, b)
		}
		return ""
	}
	switch w := want.(type) {
	case map[string]any:
		g, ok := got.(map[string]any)
		if !ok {
			return fmt.Sprintf("%s is not a map", path)
		}
		for k, wv := range w {
			if d := c13Subset(wv, g[k], path+"::"+k); d != "" {
				return d
			}
		}
		for k, gv := range g {
			if _, ok := w[k]; !ok {
				if d := c13Subset(nil, gv, path+"::"+k); d != "" {
					return d
				}
			}
		}
		return ""
	case []any:
		g, ok := got.([]any)
		if !ok || len(g) != len(w) {
			return fmt.Sprintf("%s differs in length", path)
		}
		for i := range w {
			if d := c13Subset(w[i], g[i], fmt.Sprintf("%s[%d]", path, i)); d != "" {
				return d
			}
		}
		return ""
	}
	wb, _ := json.Marshal(want)
	gb, _ := json.Marshal(got)
	if c13NormVal(string(wb)) != c13NormVal(string(gb)) && !strings.EqualFold(c13NormVal(string(wb)), c13NormVal(string(gb))) {
		return fmt.Sprintf("%s = %s, written %s", path, gb, wb)
	}
	return ""
}
